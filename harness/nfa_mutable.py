"""Round-4 helper of the C07 / C08 / C16 checks: LIVE NFA objects under `allow_mutable_automata = True`.

The option is documented (automata.base.config): the constructor then stores the caller's containers AS THEY
ARE instead of freezing them.  The properties quantify over automata, not over container types, so every
operation / conversion / read must give the same answers on such an object as on its frozen twin — and must
keep doing so when it is called several times on the same object.  A library function that takes one of the
stored containers as its own work set (`x = row[a]; x |= more`, `seen = self.final_states; seen.add(..)`)
is invisible with frozen containers (`|=` rebinds a frozenset) and corrupts the automaton here.

* `frozen_twin(n)`      the definition AS BUILT: a deep copy made under the default options.  Only the oracles
                        and the model ever see it.
* `build_live(ref, mode, keep)`   the object the sequence of calls is made on.  Modes:
    plain            built under the option from private plain `set` / `dict` copies of the definition;
    aliased          like plain, and containers that a caller may legitimately share ARE shared: ONE set object
                     for all target sets with the same content (`to_accept = {q1}` used for several rows /
                     symbols), for a non-empty target set that equals `final_states` / `states` that very object, and
                     `final_states is states` when every state is final;
    aliased_rows     like plain, and rows with the same content are ONE dict object (with its target sets);
    copy_of_plain    like plain, then `.copy()` under the option: the copy shares every container with an
    copy_of_aliased  object that stays alive (collected in `keep`).
* `mutable_option()`    context manager: switches the process-wide option on for a whole sequence (objects the
                        library derives during the sequence are built under it too) and always restores it.
* `definition_of(n)`    the definition as plain values (to see whether a live object drifted).

The aliasing is a function of (definition, mode) only, so a replay that records `repr(ref)` and the mode
rebuilds the same sharing pattern.
"""
from __future__ import annotations

from typing import Any, List, Optional

import automata.base.config as global_config
from automata.fa.nfa import NFA

MODES = ["plain", "aliased", "aliased_rows", "copy_of_plain", "copy_of_aliased"]
MODE_WEIGHTS = [4, 7, 3, 3, 3]


def pick_mode(rng) -> str:
    return rng.choices(MODES, MODE_WEIGHTS)[0]


class mutable_option:
    """`with mutable_option():` — allow_mutable_automata is `on` inside; the old value is restored."""

    def __init__(self, on: bool = True):
        self.on = on

    def __enter__(self):
        self.old = global_config.allow_mutable_automata
        global_config.allow_mutable_automata = self.on
        return self

    def __exit__(self, *a):
        global_config.allow_mutable_automata = self.old


def plain_args(n: NFA) -> dict:
    """Constructor arguments of `n` as private plain containers (nothing shared with `n`, nothing shared inside)."""
    return dict(states=set(n.states), input_symbols=set(n.input_symbols),
                transitions={k: {a: set(ts) for a, ts in row.items()} for k, row in n.transitions.items()},
                initial_state=n.initial_state, final_states=set(n.final_states))


def frozen_twin(n: NFA) -> NFA:
    with mutable_option(False):
        return NFA(**plain_args(n))


def definition_of(n: NFA):
    return (set(n.states), set(n.input_symbols),
            {k: {a: set(ts) for a, ts in row.items()} for k, row in n.transitions.items()},
            n.initial_state, set(n.final_states))


def drifted(live: NFA, ref: NFA) -> bool:
    try:
        return definition_of(live) != definition_of(ref)
    except Exception:  # noqa: BLE001 - a container that is no longer iterable etc.
        return True


def build_live(ref: NFA, mode: str, keep: Optional[List[Any]] = None) -> NFA:
    """To be called inside `mutable_option()`."""
    if mode not in MODES:
        raise ValueError(f"unknown live mode {mode}")
    kw = plain_args(ref)
    if mode in ("aliased", "copy_of_aliased"):
        states, finals = kw["states"], kw["final_states"]
        if finals == states:
            kw["final_states"] = finals = states
        pool: List[set] = [x for x in ([finals, states] if finals is not states else [states]) if x]
        for row in kw["transitions"].values():
            for a, ts in row.items():
                for other in pool:
                    if other == ts:
                        row[a] = other
                        break
                else:
                    pool.append(ts)
    elif mode == "aliased_rows":
        seen: List[dict] = []
        rows = kw["transitions"]
        for k, row in rows.items():
            for other in seen:
                if other == row and list(other) == list(row):
                    rows[k] = other
                    break
            else:
                seen.append(row)
    n = NFA(**kw)
    if mode.startswith("copy_of"):
        if keep is not None:
            keep.append(n)
        n = n.copy()
    return n


def sharing_of(n: NFA) -> int:
    """Number of (row, symbol) entries whose target set object is also stored somewhere else in `n`."""
    ids: dict = {}
    for row in {id(r): r for r in n.transitions.values()}.values():
        for ts in row.values():
            ids[id(ts)] = ids.get(id(ts), 0) + 1
    extra = sum(c - 1 for c in ids.values() if c > 1)
    extra += sum(1 for x in (n.states, n.final_states) if id(x) in ids)
    extra += len(n.transitions) - len({id(r) for r in n.transitions.values()})
    return extra + (1 if n.states is n.final_states else 0)


def pooled_nfa(rng, alphabet, max_states: int = 4, names: Optional[List[Any]] = None) -> NFA:
    """An operand as a caller writes it who names a few target sets once and uses them in many places
    (`to_accept = {q1}`, `anywhere = {s0, s2}`): every non-ε entry is one of 1–3 distinct target sets, ε-moves are
    frequent (so that closures add targets to entries), most states have rows.  Built frozen here; in the
    `aliased` modes of build_live equal sets become ONE object."""
    k = rng.randint(2, max_states)
    st = (list(names) if names else list(range(k)))[:k]
    k = len(st)
    pool = []
    for _ in range(rng.randint(1, 3)):
        pool.append({q for q in st if rng.random() < rng.choice([0.3, 0.5])} or {rng.choice(st)})
    tr = {}
    for q in st:
        if q != st[0] and rng.random() < 0.1:
            continue
        row = {}
        for a in alphabet:
            if rng.random() < 0.75:
                row[a] = set(rng.choice(pool))
        if rng.random() < 0.45:
            row[""] = {rng.choice(st) for _ in range(rng.randint(1, 2))}
        items = list(row.items())
        rng.shuffle(items)
        tr[q] = dict(items)
    tr.setdefault(st[0], {})
    fin = {q for q in st if rng.random() < 0.4} or {rng.choice(st)}
    if rng.random() < 0.15:
        fin = set(st)
    with mutable_option(False):
        return NFA(states=set(st), input_symbols=set(alphabet), transitions=tr, initial_state=st[0], final_states=fin)
