"""Helpers shared by the ops modules of C04–C07: canonical forms with rendered names,
parsing of the driver's CANON answers, property oracles for DFA-valued results."""
from __future__ import annotations

from typing import Any, Callable, Dict, List, Optional, Tuple

from harness.common import InfraError, Names, Toks
from harness import langoracle


def parse_canon(t: Toks) -> dict:
    t.expect("CANON")
    n = t.int()
    partial = bool(t.int())
    syms = t.ints()
    fins = t.ints()
    ne = t.int()
    edges = [(t.int(), t.int(), t.int()) for _ in range(ne)]
    t.expect("UNREACHABLE")
    unreachable = t.int()
    t.expect("NAMES")
    k = t.int()
    names = [t.next() for _ in range(k)]
    return dict(n=n, partial=partial, syms=sorted(syms), finals=sorted(fins), edges=edges,
                unreachable=unreachable, names=names)


def py_canon(d, sy: Names, render: Optional[Callable[[Any], str]]) -> dict:
    """Canonical form of a live DFA: BFS from the initial state over symbols sorted by rank."""
    order = {d.initial_state: 0}
    queue = [d.initial_state]
    edges = []
    i = 0
    while i < len(queue):
        q = queue[i]
        i += 1
        row = d.transitions.get(q, {})
        for a in sorted(row, key=sy):
            tgt = row[a]
            if tgt not in order:
                order[tgt] = len(order)
                queue.append(tgt)
            edges.append((order[q], sy(a), order[tgt]))
    return dict(n=len(order), partial=bool(d.allow_partial), syms=sorted(sy(a) for a in d.input_symbols),
                finals=sorted(order[q] for q in d.final_states if q in order), edges=edges,
                unreachable=len(set(d.states) - set(order)),
                names=[_safe(render, q) for q in queue] if render else [])


def _safe(render, q) -> str:
    """Renderers assume the shape of names the current code produces; a name of another
    shape (after a change to the code) is rendered opaquely instead of crashing the harness."""
    try:
        return render(q)
    except Exception:  # noqa: BLE001
        return "?" + repr(q).replace(" ", "")


def render_set(parts: List[str]) -> str:
    return "{" + ",".join(sorted(parts)) + "}"


def renderer_atoms(st: Names, trap: Any = None) -> Callable[[Any], str]:
    """Component of a product-state name: the operand's own state, or "T" for anything that is not a
    state of the operand (the stand-in for "no transition"; which value the code picks for it is not
    specified, only that it is not one of the operand's states — a collision shows as a state's id)."""
    def r(q):
        return str(st.idx[q]) if q in st.idx else "T"
    return r


def render_pair(ra: Callable[[Any], str], rb: Callable[[Any], str]) -> Callable[[Any], str]:
    return lambda p: "(" + ra(p[0]) + "," + rb(p[1]) + ")"


def render_block(inner: Callable[[Any], str]) -> Callable[[Any], str]:
    """Names produced by `_minify(retain_names=True)`: frozensets of inner names; the
    `empty_language` fallback returns the plain state 0 (rendered Z)."""
    def r(name):
        if isinstance(name, frozenset):
            return render_set([inner(x) for x in name])
        return "Z"
    return r


def render_subset(st: Names) -> Callable[[Any], str]:
    return lambda S: render_set([str(st(q)) for q in S])


def check_valid(result) -> Optional[str]:
    try:
        result.validate()
    except Exception as e:  # noqa: BLE001
        return type(e).__name__
    return None


def lang_mismatch(operands, result, alphabet, spec: Callable[..., bool]) -> Optional[str]:
    """Shortest word on which `result` disagrees with spec(verdicts of operands); confirmed
    through the real accepts_input of every object involved."""
    k = len(operands)
    w = langoracle.find_word(list(operands) + [result], alphabet,
                             lambda v: bool(spec(*v[:k])) != v[k])
    if w is None:
        return None
    real = langoracle.confirm(list(operands) + [result], w)
    if bool(spec(*real[:k])) != real[k]:
        return w
    # The word separates the languages *as defined by the transition tables* (textbook semantics,
    # C01), but the library's own reader does not follow the table on it: the reader is broken as
    # well.  The property is about languages, so this is still a failing input; say what was seen.
    global LAST_NOTE
    LAST_NOTE = (f"on {w!r} the library's accepts_input answers {list(real)} while the transition tables "
                 f"give a different verdict for at least one of the automata (reader broken too, cf. C01)")
    return w


LAST_NOTE = ""
