"""C09 generator family: pairs of NFAs whose SHORTEST DISTINGUISHING WORD IS LONG compared with
the number of states (longer than |A| + |B|, up to exponential), or whose comparison has to walk
through exponentially many different subset pairs before it may answer.

The property quantifies over ALL pairs of valid NFAs over a common alphabet.  For DFAs two
inequivalent automata with m and n states are told apart by a word shorter than m + n; for NFAs
that bound applies to the DETERMINISED automata, so the shortest word in the symmetric difference
can be as long as 2^m.  Random small NFAs (and one-edge edits of them) practically never show
that: a comparison procedure that stops following pairs at a depth — or after a number of pairs —
polynomial in the state counts, or that prunes by a hash of the subsets, answers all of them
correctly.  The members here are the textbook witnesses of the blow-up:

* `cycles`    a start state that guesses (by one ε-move, or by a nondeterministic first step, possibly
              after a short deterministic tail) one of several cycles of pairwise coprime lengths
              p_1 … p_r; every letter x advances every cycle by a fixed weight w(x) (w = 1 for every
              letter: the cycles count the length; w(b) = 0: they count the a's — "counters").  The
              word is accepted when the chosen cycle stands on one of its final residues.  Σ p_i + 1
              states, but the determinisation has lcm(p_i) states, and a partner that differs "at the
              lcm only" (a+, a*, Σ+, the same cycles with one length changed, one final residue
              toggled, the deterministic single cycle of length lcm with or without one toggled
              state) is told apart by no word shorter than ~lcm.
* `nth`       "the n-th letter from the end is a hit letter": n + 1 states, 2^n reachable subsets
              (every one with its own language).  Partners: the same language written differently
              (twin copies under a guessing start, ε-split edges, the window DFA embedded as an NFA),
              the language with ONE window of n letters added (a second guessing chain Σ* w0), the
              window DFA with one final state toggled.  Distinguishing words are short here, but the
              walk meets ~2^n different pairs, far more than any polynomial in n.

Every builder returns, next to the real NFA, a `Spec`: the DETERMINISTIC machine of the family's
known structure (tuple of residues / window of the last n letters), written straight from the
parameters — it shares no code with the library and none with `nfaops_lib` either.  `decide` runs a
breadth-first pair walk over two Specs (at most lcm·lcm' resp. 2^n·2^n' pairs, in practice ≤ a few
thousand) and returns the exact answer together with a SHORTEST distinguishing word.
"""
from __future__ import annotations

from math import gcd
from typing import Any, Callable, Dict, List, Optional, Sequence, Tuple

from automata.fa.nfa import NFA


class Spec:
    """Deterministic acceptor: `start`, `step(state, letter)`, `acc(state)`; finite reachable part."""

    def __init__(self, start, step: Callable[[Any, str], Any], acc: Callable[[Any], bool], descr: str):
        self.start, self.step, self.acc, self.descr = start, step, acc, descr

    def accepts(self, w: str) -> bool:
        s = self.start
        for c in w:
            s = self.step(s, c)
        return bool(self.acc(s))


def decide(x: Spec, y: Spec, alphabet: Sequence[str], limit: int = 600000):
    """("equal", None, pairs) | ("differ", shortest word, pairs) | ("budget", None, pairs)."""
    alphabet = sorted(alphabet)
    s0 = (x.start, y.start)
    seen = {s0: None}
    queue = [s0]
    i = 0
    while i < len(queue):
        cur = queue[i]
        i += 1
        if bool(x.acc(cur[0])) != bool(y.acc(cur[1])):
            w = []
            while seen[cur] is not None:
                prev, a = seen[cur]
                w.append(a)
                cur = prev
            return "differ", "".join(reversed(w)), len(seen)
        for a in alphabet:
            nxt = (x.step(cur[0], a), y.step(cur[1], a))
            if nxt not in seen:
                if len(seen) >= limit:
                    return "budget", None, len(seen)
                seen[nxt] = (cur, a)
                queue.append(nxt)
    return "equal", None, len(seen)


def lcm(xs) -> int:
    out = 1
    for x in xs:
        out = out * x // gcd(out, x)
    return out


# --------------------------------------------------------------------------- naming
def _namer(style: int, salt: int):
    """Turn a structural key (tuple) into a state name of one of several kinds."""
    table: Dict[Any, Any] = {}

    def name(key):
        if key not in table:
            i = len(table)
            if style == 0:
                table[key] = key
            elif style == 1:
                table[key] = i + salt
            elif style == 2:
                table[key] = f"q{salt}_{i}"
            elif style == 3:
                table[key] = (i % 3, i // 3, salt)
            else:
                table[key] = frozenset({i, -1 - salt}) if i % 2 else -i - salt
        return table[key]
    return name


def _mk(states, sy, tr, init, fin) -> NFA:
    return NFA(states=set(states), input_symbols=set(sy), transitions=tr, initial_state=init, final_states=set(fin))


# --------------------------------------------------------------------------- cycles
def cycles_member(cycles: Sequence[int], finals: Sequence[Sequence[int]], weights: Dict[str, int],
                  start_kind: str = "lambda", tail: int = 0, style: int = 0, salt: int = 0) -> Tuple[NFA, Spec]:
    """start —(tail letters, any letter)→ hub; hub guesses a cycle: by ε (`lambda`) or together with the
    first letter (`first_step`, the hub is then final iff some cycle has residue 0 final, so that both
    kinds have the same language).  Cycle i of length p_i is on residue (weight of the word read after
    the tail) mod p_i; accepted iff that residue is in finals[i]."""
    sy = sorted(weights)
    nm = _namer(style, salt)
    tr: Dict[Any, Dict[str, set]] = {}
    states, fin = [], []
    for t in range(tail):
        states.append(nm(("t", t)))
        tr[nm(("t", t))] = {x: {nm(("t", t + 1)) if t + 1 < tail else nm(("hub",))} for x in sy}
    hub = nm(("hub",))
    states.append(hub)
    for i, p in enumerate(cycles):
        for r in range(p):
            q = nm((i, p, r))
            states.append(q)
            tr[q] = {x: {nm((i, p, (r + weights[x]) % p))} for x in sy}
            if r in finals[i]:
                fin.append(q)
    zero_final = any(0 in f for f in finals)
    if start_kind == "lambda":
        tr[hub] = {"": {nm((i, p, 0)) for i, p in enumerate(cycles)}}
    else:
        tr[hub] = {x: {nm((i, p, weights[x] % p)) for i, p in enumerate(cycles)} for x in sy}
        if zero_final:
            fin.append(hub)
    init = nm(("t", 0)) if tail else hub
    ps = tuple(cycles)
    fs = tuple(frozenset(f) for f in finals)

    def step(s, x):
        k, res = s
        if k < tail:
            return (k + 1, res)
        w = weights[x]
        return (k, tuple((r + w) % p for r, p in zip(res, ps)))

    def acc(s):
        k, res = s
        return k >= tail and any(r in f for r, f in zip(res, fs))
    spec = Spec((0, tuple(0 for _ in ps)), step, acc,
                f"cycles{list(cycles)} finals{[sorted(f) for f in finals]} weights{dict(weights)} {start_kind} tail{tail}")
    return _mk(states, sy, tr, init, fin), spec


def one_cycle_member(length: int, final_residues, weights: Dict[str, int], tail: int = 0,
                     style: int = 1, salt: int = 0) -> Tuple[NFA, Spec]:
    """The deterministic single cycle of `length` states (after the same tail)."""
    return cycles_member([length], [sorted(final_residues)], weights, "lambda" if style % 2 else "first_step",
                         tail, style, salt)


def sigma_member(weights: Dict[str, int], plus: bool, tail: int = 0, style: int = 1, salt: int = 0) -> Tuple[NFA, Spec]:
    """Σ^tail Σ* or (plus) Σ^tail · (words with at least one letter of non-zero weight; Σ+ when every
    letter counts) — what a cycles member with all (all non-zero) residues final looks like on every
    word lighter than the lcm."""
    sy = sorted(weights)
    nm = _namer(style, salt)
    n = tail + 2
    names = [nm(("s", i)) for i in range(n)]
    tr = {names[i]: {x: {names[i + 1]} for x in sy} for i in range(tail)}
    tr[names[tail]] = {x: {names[tail + 1] if weights[x] else names[tail]} for x in sy}
    tr[names[tail + 1]] = {x: {names[tail + 1]} for x in sy}
    fin = [names[tail + 1]] + ([] if plus else [names[tail]])

    def step(s, x):
        if s < tail or (s == tail and weights[x]):
            return s + 1
        return s
    return _mk(names, sy, tr, names[0], fin), Spec(0, step, (lambda s: s == tail + 1) if plus else (lambda s: s >= tail),
                                                   f"sigma{'+' if plus else '*'} tail{tail}")


# --------------------------------------------------------------------------- n-th letter from the end
def nth_member(n: int, hits: Sequence[str], alphabet: Sequence[str], variant: str = "plain",
               extra_window: Optional[str] = None, style: int = 0, salt: int = 0, rng=None) -> Tuple[NFA, Spec]:
    """Words whose n-th letter from the end is in `hits` (plus, with `extra_window` = w0 of length n,
    the words ending in w0).  variant: plain | twins (two copies under an ε-guessing start) |
    split (every chain edge split by an ε-move)."""
    sy = sorted(alphabet)
    hits = set(hits)
    nm = _namer(style, salt)
    tr: Dict[Any, Dict[str, set]] = {}
    states, fin = [], []

    def add(q, x, t):
        tr.setdefault(q, {}).setdefault(x, set()).add(t)

    def chain(tag, first_letters):
        """tag-chain: (tag,0) loops on Σ, leaves on `first_letters`, then n-1 arbitrary letters."""
        for i in range(n + 1):
            states.append(nm((tag, i)))
            tr.setdefault(nm((tag, i)), {})
        for x in sy:
            add(nm((tag, 0)), x, nm((tag, 0)))
        for x in first_letters:
            add(nm((tag, 0)), x, nm((tag, 1)))
        for i in range(1, n):
            for x in sy:
                if variant == "split":
                    mid = nm((tag, i, x, "e"))
                    if mid not in tr:
                        states.append(mid)
                        tr[mid] = {}
                    add(nm((tag, i)), x, mid)
                    add(mid, "", nm((tag, i + 1)))
                else:
                    add(nm((tag, i)), x, nm((tag, i + 1)))
        fin.append(nm((tag, n)))

    chain("c", sorted(hits))
    init = nm(("c", 0))
    if variant == "twins":
        chain("d", sorted(hits))
        init = nm(("start",))
        states.append(init)
        tr[init] = {"": {nm(("c", 0)), nm(("d", 0))}}
    if extra_window is not None:
        assert len(extra_window) == n
        for i in range(n + 1):
            states.append(nm(("w", i)))
            tr.setdefault(nm(("w", i)), {})
        for x in sy:
            add(nm(("w", 0)), x, nm(("w", 0)))
        for i, x in enumerate(extra_window):
            add(nm(("w", i)), x, nm(("w", i + 1)))
        fin.append(nm(("w", n)))
        old = init
        init = nm(("start2",))
        states.append(init)
        tr[init] = {"": {old, nm(("w", 0))}}
    spec = window_spec(n, hits, extra_window, None)
    spec.descr = f"nth n={n} hits={sorted(hits)} {variant} extra={extra_window}"
    return _mk(states, sy, tr, init, fin), spec


def window_spec(n: int, hits, extra_window: Optional[str], toggled: Optional[str]) -> Spec:
    """State = the last n letters read (fewer at the beginning)."""
    hits = set(hits)

    def step(s, x):
        return (s + x)[-n:]

    def acc(s):
        v = len(s) == n and (s[0] in hits or s == extra_window)
        return (not v) if (toggled is not None and s == toggled) else v
    return Spec("", step, acc, "window")


def window_dfa_member(n: int, hits: Sequence[str], alphabet: Sequence[str], toggled: Optional[str] = None,
                      style: int = 1, salt: int = 0) -> Tuple[NFA, Spec]:
    """The determinisation of `nth_member` written out by hand (one state per window of ≤ n last
    letters), embedded as an NFA; `toggled` = one window of n letters whose finality is flipped."""
    sy = sorted(alphabet)
    spec = window_spec(n, hits, None, toggled)
    nm = _namer(style, salt)
    tr, states, fin = {}, [], []
    work = [""]
    seen = {""}
    while work:
        s = work.pop()
        states.append(nm(("win", s)))
        if spec.acc(s):
            fin.append(nm(("win", s)))
        row = {}
        for x in sy:
            t = spec.step(s, x)
            row[x] = {nm(("win", t))}
            if t not in seen:
                seen.add(t)
                work.append(t)
        tr[nm(("win", s))] = row
    spec.descr = f"window-dfa n={n} hits={sorted(set(hits))} toggled={toggled}"
    return _mk(states, sy, tr, nm(("win", "")), fin), spec


# --------------------------------------------------------------------------- the pairs
COPRIME_SETS = [
    (2, 3), (2, 5), (3, 4), (3, 5), (2, 3, 5), (2, 3, 7), (3, 4, 5), (2, 5, 7), (3, 5, 7), (4, 5, 7), (2, 3, 5, 7),
    (3, 4, 5, 7), (4, 5, 9), (5, 7, 8), (2, 3, 11), (3, 5, 8),
]
BIG_COPRIME_SETS = [(2, 3, 5, 7, 11), (5, 7, 8, 9), (3, 4, 5, 7, 11), (2, 3, 5, 7, 13)]
WEIGHTS = [{"a": 1}, {"a": 1}, {"a": 1, "b": 1}, {"a": 1, "b": 0}, {"a": 1, "b": 2}, {"0": 0, "1": 1}]


def _nonzero(p):
    return list(range(1, p))


def cycles_pair(rng, big: bool = False, force: Optional[Tuple[str, str]] = None):
    """(kind, A, specA, B, specB, lcm).  A is a union of coprime cycles; B a near-equal partner.
    `force` = (shape of the final residues, kind of partner) instead of a random choice."""
    cyc = list(rng.choice(BIG_COPRIME_SETS if big else COPRIME_SETS))
    rng.shuffle(cyc)
    weights = dict(rng.choice(WEIGHTS[:3] if big else WEIGHTS))
    tail = 0 if big else rng.choice([0, 0, 0, 1, 2, 3])
    # nonzero / all_but_one: the near-equal partners differ only around the lcm; zero / random: mostly short witnesses
    shape = rng.choice(["nonzero", "nonzero", "nonzero", "all_but_one", "all_but_one", "all_but_one", "zero", "random"])
    if big:
        shape = rng.choice(["nonzero", "nonzero", "all_but_one"])
    if force:
        shape = force[0]
    if shape == "nonzero":        # accepts unless the lcm divides the weight
        finals = [_nonzero(p) for p in cyc]
    elif shape == "zero":         # accepts iff some p_i divides the weight
        finals = [[0] for p in cyc]
    elif shape == "all_but_one":  # every cycle rejects exactly one residue: rejected iff all of them hit it (CRT)
        finals = [[r for r in range(p) if r != h] for p, h in ((p, rng.randrange(p)) for p in cyc)]
    else:
        finals = [[r for r in range(p) if rng.random() < 0.6] for p in cyc]
    kindA = rng.choice(["lambda", "first_step"])
    A, sa = cycles_member(cyc, finals, weights, kindA, tail, rng.randrange(5), rng.randrange(50))
    L = lcm(cyc)
    st, salt = rng.randrange(5), 100 + rng.randrange(50)
    partners = ["sigma", "sigma", "sigma", "length_changed", "length_changed", "final_toggled", "final_toggled",
                "other_start_kind", "one_cycle", "one_cycle_toggled", "cycle_dropped"]
    if big:
        partners = ["sigma", "sigma", "other_start_kind", "length_changed", "final_toggled"]
    if shape in ("zero", "random"):
        partners = [x for x in partners if x != "sigma"]
    which = rng.choice(partners)
    if force:
        which = force[1]
    if which == "sigma":
        plus = not any(0 in f for f in finals)
        B, sb = sigma_member(weights, plus, tail, st, salt)
    elif which == "other_start_kind":
        B, sb = cycles_member(cyc, finals, weights, "first_step" if kindA == "lambda" else "lambda", tail, st, salt)
    elif which in ("one_cycle", "one_cycle_toggled"):
        fr = {k for k in range(L) if any(k % p in f for p, f in zip(cyc, finals))}
        if which == "one_cycle_toggled":
            fr ^= {rng.randrange(L)}
        B, sb = one_cycle_member(L, fr, weights, tail, st, salt)
    elif which == "length_changed":
        i = rng.randrange(len(cyc))
        cands = [q for q in range(2, 14) if q != cyc[i] and all(gcd(q, p) == 1 for j, p in enumerate(cyc) if j != i)]
        q = rng.choice(cands)
        cyc2 = list(cyc)
        cyc2[i] = q
        f2 = list(finals)
        f2[i] = _nonzero(q) if shape == "nonzero" else [0] if shape == "zero" else [r for r in range(q) if r != q - 1]
        B, sb = cycles_member(cyc2, f2, weights, rng.choice(["lambda", "first_step"]), tail, st, salt)
    elif which == "final_toggled":
        i = rng.randrange(len(cyc))
        f2 = [list(f) for f in finals]
        f2[i] = sorted(set(f2[i]) ^ {rng.randrange(cyc[i])})
        B, sb = cycles_member(cyc, f2, weights, rng.choice(["lambda", "first_step"]), tail, st, salt)
    else:   # one cycle left out
        i = rng.randrange(len(cyc))
        cyc2 = [p for j, p in enumerate(cyc) if j != i]
        f2 = [f for j, f in enumerate(finals) if j != i]
        B, sb = cycles_member(cyc2, f2, weights, rng.choice(["lambda", "first_step"]), tail, st, salt)
    return f"cycles_{shape}_vs_{which}", A, sa, B, sb, L


def nth_pair(rng, n: int):
    """(kind, A, specA, B, specB, 2^n)."""
    alpha = rng.choice([("a", "b"), ("a", "b"), ("0", "1"), ("a", "b", "c")])
    hits = [alpha[0]] if len(alpha) == 2 or rng.random() < 0.5 else [alpha[0], alpha[2]]
    A, sa = nth_member(n, hits, alpha, "plain", None, rng.randrange(5), rng.randrange(50))
    st, salt = rng.randrange(5), 100 + rng.randrange(50)
    which = rng.choice(["twins", "split", "window_dfa", "window_dfa_toggled", "extra_window", "extra_window_twins",
                        "shorter"])
    non_hits = [x for x in alpha if x not in hits]
    if which in ("twins", "split"):
        B, sb = nth_member(n, hits, alpha, which, None, st, salt)
    elif which == "window_dfa":
        B, sb = window_dfa_member(n, hits, alpha, None, st, salt)
    elif which == "window_dfa_toggled":
        w0 = "".join(rng.choice(alpha) for _ in range(n))
        B, sb = window_dfa_member(n, hits, alpha, w0, st, salt)
    elif which in ("extra_window", "extra_window_twins"):
        # w0 starts with a non-hit letter (else nothing is added: an equal pair, kept with probability 1/5)
        first = rng.choice(non_hits) if rng.random() < 0.8 else rng.choice(hits)
        w0 = first + "".join(rng.choice(alpha) for _ in range(n - 1))
        B, sb = nth_member(n, hits, alpha, "twins" if which.endswith("twins") else "plain", w0, st, salt)
    else:
        B, sb = nth_member(n - 1, hits, alpha, "plain", None, st, salt)
    return f"nth_vs_{which}", A, sa, B, sb, 2 ** n
