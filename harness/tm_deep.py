"""C03 round 6 — long runs (size thresholds of the *run*): a few machines whose behaviour is known in closed
form, run for thousands of steps / over thousands of cells / far to the left of the start cell.

Every family gives
  * a table (deterministic: the same table is given to DTM, NTM and the one-tape MNTM; one family is
    nondeterministic with a frontier of two configurations),
  * an input (and, for the machine that never halts, a budget in next() calls),
  * the closed form: verdict, number of steps, final configuration (state, head position relative to the first
    input cell, non-blank cells).
The judge drives the real `read_input_stepwise` to its end (or through the budget) *streaming* — nothing is
stored — next to a 15-line in-place interpreter on a dict tape (blank elsewhere, both directions): state and
symbol under the head are compared at every step, the whole head-relative view at ~40 checkpoints and at the
end, the number of yields, the way the generator ends and `accepts_input` against the closed form.  The closed
form itself is checked against the in-place interpreter before any library call (a disagreement is a defect
of this file: InfraError).  No model round trip: the answers are known, and the Lean theorems are about all
step counts.

Nothing here imports the library except through the constructors in harness.enc_tm.
"""
from __future__ import annotations

import random
from typing import Any, Callable, Dict, List, Optional, Tuple  # noqa: F401

from harness import enc_tm as E
from harness.common import InfraError

RUN_LIMIT = 20.0   # watchdog seconds for one whole run of the real code (a clean run needs well under 1 s)

# (zero, one, mark-for-zero, mark-for-one, blank)
ALPHABETS = [("0", "1", "x", "y", "."), ("a", "b", "A", "B", "#"), ("0", "1", "x", "y", " "),
             ("(", ")", "[", "]", "_"), ("é", "1", "x", "ÿ", "□")]

NAME_STYLES = [
    lambda i: "q%d" % i,
    lambda i: i,
    lambda i: ("q", i),
    lambda i: ["scan", "seek", "back", "check", "done", "aux"][i],
    lambda i: -i - 1,
]


def _names(style: int, n: int) -> list:
    return [NAME_STYLES[style % len(NAME_STYLES)](i) for i in range(n)]


class Spec:
    """One case of the family.  `table` (deterministic) xor `lists` (nondeterministic)."""

    def __init__(self, family: str, params: dict):
        self.family, self.params = family, params
        self.kw: dict = {}
        self.table: Optional[dict] = None
        self.lists: Optional[dict] = None
        self.swap = False
        self.word = ""
        self.n: Optional[int] = None          # budget in next() calls; None: the run halts, drive it to its end
        self.verdict = "accept"               # accept | reject | running
        self.steps = 0                        # transitions applied until the halt (budget - 1 when running)
        self.state: Any = None
        self.head = 0
        self.cells: Dict[int, str] = {}       # non-blank cells of the final configuration
        self.level: Optional[Callable[[int], List[Tuple[Any, int, Dict[int, str]]]]] = None
        self.depth = 0                        # nondeterministic: index of the last non-empty level
        self.level_size: Optional[Callable[[int], int]] = None

    @property
    def blank(self) -> str:
        return self.kw["blank_symbol"]

    def label(self) -> str:
        return self.family + "(" + ", ".join(f"{k}={v}" for k, v in sorted(self.params.items())) + ")"

    def replay(self) -> dict:
        w = self.word
        return dict(kind="DEEP", family=self.family, params=self.params, n=self.n or 0,
                    word=w if len(w) <= 120 else f"{w[:40]}…{w[-20:]} ({len(w)} symbols; rebuilt from params)")


def _kw(names, isy, tsy, blank, finals, init):
    return dict(states=set(names), input_symbols=set(isy), tape_symbols=set(tsy), initial_state=init,
                blank_symbol=blank, final_states=set(finals))


def _cells(start: int, s: str, blank: str) -> Dict[int, str]:
    return {start + i: c for i, c in enumerate(s) if c != blank}


# ------------------------------------------------------------------ families
def anbn(n0: int, n1: int, alpha: int = 0, style: int = 0) -> Spec:
    """The library's own 0^n 1^n machine (docs / tests), any of the alphabets; n1 ∈ {n0-1, n0, n0+1}."""
    z, o, x, y, b = ALPHABETS[alpha % len(ALPHABETS)]
    q0, q1, q2, q3, q4 = _names(style, 5)
    sp = Spec("anbn", dict(n0=n0, n1=n1, alpha=alpha, style=style))
    sp.kw = _kw([q0, q1, q2, q3, q4], z + o, z + o + x + y + b, b, [q4], q0)
    sp.table = {
        q0: {z: (q1, x, "R"), y: (q3, y, "R")},
        q1: {z: (q1, z, "R"), o: (q2, y, "L"), y: (q1, y, "R")},
        q2: {z: (q2, z, "L"), x: (q0, x, "R"), y: (q2, y, "L")},
        q3: {y: (q3, y, "R"), b: (q4, b, "R")},
    }
    sp.word = z * n0 + o * n1
    n = n0
    if n0 < 2 or abs(n0 - n1) > 1:
        raise InfraError("anbn: closed form only for n0 >= 2, |n0 - n1| <= 1")
    if n1 == n0:        # n passes of 2n+1 steps, then q0→q3, n-1 marks, the blank
        sp.verdict, sp.steps, sp.state, sp.head = "accept", 2 * n * n + 2 * n + 1, q4, 2 * n + 1
        sp.cells = _cells(0, x * n + y * n, b)
    elif n1 == n0 - 1:  # n-1 full passes, then q1 runs over the marks into the blank and is stuck
        sp.verdict, sp.steps, sp.state, sp.head = "reject", 2 * n * n - 1, q1, 2 * n - 1
        sp.cells = _cells(0, x * n + y * (n - 1), b)
    else:               # n full passes, q3 runs over the marks and is stuck on the extra `one`
        sp.verdict, sp.steps, sp.state, sp.head = "reject", 2 * n * n + 2 * n, q3, 2 * n
        sp.cells = _cells(0, x * n + y * n + o, b)
    return sp


def counter(k: int, overflow_row: bool = True, alpha: int = 0, style: int = 0) -> Spec:
    """Binary counter on k cells (least significant bit on the right), started on zero^k: walk to the right end,
    increment (carry to the left), again, until the carry leaves the left end of the number: the head then
    stands on the blank cell -1, *left of the start cell*.  2^(k+2) - 2 steps (Σ trailing ones = 2^k - 1).
    Without the row for that blank (`overflow_row=False`) the machine is stuck there one step earlier."""
    z, o, _x, _y, b = ALPHABETS[alpha % len(ALPHABETS)]
    r, i, acc = _names(style, 3)
    sp = Spec("counter", dict(k=k, overflow_row=overflow_row, alpha=alpha, style=style))
    sp.kw = _kw([r, i, acc], z + o, z + o + b, b, [acc], r)
    sp.table = {
        r: {z: (r, z, "R"), o: (r, o, "R"), b: (i, b, "L")},
        i: {o: (i, z, "L"), z: (r, o, "R")},
    }
    if overflow_row:
        sp.table[i][b] = (acc, b, "N")
    sp.word = z * k
    if k < 1:
        raise InfraError("counter: k >= 1")
    total = 2 ** (k + 2) - 2
    sp.head = -1
    sp.cells = _cells(0, z * k, b)
    if overflow_row:
        sp.verdict, sp.steps, sp.state = "accept", total, acc
    else:
        sp.verdict, sp.steps, sp.state = "reject", total - 1, i
    return sp


def sweep_right(length: int, wseed: int, accept: bool = True, alpha: int = 0, style: int = 0) -> Spec:
    """Walk to the right over an input of `length` symbols, exchanging the two input symbols on the way, and halt
    on the first blank: length+1 steps (accept) / stuck after `length` steps (no row for the blank)."""
    z, o, _x, _y, b = ALPHABETS[alpha % len(ALPHABETS)]
    s, acc = _names(style, 2)
    sp = Spec("sweep_right", dict(length=length, wseed=wseed, accept=accept, alpha=alpha, style=style))
    sp.kw = _kw([s, acc], z + o, z + o + b, b, [acc], s)
    sp.table = {s: {z: (s, o, "R"), o: (s, z, "R")}}
    if accept:
        sp.table[s][b] = (acc, b, "N")
    wr = random.Random(wseed)
    sp.word = "".join(wr.choice(z + o) for _ in range(length))
    flipped = "".join(o if c == z else z for c in sp.word)
    sp.head, sp.cells = length, _cells(0, flipped, b)
    if accept:
        sp.verdict, sp.steps, sp.state = "accept", length + 1, acc
    else:
        sp.verdict, sp.steps, sp.state = "reject", length, s
    return sp


def walk_left(calls: int, alpha: int = 0, style: int = 0) -> Spec:
    """Never halts: from the one-symbol input the head walks left into the blank region, writing a mark on every
    second cell; observed through `calls` next() calls (halting is not assumed by the property).  After j steps
    the head is on cell -j, the cells -1, -3, … (up to -(j-1)) carry the mark, state by parity."""
    z, _o, x, _y, b = ALPHABETS[alpha % len(ALPHABETS)]
    s, t, acc = _names(style, 3)
    sp = Spec("walk_left", dict(calls=calls, alpha=alpha, style=style))
    sp.kw = _kw([s, t, acc], z, z + x + b, b, [acc], s)
    sp.table = {s: {z: (s, z, "L"), b: (t, x, "L")}, t: {b: (s, b, "L")}}
    sp.word = z
    sp.n = calls
    j = calls - 1
    if j < 1:
        raise InfraError("walk_left: at least 2 calls")
    sp.verdict, sp.steps, sp.head = "running", j, -j
    sp.state = s if j % 2 == 1 else t
    sp.cells = {0: z}
    sp.cells.update({-c: x for c in range(1, j) if c % 2 == 1})
    return sp


def branchy_walk(length: int, accept: bool = True, swap: bool = False, alpha: int = 0, style: int = 0) -> Spec:
    """Nondeterministic, frontier of two: walking right over zero^length the machine may at every cell also write
    a mark and fall into a dead-end state.  Level j (1 ≤ j ≤ length) = {walker on cell j, dead end on cell j with
    the mark on cell j-1}; level length+1 = {accepting configuration} (or empty: reject).  Thousands of levels
    (NTM) / of visited configurations (MNTM), never more than two pending."""
    z, _o, x, _y, b = ALPHABETS[alpha % len(ALPHABETS)]
    s, d, acc = _names(style, 3)
    sp = Spec("branchy_walk", dict(length=length, accept=accept, swap=swap, alpha=alpha, style=style))
    sp.kw = _kw([s, d, acc], z, z + x + b, b, [acc], s)
    sp.lists = {s: {z: [(s, z, "R"), (d, x, "R")]}}
    if accept:
        sp.lists[s][b] = [(acc, b, "N")]
    sp.swap = swap
    sp.word = z * length
    base = _cells(0, sp.word, b)

    def level(j: int):
        if j == 0:
            return [(s, 0, base)]
        if j <= length:
            marked = dict(base)
            marked[j - 1] = x
            return [(s, j, base), (d, j, marked)]
        if j == length + 1 and accept:
            return [(acc, length, base)]
        return []

    sp.level = level
    sp.level_size = lambda j: 1 if j == 0 else 2 if j <= length else 1 if (j == length + 1 and accept) else 0
    sp.depth = length + 1 if accept else length
    sp.verdict = "accept" if accept else "reject"
    sp.steps = sp.depth
    sp.state, sp.head, sp.cells = (acc, length, base) if accept else (s, length, base)
    return sp


FAMILIES = dict(anbn=anbn, counter=counter, sweep_right=sweep_right, walk_left=walk_left, branchy_walk=branchy_walk)


def build(family: str, params: dict) -> Spec:
    return FAMILIES[family](**params)


# ------------------------------------------------------------------ reference
def view(head: int, cells: Dict[int, str], blank: str) -> tuple:
    """Head-relative content (cells left of the head nearest first, cells from the head rightwards), blanks beyond
    the outermost non-blank cell stripped — the format of harness.enc_tm.view_of_tape."""
    keys = [k for k, v in cells.items() if v != blank]
    lo = min(keys) if keys else head
    hi = max(keys) if keys else head - 1
    left = tuple(cells.get(i, blank) for i in range(head - 1, lo - 1, -1))
    right = tuple(cells.get(i, blank) for i in range(head, hi + 1))
    return (left, right)


def ref_run(sp: Spec):
    """In-place textbook run of a deterministic table: yields (state, head, live dict of non-blank cells);
    the generator's return value is 'accept' / 'reject'."""
    blank, finals, table = sp.blank, sp.kw["final_states"], sp.table
    cells = {i: c for i, c in enumerate(sp.word) if c != blank}
    head, state = 0, sp.kw["initial_state"]
    yield state, head, cells
    while True:
        if state in finals:
            return "accept"
        r = table.get(state, {}).get(cells.get(head, blank))
        if r is None:
            return "reject"
        state, sym, d = r
        if sym == blank:
            cells.pop(head, None)
        else:
            cells[head] = sym
        head += 1 if d == "R" else -1 if d == "L" else 0
        yield state, head, cells


def verify_closed_form(sp: Spec):
    """The closed form against the in-place interpreter (deterministic families) — a disagreement is a defect of
    this file, not of the library."""
    if sp.table is None:
        return
    g = ref_run(sp)
    cap = sp.n if sp.n is not None else sp.steps + 10
    last, count, verdict = None, 0, "running"
    while count < cap:
        try:
            last = next(g)
        except StopIteration as e:
            verdict = e.value
            break
        count += 1
    got = (verdict, count - 1, last[0], view(last[1], last[2], sp.blank), last[1])
    want = (sp.verdict, sp.steps, sp.state, view(sp.head, sp.cells, sp.blank), sp.head)
    if got != want:
        raise InfraError(f"tm_deep: closed form of {sp.label()} is wrong: interpreter {got[:3]}, head {got[4]}; "
                         f"closed form {want[:3]}, head {want[4]}")


SHORT_TAPE = 160    # stored tapes up to this length are compared completely at every step


def checkpoints(total: int) -> set:
    """Indices at which a long tape is compared completely (every index gets the cheap comparison: state and
    symbol under the head; short tapes are compared completely everywhere).  A function of the case alone, so
    that a replay looks at the same indices."""
    stride = max(1, total // 32)
    r = random.Random(total * 7919 + 17)
    return (set(range(0, total, stride)) | {0, 1, total - 2, total - 1, total}
            | {r.randrange(total) for _ in range(8)})


# ------------------------------------------------------------------ driving the real generator
def drive(gen, cap: int, visit: Callable[[int, Any], None], limit: float = RUN_LIMIT) -> Tuple[int, str]:
    """next() until the generator ends or `cap` values were yielded.  Returns (yields, end) with end in
    'ret' | 'run' | 'raise <Class>' (RecursionError, MemoryError, the watchdog included)."""
    count, end = 0, "run"
    try:
        with E.time_limit(limit):
            while count < cap:
                try:
                    y = next(gen)
                except StopIteration:
                    end = "ret"
                    break
                except E.HarnessTimeout:
                    raise
                except Exception as e:  # noqa: BLE001 — every class is an observation here
                    end = "raise " + type(e).__name__
                    break
                visit(count, y)
                count += 1
    except E.HarnessTimeout:
        E.TIMEOUTS += 1
        end = "raise HarnessTimeout"
    return count, end


def safe_accepts(m, w: str, limit: float = RUN_LIMIT):
    """accepts_input under the watchdog: ('ok', bool) | ('err', class name)."""
    try:
        with E.time_limit(limit):
            try:
                return ("ok", m.accepts_input(w))
            except E.HarnessTimeout:
                raise
            except Exception as e:  # noqa: BLE001
                return ("err", type(e).__name__)
    except E.HarnessTimeout:
        E.TIMEOUTS += 1
        return ("err", "HarnessTimeout")


def _configs(cls: str, y) -> Optional[list]:
    """The configurations of one yielded value as [(state, TMTape)]; None when the shape is wrong."""
    try:
        if cls == "DTM":
            return [(y.state, y.tape)]
        if not isinstance(y, (set, frozenset)):
            return None
        if cls == "NTM":
            return [(c.state, c.tape) for c in y]
        out = []
        for c in y:
            if len(c.tapes) != 1:
                return None
            out.append((c.state, c.tapes[0]))
        return out
    except AttributeError:
        return None


def _end_word(end: str) -> str:
    return {"ret": "accept (the generator returns)", "run": "still running",
            "raise RejectionException": "reject (RejectionException)"}.get(end, end)


def expected_end(sp: Spec) -> str:
    return {"accept": "ret", "reject": "raise RejectionException", "running": "run"}[sp.verdict]


def expected_yields(sp: Spec, cls: str) -> int:
    """Closed form of the number of values read_input_stepwise yields."""
    if sp.verdict == "running":
        return sp.n
    if sp.table is not None:
        # one configuration per step and the start; the NTM also yields the empty level before it rejects
        return sp.steps + 1 + (1 if cls == "NTM" and sp.verdict == "reject" else 0)
    sizes = [sp.level_size(j) for j in range(sp.depth + 1)]
    if cls == "NTM":
        return len(sizes) + (1 if sp.verdict == "reject" else 0)
    return sum(sizes)   # the accepting level of these families is a single configuration


def machines(sp: Spec) -> List[Tuple[str, Any]]:
    if sp.table is not None:
        return [("DTM", E.dtm_from(sp.kw, sp.table)), ("NTM", E.ntm_from(sp.kw, sp.table)),
                ("MNTM", E.mntm1_from(sp.kw, sp.table))]
    return [("NTM", E.ntm_from_lists(sp.kw, sp.lists)), ("MNTM", E.mntm1_from_lists(sp.kw, sp.lists, swap=sp.swap))]


def judge_deterministic(sp: Spec, cls: str, m) -> Tuple[List[str], dict]:
    """One real run of a deterministic table as class `cls` against the in-place run and the closed form."""
    blank = sp.blank
    want_n = expected_yields(sp, cls)
    cap = sp.n if sp.n is not None else want_n + 5
    pts = checkpoints(sp.steps + 1)
    ref = ref_run(sp)
    wrong: List[str] = []
    st = dict(last=None, ref_done=False, minpos=0, maxlen=0)

    def visit(k: int, y):
        cs = _configs(cls, y)
        if cs is None:
            if not wrong:
                wrong.append(f"yield {k} is not a configuration" + ("" if cls == "DTM" else " set"))
            return
        if cls == "NTM" and not cs and sp.verdict == "reject" and k == sp.steps + 1:
            st["empty_level"] = True      # the empty level an NTM yields before it rejects
            return
        try:
            rs, rh, rc = next(ref)
        except StopIteration:
            if not wrong:
                wrong.append(f"a value is yielded at index {k}, after the run has ended (it ends after {sp.steps} steps)")
            return
        if len(cs) != 1:
            if not wrong:
                wrong.append(f"yield {k} holds {len(cs)} configurations, the table is deterministic")
            return
        state, tape = cs[0]
        st["last"] = (state, tape)
        st["maxlen"] = max(st["maxlen"], len(tape.tape))
        st["minpos"] = min(st["minpos"], rh)
        if wrong:
            return
        if state != rs or tape.tape[tape.current_position] != rc.get(rh, blank):
            wrong.append(f"configuration {k} differs from {k} applications of the transition function "
                         f"(state {state!r} reading {tape.tape[tape.current_position]!r}, expected {rs!r} reading "
                         f"{rc.get(rh, blank)!r})")
        elif (k in pts or len(tape.tape) <= SHORT_TAPE) and E.view_of_tape(tape, blank) != view(rh, rc, blank):
            wrong.append(f"configuration {k} differs from {k} applications of the transition function (tape content)")
        elif tape.blank_symbol != blank:
            wrong.append("a tape lost the machine's blank symbol")

    count, end = drive(m.read_input_stepwise(sp.word), cap, visit)
    info = dict(count=count, end=end, maxlen=st["maxlen"], minpos=st["minpos"])
    if end.startswith("raise ") and end != "raise RejectionException":
        wrong.insert(0, f"step-by-step reading raises {end[6:]} after {count} of {want_n} configurations")
    elif end != expected_end(sp):
        wrong.append(f"the run ends with {_end_word(end)} after {count} yields; closed form: "
                     f"{_end_word(expected_end(sp))} after {want_n}")
    elif count != want_n:
        wrong.append(f"{count} values yielded, closed form {want_n} ({sp.steps} steps)")
    if not wrong:
        if st["last"] is None:
            wrong.append("nothing yielded")
        else:
            state, tape = st["last"]
            if (state, E.view_of_tape(tape, blank)) != (sp.state, view(sp.head, sp.cells, blank)):
                wrong.append(f"the last configuration (state {state!r}) is not the closed-form final configuration "
                             f"(state {sp.state!r}, head on cell {sp.head}, {len(sp.cells)} non-blank cells)")
    return wrong, info


def judge_branching(sp: Spec, cls: str, m) -> Tuple[List[str], dict]:
    """NTM: yield j = level j as a set; MNTM: the yields are level 0, level 1, … in some order inside each level."""
    blank = sp.blank
    want_n = expected_yields(sp, cls)
    pts = checkpoints(sp.depth + 1)
    wrong: List[str] = []
    st = dict(maxlen=0, maxlevel=0, depth=0, pending=[], lastset=None)

    def keyset(level, full):
        if full:
            return sorted(repr((s, view(h, c, blank))) for (s, h, c) in level)
        return sorted(repr((s, c.get(h, blank))) for (s, h, c) in level)

    def realset(cs, full):
        if full:
            return sorted(repr((s, E.view_of_tape(t, blank))) for (s, t) in cs)
        return sorted(repr((s, t.tape[t.current_position])) for (s, t) in cs)

    def compare(j, cs):
        st["maxlevel"] = max(st["maxlevel"], len(cs))
        for (_s, t) in cs:
            st["maxlen"] = max(st["maxlen"], len(t.tape))
        if wrong:
            return
        full = j in pts or j >= sp.depth - 1
        if realset(cs, full) != keyset(sp.level(j), full):
            wrong.append(f"level {j} is not the set of {j}-step successors" if cls == "NTM" else
                         f"depth-{j} block is not the multiset of depth-{j} configurations")
        st["lastset"] = (j, realset(cs, True))

    def visit(k: int, y):
        cs = _configs(cls, y)
        if cs is None:
            if not wrong:
                wrong.append(f"yield {k} is not a configuration set")
            return
        if cls == "NTM":
            compare(k, cs)
            return
        if len(cs) != 1:
            if not wrong:
                wrong.append(f"yield {k} is not a singleton set")
            return
        j = st["depth"]
        if j > sp.depth:
            if not wrong:
                wrong.append("more configurations yielded than the breadth-first levels contain")
            return
        st["pending"].append(cs[0])
        if len(st["pending"]) == sp.level_size(j):
            block, st["pending"] = st["pending"], []
            st["depth"] = j + 1
            compare(j, block)

    count, end = drive(m.read_input_stepwise(sp.word), want_n + 5, visit)
    info = dict(count=count, end=end, maxlen=st["maxlen"], minpos=0, maxlevel=st["maxlevel"])
    if end.startswith("raise ") and end != "raise RejectionException":
        wrong.insert(0, f"step-by-step reading raises {end[6:]} after {count} of {want_n} yields")
    elif end != expected_end(sp):
        wrong.append(f"the run ends with {_end_word(end)} after {count} yields; closed form: "
                     f"{_end_word(expected_end(sp))} after {want_n}")
    elif count != want_n:
        wrong.append(f"{count} values yielded, closed form {want_n} ({sp.depth + 1} levels)")
    if not wrong and sp.verdict == "accept":
        fin = sorted(repr((s, view(h, c, blank))) for (s, h, c) in sp.level(sp.depth))
        if st["lastset"] is None or st["lastset"][1] != fin:
            wrong.append("the last yield is not the closed-form accepting configuration")
    return wrong, info


def judge(sp: Spec, cls: str, m) -> Tuple[List[str], dict]:
    if sp.table is not None:
        return judge_deterministic(sp, cls, m)
    return judge_branching(sp, cls, m)


# ------------------------------------------------------------------ the plan of one run
def plan(rng: random.Random, thorough: bool) -> List[Spec]:
    """A small, fixed-shape list of cases; sizes, alphabets and state-name styles are drawn from `rng`."""
    def a():
        return rng.randrange(len(ALPHABETS))

    def s():
        return rng.randrange(len(NAME_STYLES))

    n_acc = rng.randint(36, 42)                  # 2n²+2n+1 = 2665 … 3613 steps
    n_mid = rng.randint(23, 30)                  # 1151 … 1861 steps: around a thousand configurations
    n_rej = rng.randint(26, 34)
    n_rej2 = rng.randint(24, 32)
    specs = [
        anbn(n_mid, n_mid, 0, 0),                # the machine exactly as in the library's documentation
        anbn(n_acc, n_acc, a(), s()),
        anbn(n_rej, n_rej - 1, a(), s()),
        anbn(n_rej2, n_rej2 + 1, a(), s()),
        counter(rng.choice([9, 10]), True, a(), s()),            # 2046 / 4094 steps
        counter(rng.choice([8, 9]), False, a(), s()),            # 1021 / 2045 steps, stuck left of the start cell
        sweep_right(rng.randint(2900, 3100), rng.randrange(10 ** 6), True, a(), s()),
        sweep_right(rng.randint(1500, 2200), rng.randrange(10 ** 6), False, a(), s()),
        walk_left(rng.randint(2001, 2400), a(), s()),
        branchy_walk(rng.randint(1100, 1400), True, rng.random() < 0.5, a(), s()),
        branchy_walk(rng.randint(1000, 1200), False, rng.random() < 0.5, a(), s()),
    ]
    if thorough:
        specs += [
            anbn(50, 50, a(), s()), anbn(45, 44, a(), s()),
            counter(11, True, a(), s()), counter(10, False, a(), s()),
            sweep_right(5000, rng.randrange(10 ** 6), True, a(), s()),
            walk_left(4000, a(), s()),
            branchy_walk(2500, True, rng.random() < 0.5, a(), s()),
        ]
    return specs
