"""C01, round 6: the readers under the library's global options, and reading interleaved with the other public
calls on ONE kept-alive object.

Everything here is plain data + the code that performs one "other" public call; the judging (textbook run of the
definition captured at construction) lives in harness/ops/C01.py.

A *history* is

    (kind, options, kw, other_kw, steps)

kind      "DFA" | "NFA"
options   (should_validate_automata, allow_mutable_automata) while CONSTRUCTING the object (calls run in the
          default configuration)
kw        constructor arguments of the object under test (plain dict / set containers, a VALID definition)
other_kw  constructor arguments of a second automaton over the same alphabet (operand of the binary calls), or None
steps     ("read", word, order)   read `word` through the four reading APIs in the order given by `order`
                                  (a permutation of "a" accepts_input, "i" `in`, "r" read_input, "s" stepwise)
          any other tuple         one other public call on the SAME object (see CALLS_DFA / CALLS_NFA, do_call);
                                  whatever it returns or raises is only recorded
"""
from __future__ import annotations

import itertools
import pickle
import random
from typing import Any, Dict, List, Optional, Sequence, Tuple

from automata.fa.dfa import DFA
from automata.fa.nfa import NFA

from harness import fa_reuse as FR
from harness import gen

OPTION_COMBOS = [(True, False), (False, False), (True, True), (False, True)]  # (validate, mutable)
ORDERS = ["".join(p) for p in itertools.permutations("airs")]


def option_name(opt) -> str:
    return f"validate={'on' if opt[0] else 'off'},mutable={'on' if opt[1] else 'off'}"


# ------------------------------------------------------------------ tiny textbook run on plain arguments (word choice only)
def run_kw(kind: str, kw: dict, w: str) -> bool:
    T = kw["transitions"]
    if kind == "DFA":
        cur = kw["initial_state"]
        for c in w:
            row = T.get(cur, {})
            if c not in row:
                return False
            cur = row[c]
        return cur in kw["final_states"]

    def clo(S):
        S = set(S)
        work = list(S)
        while work:
            q = work.pop()
            for t in T.get(q, {}).get("", ()):
                if t not in S:
                    S.add(t)
                    work.append(t)
        return S
    cur = clo({kw["initial_state"]})
    for c in w:
        cur = clo({t for q in cur for t in T.get(q, {}).get(c, ())})
    return bool(cur & set(kw["final_states"]))


def language_slice(kind: str, kw: dict, max_len: int, cap: int = 400) -> Tuple[List[str], List[str]]:
    """(accepted, rejected) words over the alphabet up to max_len, in length-lexicographic order (capped)."""
    sy = sorted(kw["input_symbols"])
    acc, rej = [], []
    n = 0
    for w in gen.words_upto(sy, max_len):
        n += 1
        if n > cap:
            break
        (acc if run_kw(kind, kw, w) else rej).append(w)
    return acc, rej


# ------------------------------------------------------------------ definitions
def trie_dfa_kw(rng: random.Random) -> Tuple[dict, List[str]]:
    """Acyclic DFA of a finite language (a trie of 2–9 words), partial, or completed with a trap state; state
    names = the prefixes themselves, or a pool of the usual adversarial names."""
    sy = list(rng.choice([("a", "b"), ("a", "b", "c"), ("0", "1"), ("b", "a", "é")]))
    words = set()
    for _ in range(rng.randint(2, 9)):
        words.add("".join(rng.choice(sy) for _ in range(rng.randint(0 if rng.random() < 0.2 else 1, 4))))
    if len(words) < 2:
        words |= {sy[0], sy[-1] * 2}
    prefixes = sorted({w[:k] for w in words for k in range(len(w) + 1)}, key=lambda p: (len(p), p))
    complete = rng.random() < 0.35
    n = len(prefixes) + (1 if complete else 0)
    style = rng.random()
    if style < 0.4:
        names: List[Any] = list(range(n))
    elif style < 0.6:
        names = ["p:" + p for p in prefixes] + ["trap"]
    else:
        names = []
        while len(names) < n:      # a pool of distinct names of one style, large enough
            names = gen.name_pool(rng, n)
            if len(names) < n:
                names = [("s", i) for i in range(n)]
    name = dict(zip(prefixes, names))
    trans: Dict[Any, Dict[str, Any]] = {name[p]: {} for p in prefixes}
    for p in prefixes:
        if p:
            trans[name[p[:-1]]][p[-1]] = name[p]
    states = set(trans)
    if complete:
        trap = names[len(prefixes)]
        states.add(trap)
        trans[trap] = {}
        for q in list(trans):
            for a in sy:
                trans[q].setdefault(a, trap)
    keys = list(trans)
    rng.shuffle(keys)
    kw = dict(states=states, input_symbols=set(sy), transitions={k: trans[k] for k in keys}, initial_state=name[""],
              final_states={name[w] for w in words}, allow_partial=not complete)
    return kw, sorted(words, key=lambda w: (len(w), w))


def rand_definition(rng: random.Random, kind: str, lambda_heavy: bool = False) -> Tuple[dict, str, Optional[List[str]]]:
    """(plain constructor arguments of a VALID definition, shape tag, the finite language in closed form or None)."""
    if kind == "DFA":
        r = rng.random()
        if r < 0.45:
            kw, words = trie_dfa_kw(rng)
            return kw, "trie_finite_language" + ("" if kw["allow_partial"] else "_complete"), words
        if r < 0.6:
            return FR.dfa_kw(gen.rand_dfa(rng, 5, partial=True)), "random_partial", None
        if r < 0.7:
            return FR.dfa_kw(gen.rand_dfa(rng, 5, junk_rows=True)), "random_junk_rows", None
        return FR.dfa_kw(gen.rand_dfa(rng, 5)), "random", None
    r = rng.random()
    if r < 0.2:
        # rows keyed by non-states (same generator as the junk-row family of the ops module, inlined: no import cycle)
        n0 = gen.rand_nfa(rng, 4, eps=0.6 if lambda_heavy else None)
        kw = FR.nfa_kw(rng, n0, "set")
        names = sorted(kw["states"], key=repr)
        for k in [x for x in (-1, 0, 1, len(names), "junk", ("j", 0)) if x not in kw["states"]][: rng.randint(1, 2)]:
            kw["transitions"][k] = {a: {t for t in names if rng.random() < 0.4}
                                    for a in sorted(kw["input_symbols"]) + [""] if rng.random() < 0.5}
        return kw, "random_junk_rows", None
    if r < 0.35:
        # an ε-cycle through every state, symbols read here and there
        n = rng.randint(2, 5)
        names = gen.name_pool(rng, n)[:n]
        n = len(names)
        sy = list(rng.choice(gen.ALPHABETS))
        trans = {names[i]: {"": {names[(i + 1) % n]}} for i in range(n)}
        for q in names:
            for a in sy:
                if rng.random() < 0.3:
                    trans[q][a] = {rng.choice(names)}
        extra = [x for x in ("sink", 99, ("x",)) if x not in names][0]
        trans[rng.choice(names)][rng.choice(sy)] = {extra}
        kw = dict(states=set(names) | {extra}, input_symbols=set(sy), transitions=trans, initial_state=names[0],
                  final_states={extra} if rng.random() < 0.7 else {rng.choice(names)})
        return kw, "lambda_cycle", None
    eps = rng.choice([0.35, 0.6, 0.6, 0.9]) if (lambda_heavy or rng.random() < 0.5) else None
    return FR.nfa_kw(rng, gen.rand_nfa(rng, 5, eps=eps), "set"), "random" + ("_lambda_heavy" if eps else ""), None


def other_definition(rng: random.Random, kind: str, kw: dict) -> dict:
    sy = sorted(kw["input_symbols"])
    if kind == "DFA":
        return FR.dfa_kw(gen.rand_dfa(rng, 4, alphabet=sy))
    return FR.nfa_kw(rng, gen.rand_nfa(rng, 3, alphabet=sy), "set")


def words_of_interest(rng: random.Random, kind: str, kw: dict, k: int) -> List[str]:
    """Accepted words first and foremost (a reader that consults some per-object cache typically loses them), then
    rejected ones, a word with a foreign symbol, an extension of an accepted word, the empty word."""
    sy = sorted(kw["input_symbols"])
    f = gen.foreign_symbol(sy)
    acc, rej = language_slice(kind, kw, 4)
    out: List[str] = []
    pool_acc = list(acc)
    rng.shuffle(pool_acc)
    out += pool_acc[: max(2, (2 * k) // 3)]
    if acc:
        out.append(acc[-1])                      # the last one in length-lexicographic order
        out.append(max(acc, key=len))
    pool_rej = list(rej)
    rng.shuffle(pool_rej)
    out += pool_rej[: max(1, k // 4)]
    if acc and sy:
        out.append(rng.choice(acc) + rng.choice(sy))
    base = rng.choice(acc) if acc else gen.rand_word(rng, sy, 3)
    pos = rng.randint(0, len(base))
    out.append(base[:pos] + f + base[pos:])
    out.append("")
    res = []
    for w in out:
        if w not in res:
            res.append(w)
    return res


# ------------------------------------------------------------------ programs
CALLS_DFA = ["iter", "iter", "iter", "len", "cardinality", "bool", "words_of_length", "words_of_length",
             "count_words_of_length", "random_word", "minimum_word_length", "maximum_word_length", "isempty", "isfinite",
             "successor", "predecessor", "successors", "predecessors", "minify", "complement", "binop", "cmp", "copy",
             "pickle", "to_partial", "to_complete", "repr", "hash", "input_parameters", "iter_transitions", "validate",
             "clear_cache", "nfa_from_dfa", "stepwise_partial", "stepwise_partial"]
CALLS_NFA = ["eliminate_lambda", "eliminate_lambda", "reverse", "kleene_star", "option", "binop", "binop", "cmp", "cmp",
             "dfa_from_nfa", "dfa_from_nfa", "copy", "pickle", "repr", "hash", "input_parameters", "iter_transitions",
             "validate", "stepwise_partial", "stepwise_partial"]
BINOPS_DFA = ["union", "intersection", "difference", "symmetric_difference", "or", "and", "sub", "xor"]
CMPS_DFA = ["eq", "ne", "le", "lt", "ge", "gt", "issubset", "issuperset", "isdisjoint"]
BINOPS_NFA = ["union", "concatenate", "intersection", "shuffle_product", "left_quotient", "right_quotient", "add", "or"]
CMPS_NFA = ["eq", "ne"]


def rand_call(rng: random.Random, kind: str, words: Sequence[str], has_other: bool) -> tuple:
    name = rng.choice(CALLS_DFA if kind == "DFA" else CALLS_NFA)
    w = rng.choice(words) if words else ""
    keep = rng.random() < 0.5           # an abandoned generator stays referenced (alive) or is dropped (closed)
    few = rng.choice([1, 1, 1, 2, 3])   # how much of a generator is consumed before it is abandoned
    if name == "iter":
        return ("iter", rng.choice([1, 1, 1, 2, 3, 0, None]), keep)     # None: consumed to the end (bounded)
    if name == "words_of_length":
        return (name, rng.choice([len(w), len(w), rng.randint(0, 4)]), rng.choice([few, None]), keep)
    if name in ("count_words_of_length",):
        return (name, rng.choice([len(w), rng.randint(0, 5)]))
    if name == "random_word":
        return (name, rng.choice([len(w), rng.randint(0, 4)]), rng.randint(0, 9))
    if name in ("successor", "predecessor"):
        return (name, w if rng.random() < 0.8 or name == "predecessor" else None, rng.random() < 0.8)
    if name in ("successors", "predecessors"):
        return (name, w if rng.random() < 0.8 or name == "predecessors" else None, rng.choice([few, None]), keep)
    if name == "minify":
        return (name, rng.random() < 0.5)
    if name in ("complement", "to_partial"):
        return (name, rng.random() < 0.5, rng.random() < 0.5)
    if name == "binop":
        return (name, rng.choice(BINOPS_DFA if kind == "DFA" else BINOPS_NFA), rng.choice(["other", "other", "self"])
                if has_other else "self")
    if name == "cmp":
        return (name, rng.choice(CMPS_DFA if kind == "DFA" else CMPS_NFA),
                rng.choice(["other", "other", "self", "copy"]) if has_other else rng.choice(["self", "copy"]))
    if name == "dfa_from_nfa":
        return (name, rng.random() < 0.5, rng.random() < 0.5)
    if name == "iter_transitions":
        return (name, rng.choice([1, 2, None]), keep)
    if name == "stepwise_partial":
        return (name, w, rng.randint(0, max(0, len(w))), keep)
    return (name,)


def rand_history(rng: random.Random, kind: Optional[str] = None):
    kind = kind or rng.choice(["DFA", "DFA", "NFA"])
    kw, shape, closed = rand_definition(rng, kind)
    other_kw = other_definition(rng, kind, kw) if rng.random() < 0.8 else None
    r = rng.random()
    options = (True, False) if r < 0.7 else OPTION_COMBOS[1 + rng.randrange(3)]
    words = words_of_interest(rng, kind, kw, 6)
    steps: List[tuple] = []
    if rng.random() < 0.3:      # a reading on the fresh object first
        steps.append(("read", rng.choice(words), rng.choice(ORDERS)))
    for _ in range(rng.randint(3, 7)):
        for _ in range(rng.choice([1, 1, 2, 3])):
            steps.append(rand_call(rng, kind, words, other_kw is not None))
        for _ in range(rng.choice([1, 1, 2])):
            steps.append(("read", rng.choice(words), rng.choice(ORDERS)))
    return (kind, options, kw, other_kw, steps), shape, closed


BOUND = 60      # "consumed to the end": at most this many items (languages may be infinite)


def _consume(gen_obj, k, keep, kept: list):
    """Take k items (None: to the end, bounded) WITHOUT running the generator past them; the abandoned generator is
    kept referenced (stays suspended for the rest of the program) or dropped (closed by the interpreter)."""
    it = iter(gen_obj)
    out = list(itertools.islice(it, BOUND if k is None else k))
    if keep:
        kept.append(it)
    return len(out)


def do_call(m, other, step: tuple, kept: list):
    """One public call on `m` (not a reading of a whole word).  Returns a short summary of the result; exceptions
    propagate to the caller, which records them."""
    name = step[0]
    if name == "iter":
        return _consume(iter(m), step[1], step[2], kept)
    if name == "len":
        return len(m)
    if name == "bool":
        return bool(m)
    if name in ("cardinality", "minimum_word_length", "maximum_word_length", "isempty", "isfinite", "validate",
                "clear_cache", "eliminate_lambda", "reverse", "kleene_star", "option", "to_complete"):
        r = getattr(m, name)()
        return r if isinstance(r, (int, bool, type(None))) else type(r).__name__
    if name == "words_of_length":
        return _consume(m.words_of_length(step[1]), step[2], step[3], kept)
    if name == "count_words_of_length":
        return m.count_words_of_length(step[1])
    if name == "random_word":
        return m.random_word(step[1], seed=step[2])
    # successor(s): max_length is always given — without it the lexicographic successor need not exist (a cycle on
    # the smallest symbol through co-accessible non-final states: w^2 x < x, w^4 x < w^2 x, …) and the search of
    # the library does not return; that is outside C01
    if name in ("successor", "predecessor"):
        return getattr(m, name)(step[1], strict=step[2], max_length=len(step[1] or "") + 3)
    if name in ("successors", "predecessors"):
        return _consume(getattr(m, name)(step[1], max_length=len(step[1] or "") + 3), step[2], step[3], kept)
    if name == "minify":
        return type(m.minify(retain_names=step[1])).__name__
    if name in ("complement", "to_partial"):
        return type(getattr(m, name)(retain_names=step[1], minify=step[2])).__name__
    if name in ("binop", "cmp"):
        rhs = m if step[2] == "self" else (m.copy() if step[2] == "copy" else other)
        op = step[1]
        dunder = {"or": "__or__", "and": "__and__", "sub": "__sub__", "xor": "__xor__", "add": "__add__", "eq": "__eq__",
                  "ne": "__ne__", "le": "__le__", "lt": "__lt__", "ge": "__ge__", "gt": "__gt__"}
        r = getattr(m, dunder.get(op, op))(rhs)
        return r if isinstance(r, bool) else type(r).__name__
    if name == "copy":
        return m.copy()                      # the caller reads the copy, too
    if name == "pickle":
        return pickle.loads(pickle.dumps(m))  # the caller reads the unpickled object, too
    if name == "repr":
        return len(repr(m)) + len(str(m))
    if name == "hash":
        return hash(m) is not None
    if name == "input_parameters":
        return sorted(m.input_parameters)
    if name == "iter_transitions":
        return _consume(m.iter_transitions(), step[1], step[2], kept)
    if name == "nfa_from_dfa":
        return type(NFA.from_dfa(m)).__name__
    if name == "dfa_from_nfa":
        return type(DFA.from_nfa(m, retain_names=step[1], minify=step[2])).__name__
    if name == "stepwise_partial":
        return _consume(m.read_input_stepwise(step[1]), step[2], step[3], kept)
    raise ValueError(step)


def call_label(step: tuple) -> str:
    """Name of the call with what matters for the distribution (partial / full consumption of a generator)."""
    name = step[0]
    if name == "iter":
        return "iter_" + ("to_the_end_or_60_words" if step[1] is None else "created_not_started" if step[1] == 0 else "abandoned")
    if name in ("words_of_length", "successors", "predecessors", "iter_transitions"):
        return name + ("_to_the_end_or_60_items" if step[2] is None else "_abandoned")
    if name == "stepwise_partial":
        return "read_input_stepwise_abandoned"
    if name in ("binop", "cmp"):
        return step[1] + "_with_" + step[2]
    return name
