"""Generators of *definitions* (constructor keyword dicts of plain Python containers) for the
eight automaton classes, valid by construction from the documentation, plus the corruption
operators of C19 (one documented rule each) — all driven by one PRNG.

A definition is kept as a kwargs dict so that it can be corrupted, encoded for the Lean
driver, constructed under any combination of the global options, and rebuilt from tracked
containers (C18).
"""
from __future__ import annotations

import copy as _copy
import itertools
import random
from typing import Any, Callable, Dict, Iterator, List, Optional, Tuple

from frozendict import frozendict

from harness import gen

CLASSES = ["DFA", "NFA", "GNFA", "DPDA", "NPDA", "DTM", "NTM", "MNTM"]
FOREIGN_STATE = ("#foreign", 0)
FOREIGN_STATE2 = ("#foreign", 1)
DIRS = ("L", "N", "R")
MODES = ("final_state", "empty_stack", "both")


def get_class(name: str):
    from automata.fa.dfa import DFA
    from automata.fa.gnfa import GNFA
    from automata.fa.nfa import NFA
    from automata.pda.dpda import DPDA
    from automata.pda.npda import NPDA
    from automata.tm.dtm import DTM
    from automata.tm.mntm import MNTM
    from automata.tm.ntm import NTM
    return dict(DFA=DFA, NFA=NFA, GNFA=GNFA, DPDA=DPDA, NPDA=NPDA, DTM=DTM, NTM=NTM, MNTM=MNTM)[name]


# ------------------------------------------------------------------ thaw / norm
def thaw(x: Any) -> Any:
    """Deep copy with frozendict→dict, frozenset→set for the *containers of the definition*;
    dictionary keys, set elements and tuple members (hashable values: state names, symbols,
    transition results) are kept as they are."""
    if isinstance(x, (dict, frozendict)):
        return {k: thaw(v) for k, v in x.items()}
    if isinstance(x, (set, frozenset)):
        return set(x)
    if isinstance(x, list):
        return [thaw(e) for e in x]
    return x


def norm(x: Any) -> Any:
    """Order- and kind-insensitive abstract value (hashable): what the definition *says*."""
    if isinstance(x, (dict, frozendict)):
        return ("map", frozenset((norm(k), norm(v)) for k, v in x.items()))
    if isinstance(x, (set, frozenset)):
        return ("set", frozenset(norm(e) for e in x))
    if isinstance(x, (list, tuple)):
        return ("seq", tuple(norm(e) for e in x))
    if isinstance(x, bool):
        return ("bool", x)
    # look-alikes (dict views, Mapping / Set classes that are not dict / set subclasses): what they SAY
    import collections.abc as _abc
    if isinstance(x, _abc.Mapping):
        return ("map", frozenset((norm(k), norm(x[k])) for k in list(x.keys())))
    if isinstance(x, _abc.Set):
        return ("set", frozenset(norm(e) for e in x))
    if isinstance(x, _abc.Sequence) and not isinstance(x, (str, bytes)):
        return ("seq", tuple(norm(e) for e in x))
    return x


def snapshot(params: Dict[str, Any]) -> Any:
    return norm(params)


SET_PARAMS = ("states", "input_symbols", "final_states", "stack_symbols", "tape_symbols")


def thaw_transitions(cls: str, t) -> Dict[Any, Any]:
    """Mutable copy of a transition table; state names (which may themselves be frozensets
    or tuples) are never touched."""
    if cls in ("DFA", "GNFA", "DTM"):
        return {q: dict(row) for q, row in t.items()}
    if cls in ("NFA", "NTM"):
        return {q: {a: set(ts) for a, ts in row.items()} for q, row in t.items()}
    if cls == "DPDA":
        return {q: {a: dict(m) for a, m in row.items()} for q, row in t.items()}
    if cls == "NPDA":
        return {q: {a: {g: set(rs) for g, rs in m.items()} for a, m in row.items()} for q, row in t.items()}
    return {q: {key: list(rs) for key, rs in row.items()} for q, row in t.items()}  # MNTM


def kwargs_of(obj) -> Dict[str, Any]:
    cls = type(obj).__name__
    out = {}
    for k, v in obj.input_parameters.items():
        if k in SET_PARAMS:
            out[k] = set(v)
        elif k == "transitions":
            out[k] = thaw_transitions(cls, v)
        else:
            out[k] = v
    return out


def shuffled_dict(rng: random.Random, d: dict) -> dict:
    items = list(d.items())
    rng.shuffle(items)
    return dict(items)


# ------------------------------------------------------------------ valid definitions
def rand_dfa_def(rng, junk: bool = False, max_states: int = 5, alphabet=None) -> Dict[str, Any]:
    d = gen.rand_dfa(rng, max_states, alphabet=alphabet)
    kw = kwargs_of(d)
    if junk:
        add_junk_row(rng, "DFA", kw)
    return kw


def rand_nfa_def(rng, junk: bool = False, max_states: int = 4, alphabet=None) -> Dict[str, Any]:
    n = gen.rand_nfa(rng, max_states, alphabet=alphabet)
    kw = kwargs_of(n)
    if junk:
        add_junk_row(rng, "NFA", kw)
    return kw


LABELS = ["", "{a}", "{a}|{b}", "{a}*", "({a}{b})*", "{a}?", "{a}{b}", "({a}|{b})*{a}", "(){a}", "{b}*|{a}", "({a})"]


def rand_label(rng, sy: List[str]) -> Optional[str]:
    r = rng.random()
    if r < 0.35:
        return None
    if r < 0.45:
        return ""
    if r < 0.7:
        return rng.choice(sy)
    a = rng.choice(sy)
    b = rng.choice(sy)
    return rng.choice(LABELS).format(a=a, b=b)


def rand_gnfa_def(rng, junk: bool = False, max_inner: int = 3) -> Dict[str, Any]:
    """Valid by the documentation: initial ≠ final, every state except the final one has a
    row, every row has an entry for every state except the initial one, nothing enters the
    initial state, the final state has no row (or, also accepted, an empty one)."""
    k = rng.randint(0, max_inner)
    names = gen.name_pool(rng, k + 2)
    sy = list(rng.choice(gen.ALPHABETS))
    init, final = names[0], names[1]
    trans: Dict[Any, Dict[Any, Optional[str]]] = {}
    for q in names:
        if q == final:
            continue
        row = {t: rand_label(rng, sy) for t in names if t != init}
        trans[q] = shuffled_dict(rng, row)
    if rng.random() < 0.2:
        trans[final] = {}
    trans = shuffled_dict(rng, trans)
    st = list(names)
    rng.shuffle(st)
    kw = dict(states=set(st), input_symbols=set(sy), transitions=trans, initial_state=init, final_state=final)
    if junk:
        add_junk_row(rng, "GNFA", kw)
    return kw


STACK_ALPHABETS = [("Z", "A"), ("#", "0", "1"), ("Z",), ("Z", "A", "B")]


def rand_push(rng, gs: List[str], top: str) -> Any:
    r = rng.random()
    if r < 0.3:
        return ""  # pop
    if r < 0.55:
        return (top,)  # unchanged
    if r < 0.85:
        return (rng.choice(gs), top)
    if r < 0.93:
        return rng.choice(gs) + top  # a str of several symbols
    return (rng.choice(gs), rng.choice(gs), top)


def rand_pda_def(rng, deterministic: bool, junk: bool = False, max_states: int = 4) -> Dict[str, Any]:
    n = rng.randint(1, max_states)
    names = gen.name_pool(rng, n)
    sy = list(rng.choice(gen.ALPHABETS))[:3]
    gs = list(rng.choice(STACK_ALPHABETS))
    trans: Dict[Any, Dict[str, Dict[str, Any]]] = {}
    dens = rng.choice([0.3, 0.5, 0.8])
    for q in names:
        if rng.random() < 0.15:
            continue
        row: Dict[str, Dict[str, Any]] = {}
        for g in gs:
            if deterministic:
                # per (q, g): either one λ-move, or moves on some input symbols, or nothing
                r = rng.random()
                if r < 0.25:
                    row.setdefault("", {})[g] = (rng.choice(names), rand_push(rng, gs, g))
                elif r < 0.9:
                    for a in sy:
                        if rng.random() < dens:
                            row.setdefault(a, {})[g] = (rng.choice(names), rand_push(rng, gs, g))
            else:
                for a in sy + [""]:
                    if rng.random() < dens * (0.5 if a == "" else 1.0):
                        res = {(rng.choice(names), rand_push(rng, gs, g)) for _ in range(rng.randint(0, 3))}
                        row.setdefault(a, {})[g] = res
        if rng.random() < 0.1:
            row.setdefault(rng.choice(sy), {})  # an input symbol with an empty stack map
        row = {a: shuffled_dict(rng, m) for a, m in row.items()}
        trans[q] = shuffled_dict(rng, row)
    trans = shuffled_dict(rng, trans)
    finals = {q for q in names if rng.random() < 0.4}
    st = list(names)
    rng.shuffle(st)
    kw = dict(states=set(st), input_symbols=set(sy), stack_symbols=set(gs), transitions=trans,
              initial_state=rng.choice(names), initial_stack_symbol=gs[0], final_states=finals,
              acceptance_mode=rng.choice(MODES))
    if junk:
        add_junk_row(rng, "DPDA" if deterministic else "NPDA", kw)
    return kw


def rand_tm_def(rng, kind: str, max_states: int = 4, list_results: bool = False) -> Dict[str, Any]:
    """kind ∈ DTM, NTM, MNTM.  Valid: Σ ⊊ Γ, blank ∈ Γ, rows only for non-final states,
    initial state non-final with a row (when there are ≥ 2 states)."""
    n = rng.randint(1, max_states)
    names = gen.name_pool(rng, n)
    sy = list(rng.choice(gen.ALPHABETS))[:2]
    blank = rng.choice([".", "_", "#"])
    extra = [c for c in ("x", "y") if c not in sy and rng.random() < 0.5]
    tape = sy + [blank] + extra
    init = names[0]
    finals = {q for q in names[1:] if rng.random() < 0.35}
    n_tapes = rng.randint(1, 3) if kind == "MNTM" else 1
    dens = rng.choice([0.3, 0.6, 0.9])
    trans: Dict[Any, Any] = {}
    for q in names:
        if q in finals:
            continue
        if q != init and rng.random() < 0.15:
            continue
        row: Dict[Any, Any] = {}
        if kind == "MNTM":
            keys = list(itertools.product(tape, repeat=n_tapes))
            rng.shuffle(keys)
            for key in keys[: rng.randint(0, min(len(keys), 5))]:
                res = []
                for _ in range(rng.choice([0, 1, 1, 1, 2, 3])):
                    moves = tuple((rng.choice(tape), rng.choice(DIRS)) for _ in range(n_tapes))
                    if list_results:
                        res.append([rng.choice(names), [list(m) for m in moves]])
                    else:
                        res.append((rng.choice(names), moves))
                row[key] = res if (list_results or rng.random() < 0.8) else tuple(res)
        else:
            for s in tape:
                if rng.random() < dens:
                    if kind == "DTM":
                        row[s] = (rng.choice(names), rng.choice(tape), rng.choice(DIRS))
                    else:
                        row[s] = {(rng.choice(names), rng.choice(tape), rng.choice(DIRS))
                                  for _ in range(rng.choice([0, 1, 1, 2, 3]))}
        trans[q] = shuffled_dict(rng, row)
    if init not in trans:
        trans[init] = {}
    trans = shuffled_dict(rng, trans)
    st = list(names)
    rng.shuffle(st)
    kw = dict(states=set(st), input_symbols=set(sy), tape_symbols=set(tape), transitions=trans,
              initial_state=init, blank_symbol=blank, final_states=finals)
    if kind == "MNTM":
        kw["n_tapes"] = n_tapes
    return kw


def rand_def(rng, cls: str, junk: bool = False, **kw) -> Dict[str, Any]:
    if cls == "DFA":
        return rand_dfa_def(rng, junk, **kw)
    if cls == "NFA":
        return rand_nfa_def(rng, junk, **kw)
    if cls == "GNFA":
        return rand_gnfa_def(rng, junk, **kw)
    if cls == "DPDA":
        return rand_pda_def(rng, True, junk, **kw)
    if cls == "NPDA":
        return rand_pda_def(rng, False, junk, **kw)
    return rand_tm_def(rng, cls, **kw)


JUNK_CLASSES = ("DFA", "NFA", "GNFA", "DPDA", "NPDA")


def junk_names(kw) -> List[Any]:
    """Names for rows that are not states — including the ids the library's own fresh-state
    counters would pick next (collision with `_add_new_state`)."""
    ints = [q for q in kw["states"] if isinstance(q, int) and not isinstance(q, bool)]
    # (None is not among them: a row keyed by None is refused since fix f47420f — it is a corruption)
    cands = [FOREIGN_STATE, 7, "junk", len(kw["states"]), (max(ints) + 1) if ints else 0, 0, 1, -1]
    return [c for c in cands if c not in kw["states"]]


def add_junk_row(rng, cls: str, kw: Dict[str, Any]) -> None:
    """A row keyed by a name that is not a state (accepted by validation: F12).  Its
    content obeys every rule that is checked for rows."""
    names = list(kw["states"])
    sy = sorted(kw["input_symbols"])
    key = rng.choice(junk_names(kw))
    if cls == "DFA":
        row = {a: rng.choice(names) for a in sy if (not kw["allow_partial"]) or rng.random() < 0.6}
    elif cls == "NFA":
        row = {a: {rng.choice(names) for _ in range(rng.randint(0, 2))} for a in sy + [""] if rng.random() < 0.6}
    elif cls == "GNFA":
        row = {t: rand_label(rng, sy) for t in names if t != kw["initial_state"]}
    else:
        gs = sorted(kw["stack_symbols"])
        g = rng.choice(gs)
        a = rng.choice(sy + [""])
        res = (rng.choice(names), (g,))
        row = {a: {g: res if cls == "DPDA" else {res}}}
    t = dict(kw["transitions"])
    t[key] = row
    kw["transitions"] = shuffled_dict(rng, t) if rng.random() < 0.5 else t


# ------------------------------------------------------------------ reference well-formedness
# Written from the class docstrings / validate() docstrings, independently of the Lean model.
def accepted_by_docs(cls: str, kw: Dict[str, Any]) -> bool:
    """Is this definition one the documentation calls valid?  (The generators above only
    produce such definitions; this predicate is the independent statement of that.)"""
    st = kw["states"]
    T = kw["transitions"]
    if kw["initial_state"] not in st:
        return False
    if cls == "GNFA":
        init, fin = kw["initial_state"], kw["final_state"]
        if fin not in st or fin == init:
            return False
        for q in st:
            if q != fin and q not in T:
                return False
        for q, row in T.items():
            if q == fin:
                if row:
                    return False
                continue
            if set(row.keys()) != set(st) - {init}:
                return False
        return True
    if not set(kw["final_states"]) <= set(st):
        return False
    # reserved names (fa.py `_validate_reserved_names`, pda.py `validate`): None marks "no state",
    # the empty string marks a lambda transition / an empty stack
    if cls in ("DFA", "NFA") and (None in st or None in T or "" in kw["input_symbols"]):
        return False
    if cls in ("DPDA", "NPDA") and "" in kw["stack_symbols"]:
        return False
    if cls == "DFA":
        if not set(st) <= set(T):
            return False
        for q, row in T.items():
            if not set(row) <= set(kw["input_symbols"]):
                return False
            if not kw["allow_partial"] and set(row) != set(kw["input_symbols"]):
                return False
            if not set(row.values()) <= set(st):
                return False
        return True
    if cls == "NFA":
        if kw["initial_state"] not in T and len(st) > 1:
            return False
        for q, row in T.items():
            for a, ts in row.items():
                if a != "" and a not in kw["input_symbols"]:
                    return False
                if not set(ts) <= set(st):
                    return False
        return True
    if cls in ("DPDA", "NPDA"):
        if kw["initial_stack_symbol"] not in kw["stack_symbols"] or kw["acceptance_mode"] not in MODES:
            return False
        for q, row in T.items():
            for a, m in row.items():
                if a != "" and a not in kw["input_symbols"]:
                    return False
                if not set(m) <= set(kw["stack_symbols"]):
                    return False
            if cls == "DPDA" and "" in row:
                for a, m in row.items():
                    if a != "" and set(m) & set(row[""]):
                        return False
        return True
    # Turing machines
    if not (set(kw["input_symbols"]) < set(kw["tape_symbols"])) or kw["blank_symbol"] not in kw["tape_symbols"]:
        return False
    if kw["initial_state"] in kw["final_states"]:
        return False
    if kw["initial_state"] not in T and len(st) > 1:
        return False
    for q, row in T.items():
        if q not in st or q in kw["final_states"]:
            return False
        for key, val in row.items():
            if cls == "MNTM":
                if len(key) != kw["n_tapes"] or not set(key) <= set(kw["tape_symbols"]):
                    return False
                for (t, moves) in val:
                    if t not in st or len(moves) != kw["n_tapes"]:
                        return False
                    for (w, d) in moves:
                        if w not in kw["tape_symbols"] or d not in DIRS:
                            return False
            else:
                if key not in kw["tape_symbols"]:
                    return False
                for (t, w, d) in ([val] if cls == "DTM" else val):
                    if t not in st or w not in kw["tape_symbols"] or d not in DIRS:
                        return False
    return True


# ------------------------------------------------------------------ corruption operators
# Each operator: (rule, documented exception class, enumerator of *positions*).  Applying
# the operator at a position to a valid definition breaks exactly the named rule.
def foreign_symbol(kw) -> str:
    pool = set(kw.get("input_symbols", ())) | set(kw.get("tape_symbols", ())) | set(kw.get("stack_symbols", ()))
    for c in "qQ@%":
        if c not in pool:
            return c
    return "☃"


def _dc(kw):
    return _copy.deepcopy(kw)


def _real_rows(kw):
    return [q for q in kw["transitions"] if q in kw["states"]]


def corruptions(cls: str, kw: Dict[str, Any]) -> Iterator[Tuple[str, str, Callable[[], Dict[str, Any]]]]:
    """Yield (rule, documented exception, thunk building the corrupted definition) for every
    operator and every position at which it applies to `kw` (bounded-exhaustive over
    positions).  `kw` itself is never modified."""
    T = kw["transitions"]
    st = list(kw["states"])
    fs = foreign_symbol(kw)

    def mk(f):
        def thunk():
            k = _dc(kw)
            f(k)
            return k
        return thunk

    # --- shared: initial / final states
    yield ("initial_state_not_a_state", "InvalidStateError", mk(lambda k: k.__setitem__("initial_state", FOREIGN_STATE)))
    # the library's own "no state" marker as the foreign name (None is not a state of a valid definition)
    yield ("initial_state_not_a_state", "InvalidStateError", mk(lambda k: k.__setitem__("initial_state", None)))
    if cls == "GNFA":
        yield ("final_state_not_a_state", "InvalidStateError", mk(lambda k: k.__setitem__("final_state", FOREIGN_STATE)))
        yield ("final_state_not_a_state", "InvalidStateError", mk(lambda k: k.__setitem__("final_state", None)))
    else:
        yield ("final_state_not_a_state", "InvalidStateError",
               mk(lambda k: k.__setitem__("final_states", set(k["final_states"]) | {FOREIGN_STATE})))
        yield ("final_state_not_a_state", "InvalidStateError",
               mk(lambda k: k.__setitem__("final_states", set(k["final_states"]) | {None})))
        yield ("final_state_not_a_state", "InvalidStateError",
               mk(lambda k: k.__setitem__("final_states", {FOREIGN_STATE2})))

    # --- reserved names (checked before everything else): the bare edit (which also leaves the
    # new state without a row / the rows of a complete DFA without the new symbol — those checks
    # come later), and the edit that keeps the definition consistent in every other respect
    # (a state / symbol *renamed* to the reserved name everywhere)
    if cls in ("DFA", "NFA"):
        yield ("reserved_state_name_none", "InvalidStateError",
               mk(lambda k: k.__setitem__("states", set(k["states"]) | {None})))
        for q in st:
            yield ("reserved_state_name_none", "InvalidStateError",
                   mk(lambda k, q=q: rename_state(cls, k, q, None)))
        # a row keyed by None (rows keyed by other names that are not states are accepted): a copy of
        # an existing row — obeys every rule for rows — or an empty one, at the end / the front of the table
        for q in list(T)[:2]:
            yield ("reserved_state_name_none", "InvalidStateError",
                   mk(lambda k, q=q: k["transitions"].__setitem__(None, _dc(k["transitions"][q]))))
        yield ("reserved_state_name_none", "InvalidStateError",
               mk(lambda k: k.__setitem__("transitions", {None: {}, **k["transitions"]})))
        yield ("reserved_input_symbol_empty", "InvalidSymbolError",
               mk(lambda k: k.__setitem__("input_symbols", set(k["input_symbols"]) | {""})))
        for a in sorted(kw["input_symbols"]):
            yield ("reserved_input_symbol_empty", "InvalidSymbolError",
                   mk(lambda k, a=a: rename_symbol(cls, k, a, "")))
    if cls in ("DPDA", "NPDA"):
        yield ("reserved_stack_symbol_empty", "InvalidSymbolError",
               mk(lambda k: k.__setitem__("stack_symbols", set(k["stack_symbols"]) | {""})))
        for g in sorted(kw["stack_symbols"]):
            yield ("reserved_stack_symbol_empty", "InvalidSymbolError",
                   mk(lambda k, g=g: rename_stack_symbol(cls, k, g, "")))

    if cls == "DFA":
        for q in st:
            yield ("missing_transition_row", "MissingStateError", mk(lambda k, q=q: k["transitions"].pop(q)))
        for q, row in T.items():
            for a in row:
                if not kw["allow_partial"]:
                    yield ("missing_symbol_complete_dfa", "MissingSymbolError",
                           mk(lambda k, q=q, a=a: k["transitions"][q].pop(a)))
                yield ("unknown_end_state", "InvalidStateError",
                       mk(lambda k, q=q, a=a: k["transitions"][q].__setitem__(a, FOREIGN_STATE)))
                # a transition *into None* (the library's "no state" marker; not a state)
                yield ("unknown_end_state", "InvalidStateError",
                       mk(lambda k, q=q, a=a: k["transitions"][q].__setitem__(a, None)))
            yield ("unknown_transition_symbol", "InvalidSymbolError",
                   mk(lambda k, q=q: k["transitions"][q].__setitem__(fs, st[0])))
            yield ("unknown_transition_symbol", "InvalidSymbolError",
                   mk(lambda k, q=q: k["transitions"][q].__setitem__(None, st[0])))  # a transition *on None*
    elif cls == "NFA":
        if len(st) > 1 and kw["initial_state"] in T:
            yield ("initial_state_without_transitions", "MissingStateError",
                   mk(lambda k: k["transitions"].pop(k["initial_state"])))
        for q, row in T.items():
            yield ("unknown_transition_symbol", "InvalidSymbolError",
                   mk(lambda k, q=q: k["transitions"][q].__setitem__(fs, {st[0]})))
            yield ("unknown_transition_symbol", "InvalidSymbolError",
                   mk(lambda k, q=q: k["transitions"][q].__setitem__(None, {st[0]})))  # a transition *on None*
            for a in row:
                yield ("unknown_end_state", "InvalidStateError",
                       mk(lambda k, q=q, a=a: k["transitions"][q].__setitem__(a, set(k["transitions"][q][a]) | {FOREIGN_STATE})))
                yield ("unknown_end_state", "InvalidStateError",
                       mk(lambda k, q=q, a=a: k["transitions"][q].__setitem__(a, set(k["transitions"][q][a]) | {None})))
    elif cls == "GNFA":
        init, fin = kw["initial_state"], kw["final_state"]
        if len(st) > 1:
            yield ("initial_state_without_transitions", "MissingStateError",
                   mk(lambda k: k["transitions"].pop(k["initial_state"])))
        yield ("final_state_with_transitions", "InvalidStateError",
               mk(lambda k: k["transitions"].__setitem__(fin, {t: None for t in st if t != init})))
        # the documented shape enforced since fix 084dfed
        yield ("initial_equals_final", "InvalidStateError",
               mk(lambda k: k.__setitem__("final_state", init)))
        for q in st:
            if q not in (init, fin) and q in T:
                yield ("missing_transition_row", "MissingStateError",
                       mk(lambda k, q=q: k["transitions"].pop(q)))
        for q, row in T.items():
            if q == fin:
                continue
            if q != init and q in kw["states"]:
                lab0 = sorted(kw["input_symbols"])[0]
                for lab in (lab0, ""):
                    yield ("transition_into_initial_state", "InvalidStateError",
                           mk(lambda k, q=q, lab=lab: k["transitions"][q].__setitem__(init, lab)))
            yield ("unknown_end_state", "InvalidStateError",
                   mk(lambda k, q=q: k["transitions"][q].__setitem__(FOREIGN_STATE, None)))
            for t in row:
                yield ("missing_transition_entry", "MissingStateError",
                       mk(lambda k, q=q, t=t: k["transitions"][q].pop(t)))
                for bad in (fs, "a" + fs, "*", "|", "(", ")", "a|", "(a", "a)", "**", "a||b", "?"):
                    lab = bad.replace("a", sorted(kw["input_symbols"])[0]).replace("b", sorted(kw["input_symbols"])[-1])
                    yield ("malformed_label", "InvalidRegexError",
                           mk(lambda k, q=q, t=t, lab=lab: k["transitions"][q].__setitem__(t, lab)))
    elif cls in ("DPDA", "NPDA"):
        yield ("invalid_initial_stack_symbol", "InvalidSymbolError",
               mk(lambda k: k.__setitem__("initial_stack_symbol", fs)))
        yield ("invalid_initial_stack_symbol", "InvalidSymbolError",
               mk(lambda k: k.__setitem__("initial_stack_symbol", "")))
        for bad in ("foo", "", "final", "BOTH", None, 0):
            yield ("invalid_acceptance_mode", "InvalidAcceptanceModeError",
                   mk(lambda k, bad=bad: k.__setitem__("acceptance_mode", bad)))
        g0 = sorted(kw["stack_symbols"])[0]
        res = (st[0], (g0,))
        val = res if cls == "DPDA" else {res}
        for q, row in T.items():
            # (for a DPDA the new entry must not share a stack symbol with a λ-move of the row)
            yield ("unknown_transition_symbol", "InvalidSymbolError",
                   mk(lambda k, q=q: k["transitions"][q].__setitem__(
                       fs, {} if (cls == "DPDA" and g0 in k["transitions"][q].get("", {})) else {g0: val})))
            for a, m in row.items():
                yield ("invalid_stack_symbol", "InvalidSymbolError",
                       mk(lambda k, q=q, a=a: k["transitions"][q][a].__setitem__(fs, val)))
                # the empty string is the lambda marker for *input* symbols only: as a stack-symbol
                # key it is just a symbol that is not in the stack alphabet
                yield ("invalid_stack_symbol", "InvalidSymbolError",
                       mk(lambda k, q=q, a=a: k["transitions"][q][a].__setitem__("", val)))
                if cls == "DPDA":
                    for g in m:
                        if a != "" and g not in row.get("", {}):
                            # add a λ-move on a stack symbol that already has a symbol move:
                            # the "" entry placed last / first / in the middle of the row
                            for where in ("last", "first", "middle"):
                                yield ("nondeterministic_dpda", "NondeterminismError",
                                       mk(lambda k, q=q, g=g, where=where: _add_lambda(k, q, g, where)))
                        if a == "":
                            others = [b for b in sorted(kw["input_symbols"]) if g not in row.get(b, {})]
                            for b in others[:2]:
                                yield ("nondeterministic_dpda", "NondeterminismError",
                                       mk(lambda k, q=q, g=g, b=b: _add_sym_move(k, q, g, b)))
    else:  # Turing machines
        n_t = kw.get("n_tapes", 1)
        yield ("input_symbols_not_proper_subset", "MissingSymbolError",
               mk(lambda k: k.__setitem__("input_symbols", set(k["input_symbols"]) | {fs})))
        yield ("input_symbols_not_proper_subset", "MissingSymbolError",
               mk(lambda k: k.__setitem__("input_symbols", set(k["tape_symbols"]))))
        yield ("bad_blank_symbol", "InvalidSymbolError", mk(lambda k: k.__setitem__("blank_symbol", fs)))
        yield ("bad_blank_symbol", "InvalidSymbolError", mk(lambda k: k.__setitem__("blank_symbol", "")))
        yield ("initial_state_is_final", "InitialStateError",
               mk(lambda k: k.__setitem__("final_states", set(k["final_states"]) | {k["initial_state"]})))
        if len(st) > 1:
            yield ("initial_state_without_transitions", "MissingStateError",
                   mk(lambda k: k["transitions"].pop(k["initial_state"])))
        yield ("unknown_transition_state", "InvalidStateError",
               mk(lambda k: k["transitions"].__setitem__(FOREIGN_STATE, {})))
        for f in kw["final_states"]:
            yield ("final_state_with_transitions", "FinalStateError",
                   mk(lambda k, f=f: k["transitions"].__setitem__(f, {})))
        tape0 = sorted(kw["tape_symbols"])[0]

        def result(t=None, w=None, d="R"):
            t = st[0] if t is None else t
            w = tape0 if w is None else w
            if cls == "DTM":
                return (t, w, d)
            if cls == "NTM":
                return {(t, w, d)}
            return [(t, tuple((w, d) for _ in range(n_t)))]

        def key(s):
            return s if cls != "MNTM" else tuple(s for _ in range(n_t))

        for q in T:
            yield ("bad_tape_symbol", "InvalidSymbolError",
                   mk(lambda k, q=q: k["transitions"][q].__setitem__(key(fs), result())))
            free = [s for s in sorted(kw["tape_symbols"]) if key(s) not in T[q]]
            if free and n_t >= 1:
                s = free[0]
                yield ("unknown_end_state", "InvalidStateError",
                       mk(lambda k, q=q, s=s: k["transitions"][q].__setitem__(key(s), result(t=FOREIGN_STATE))))
                yield ("bad_tape_symbol", "InvalidSymbolError",
                       mk(lambda k, q=q, s=s: k["transitions"][q].__setitem__(key(s), result(w=fs))))
                yield ("bad_tape_symbol", "InvalidSymbolError",
                       mk(lambda k, q=q, s=s: k["transitions"][q].__setitem__(key(s), result(w=""))))
                for bad in ("X", "", "l", "LR", None):
                    yield ("bad_direction", "InvalidDirectionError",
                           mk(lambda k, q=q, s=s, bad=bad: k["transitions"][q].__setitem__(key(s), result(d=bad))))
                if cls == "MNTM":
                    yield ("bad_tape_count", "InconsistentTapesException",
                           mk(lambda k, q=q, s=s: k["transitions"][q].__setitem__(
                               key(s), [(st[0], tuple((tape0, "R") for _ in range(n_t + 1)))])))
                    if n_t > 1:
                        yield ("bad_tape_count", "InconsistentTapesException",
                               mk(lambda k, q=q, s=s: k["transitions"][q].__setitem__(
                                   key(s), [(st[0], tuple((tape0, "R") for _ in range(n_t - 1)))])))
                    yield ("bad_tape_count", "InconsistentTapesException",
                           mk(lambda k, q=q, s=s: k["transitions"][q].__setitem__(
                               tuple(s for _ in range(n_t + 1)), result())))
        if cls == "MNTM" and any(T[q] for q in T):
            for delta in (1, -1):
                if n_t + delta >= 0:
                    yield ("bad_tape_count", "InconsistentTapesException",
                           mk(lambda k, delta=delta: k.__setitem__("n_tapes", k["n_tapes"] + delta)))


def rename_state(cls, k, old, new):
    """DFA / NFA: the state `old` is called `new` everywhere."""
    r = lambda q: new if q == old else q  # noqa: E731
    k["states"] = {r(q) for q in k["states"]}
    k["initial_state"] = r(k["initial_state"])
    k["final_states"] = {r(q) for q in k["final_states"]}
    if cls == "DFA":
        k["transitions"] = {r(q): {a: r(t) for a, t in row.items()} for q, row in k["transitions"].items()}
    else:
        k["transitions"] = {r(q): {a: {r(t) for t in ts} for a, ts in row.items()}
                            for q, row in k["transitions"].items()}


def rename_symbol(cls, k, old, new):
    """DFA / NFA: the input symbol `old` is written `new` everywhere."""
    r = lambda a: new if a == old else a  # noqa: E731
    k["input_symbols"] = {r(a) for a in k["input_symbols"]}
    out = {}
    for q, row in k["transitions"].items():
        nr = {}
        for a, v in row.items():
            if cls == "NFA" and r(a) in nr:
                nr[r(a)] = set(nr[r(a)]) | set(v)  # the renamed symbol meets the lambda entry
            else:
                nr[r(a)] = v
        out[q] = nr
    k["transitions"] = out


def rename_stack_symbol(cls, k, old, new):
    """DPDA / NPDA: the stack symbol `old` is written `new` everywhere (stack alphabet, initial
    stack symbol, the stack-symbol keys of the table, pushed strings / tuples)."""
    r = lambda g: new if g == old else g  # noqa: E731

    def rp(p):
        return "".join(r(c) for c in p) if isinstance(p, str) else tuple(r(c) for c in p)

    k["stack_symbols"] = {r(g) for g in k["stack_symbols"]}
    k["initial_stack_symbol"] = r(k["initial_stack_symbol"])
    out = {}
    for q, row in k["transitions"].items():
        nr = {}
        for a, m in row.items():
            if cls == "DPDA":
                nr[a] = {r(g): (t, rp(p)) for g, (t, p) in m.items()}
            else:
                nr[a] = {r(g): {(t, rp(p)) for (t, p) in res} for g, res in m.items()}
        out[q] = nr
    k["transitions"] = out


def _add_lambda(k, q, g, where):
    row = k["transitions"][q]
    some_state = next(iter(k["states"]))
    lam = dict(row.get("", {}))
    lam[g] = (some_state, (g,))
    items = [(a, m) for a, m in row.items() if a != ""]
    if where == "last":
        items.append(("", lam))
    elif where == "first":
        items.insert(0, ("", lam))
    else:
        items.insert(len(items) // 2, ("", lam))
    k["transitions"][q] = dict(items)


def _add_sym_move(k, q, g, b):
    row = k["transitions"][q]
    some_state = next(iter(k["states"]))
    m = dict(row.get(b, {}))
    m[g] = (some_state, (g,))
    row[b] = m


# ------------------------------------------------------------------ accepted but odd shapes
def odd_accepted_shapes(cls: str, kw: Dict[str, Any]) -> Iterator[Tuple[str, Dict[str, Any]]]:
    """Variants that the documentation does not call valid but that every check of
    `validate()` lets through — the soundness side of C19: an accepted definition must be
    usable without undocumented errors."""
    st = list(kw["states"])
    if cls == "GNFA":
        init, fin = kw["initial_state"], kw["final_state"]
        inner = [q for q in st if q not in (init, fin)]
        if inner:
            k = _dc(kw)
            k["transitions"][inner[0]][init] = None
            yield ("gnfa-none-entry-into-initial", k)
    if cls in ("DPDA", "NPDA"):
        g0 = sorted(kw["stack_symbols"])[0]
        fs = foreign_symbol(kw)
        for q in _real_rows(kw)[:1]:
            k = _dc(kw)
            res = (FOREIGN_STATE, (g0,))
            k["transitions"][q].setdefault(sorted(kw["input_symbols"])[0], {})[g0] = res if cls == "DPDA" else {res}
            if accepted_det(cls, k):
                yield ("pda-unknown-end-state", k)
            k = _dc(kw)
            res = (st[0], (fs, g0))
            k["transitions"][q].setdefault(sorted(kw["input_symbols"])[0], {})[g0] = res if cls == "DPDA" else {res}
            if accepted_det(cls, k):
                yield ("pda-unknown-pushed-symbol", k)
            k = _dc(kw)
            res = (st[0], ("", g0))  # the empty string pushed as a stack symbol (pushes are not validated)
            k["transitions"][q].setdefault(sorted(kw["input_symbols"])[0], {})[g0] = res if cls == "DPDA" else {res}
            if accepted_det(cls, k):
                yield ("pda-empty-string-pushed", k)
    if cls in ("DTM", "NTM", "MNTM"):
        k = _dc(kw)
        k["input_symbols"] = set(k["input_symbols"]) | {k["blank_symbol"]}
        if set(k["input_symbols"]) < set(k["tape_symbols"]):
            yield ("tm-blank-is-input-symbol", k)


def accepted_det(cls, k) -> bool:
    if cls != "DPDA":
        return True
    for q, row in k["transitions"].items():
        if "" in row:
            for a, m in row.items():
                if a != "" and set(m) & set(row[""]):
                    return False
    return True
