"""Build step of every check: regenerate tables from /repo, lake build, axiom audit.

Returns a BuildInfo describing which obligations (property theorems) exist and are
discharged by the kernel with only the standard axioms.  A failing build of a
Props file is *recorded* (the obligations it carries are 'broken'), not raised: the
caller then searches for a failing input (DESIGN.md §6).  A failure to build the
model/driver itself is an infrastructure error unless it is caused by regenerated
tables, in which case it is reported the same way.
"""
from __future__ import annotations

import fcntl
import glob
import json
import os
import re
import subprocess
import sys
import time
from dataclasses import dataclass, field
from typing import Dict, List, Optional

HERE = os.path.dirname(os.path.abspath(__file__))
VERIF = os.path.abspath(os.path.join(HERE, ".."))
LEAN = os.path.join(VERIF, "lean")
BUILD = os.path.join(VERIF, "build")

STD_AXIOMS = {"propext", "Classical.choice", "Quot.sound"}
FORBIDDEN = re.compile(
    r"\b(sorry|admit|native_decide|bv_decide|implemented_by)\b|^\s*axiom\s|\bunsafe\s|maxHeartbeats\s+0\b",
    re.M)

DRIVERS_OF = {
    "C01": ["drv_fa_core"],
}


def all_drivers() -> List[str]:
    text = open(os.path.join(LEAN, "lakefile.toml")).read()
    return re.findall(r'^name = "(drv_[a-z_0-9]+)"', text, re.M)


@dataclass
class BuildInfo:
    obligations: List[dict] = field(default_factory=list)   # from obligations.json (status proved)
    partial: List[dict] = field(default_factory=list)       # documented, not yet proved
    discharged: List[str] = field(default_factory=list)
    broken: List[dict] = field(default_factory=list)        # {name, reason}
    axioms: Dict[str, List[str]] = field(default_factory=dict)
    generated_changed: List[str] = field(default_factory=list)
    props_build_ok: bool = True
    props_build_log: str = ""
    checker_cmd: str = ""
    leanchecker: Optional[str] = None
    wall_s: float = 0.0


class InfraError(Exception):
    pass


def _run(cmd, cwd=None, timeout=3600, env=None):
    p = subprocess.run(cmd, cwd=cwd, stdout=subprocess.PIPE, stderr=subprocess.STDOUT, text=True,
                       timeout=timeout, env=env)
    return p.returncode, p.stdout


def strip_comments(src: str) -> str:
    out = []
    i, depth, n = 0, 0, len(src)
    while i < n:
        if src.startswith("/-", i):
            depth += 1
            i += 2
        elif depth and src.startswith("-/", i):
            depth -= 1
            i += 2
        elif depth:
            i += 1
        elif src.startswith("--", i):
            j = src.find("\n", i)
            i = n if j < 0 else j
        else:
            out.append(src[i])
            i += 1
    return "".join(out)


def forbidden_tokens() -> List[str]:
    hits = []
    for path in glob.glob(os.path.join(LEAN, "AutomataVerif", "**", "*.lean"), recursive=True):
        code = strip_comments(open(path, encoding="utf-8").read())
        # string literals may mention the words (e.g. in messages); drop them
        code = re.sub(r'"(\\.|[^"\\])*"', '""', code)
        for m in FORBIDDEN.finditer(code):
            hits.append(f"{os.path.relpath(path, VERIF)}: {m.group(0).strip()}")
    return hits


def load_obligations(prop: str):
    data = json.load(open(os.path.join(HERE, "obligations.json")))
    ent = data.get(prop, {})
    return ent.get("proved", []), ent.get("partial", []), ent.get("module", f"AutomataVerif.Props.{prop}")


def lake_env() -> dict:
    env = dict(os.environ)
    env.pop("PYTHONPATH", None)
    return env


def ensure_built(prop: Optional[str], tier: str = "quick", setup: bool = False) -> BuildInfo:
    t0 = time.time()
    os.makedirs(BUILD, exist_ok=True)
    info = BuildInfo()
    lock = open(os.path.join(BUILD, "lock"), "w")
    fcntl.flock(lock, fcntl.LOCK_EX)
    try:
        rc, out = _run([sys.executable, os.path.join(HERE, "extract_tables.py")], env=lake_env())
        if rc != 0:
            # the tables could not be regenerated from the current source: the
            # regenerated-fragment obligations are broken, keep going with old tables
            info.broken.append(dict(name="Generated/*", reason="extract_tables.py failed: " + out[-400:]))
        else:
            try:
                info.generated_changed = json.loads(out.strip().splitlines()[-1]).get("changed", [])
            except Exception:
                pass
        drivers = all_drivers() if setup else DRIVERS_OF.get(prop, all_drivers())
        rc, out = _run(["lake", "build"] + drivers, cwd=LEAN, env=lake_env())
        if rc != 0:
            if info.generated_changed or info.broken:
                info.broken.append(dict(name="Model/* (driver build)", reason=out[-1500:]))
            else:
                raise InfraError("driver build failed:\n" + out[-3000:])
        if setup:
            rc, out = _run(["lake", "build", "AutomataVerif"], cwd=LEAN, env=lake_env())
            info.props_build_ok = rc == 0
            info.props_build_log = out[-3000:]
            if rc != 0:
                raise InfraError("lake build AutomataVerif failed:\n" + out[-4000:])
            info.wall_s = time.time() - t0
            return info
        proved, partial, module = load_obligations(prop)
        info.obligations, info.partial = proved, partial
        rc, out = _run(["lake", "build", module], cwd=LEAN, env=lake_env())
        info.props_build_ok = rc == 0
        info.props_build_log = out[-3000:]
        info.checker_cmd = f"cd lean && lake build {module} && lake env lean ../build/audit/{prop}.lean  (#print axioms of every obligation)"
        if rc != 0:
            for ob in proved:
                info.broken.append(dict(name=ob["name"], reason="module does not build: " + _first_error(out)))
        else:
            _audit(prop, module, proved, info)
        bad = forbidden_tokens()
        if bad:
            for ob in proved:
                if ob["name"] not in [b["name"] for b in info.broken]:
                    info.broken.append(dict(name=ob["name"], reason="forbidden token in Lean tree: " + "; ".join(bad[:5])))
            info.discharged = []
        if tier == "thorough" and info.props_build_ok:
            rc, out = _run(["lake", "env", "leanchecker", module], cwd=LEAN, env=lake_env(), timeout=3600)
            info.leanchecker = "ok" if rc == 0 else "FAILED: " + out[-500:]
            if rc != 0:
                for ob in proved:
                    info.broken.append(dict(name=ob["name"], reason="leanchecker rejected the module"))
                info.discharged = []
    finally:
        fcntl.flock(lock, fcntl.LOCK_UN)
        lock.close()
    info.wall_s = time.time() - t0
    return info


def _first_error(out: str) -> str:
    m = re.search(r"error:.*(?:\n.*){0,6}", out)
    return (m.group(0) if m else out[-600:])[:900]


def _audit(prop: str, module: str, proved: List[dict], info: BuildInfo):
    os.makedirs(os.path.join(BUILD, "audit"), exist_ok=True)
    path = os.path.join(BUILD, "audit", f"{prop}.lean")
    lines = [f"import {module}"]
    for ob in proved:
        lines.append(f"#print axioms {ob['name']}")
    open(path, "w").write("\n".join(lines) + "\n")
    rc, out = _run(["lake", "env", "lean", path], cwd=LEAN, env=lake_env())
    flat = re.sub(r"\s+", " ", out)
    for ob in proved:
        name = ob["name"]
        short = name.split(".")[-1]
        m = re.search(r"'(?:[\w.]*\.)?" + re.escape(short) + r"' depends on axioms: \[([^\]]*)\]", flat)
        m0 = re.search(r"'(?:[\w.]*\.)?" + re.escape(short) + r"' does not depend on any axioms", flat)
        if m:
            axs = [a.strip() for a in m.group(1).split(",") if a.strip()]
        elif m0:
            axs = []
        else:
            info.broken.append(dict(name=name, reason="theorem not found by #print axioms: " + _first_error(out)))
            continue
        info.axioms[name] = axs
        extra = [a for a in axs if a not in STD_AXIOMS]
        if extra:
            info.broken.append(dict(name=name, reason=f"depends on non-standard axioms {extra}"))
        else:
            info.discharged.append(name)


if __name__ == "__main__":
    info = ensure_built(None, setup=True)
    print(f"setup ok in {info.wall_s:.1f}s")
