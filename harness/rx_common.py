"""Shared helpers of the regex checks (C10, C11).

* AST of the documented regex syntax, generators (bounded-exhaustive and shaped random),
  renderers with redundant parentheses / blanks;
* two independent oracles for the language an AST denotes, neither of which shares code
  with the library or the Lean model:
    - `den_words`: brute-force set semantics on all words of length ≤ N,
    - Brzozowski derivatives (`deriv`, `nullable`) with exact language comparison against a
      real NFA (`nfa_vs_ast`) or another AST (`ast_cmp`);
* protocol encoding of strings / alphabets, token canonicalisation, NFA isomorphism by
  colour refinement + backtracking.
"""
from __future__ import annotations

import itertools
import random
from typing import Any, Dict, FrozenSet, Iterable, Iterator, List, Optional, Sequence, Tuple

from harness.common import InfraError, Toks, toks

# ------------------------------------------------------------------ AST
# ("lit", c) ("any",) ("eps",) ("cat", e, f) ("alt", e, f) ("and", e, f) ("shuf", e, f)
# ("star", e) ("plus", e) ("opt", e) ("rep", e, lo|None, hi|None)      (lo None = omitted = 0)

BIN = {"alt": "|", "and": "&", "shuf": "^"}
BOUNDS = [None, 0, 1, 2, 3]
# wider pool for the shaped-random streams: larger and multi-digit bounds; 7 is always SPELLED with
# leading zeros ("007", see quant_text), so leading-zero numerals occur in every rendering style
BOUNDS_WIDE = [None, 0, 1, 2, 3, 4, 5, 6, 7, 10, 12]
# symbol characters that are easy to get wrong: a digit, the comma and the minus sign (all three
# also occur inside quantifier braces), a non-ASCII letter, a non-BMP letter
ODD_LITERALS = ["1", ",", "-", "\u00e9", "\U0001d4b3"]


def rep_ok(lo, hi) -> bool:
    return hi is None or (lo or 0) <= hi


def all_quants(bounds=BOUNDS) -> List[Tuple[Optional[int], Optional[int]]]:
    return [(lo, hi) for lo in bounds for hi in bounds if rep_ok(lo, hi)]


def depth(e) -> int:
    return 0 if e[0] in ("lit", "any", "eps") else 1 + max(depth(x) for x in e[1:] if isinstance(x, tuple))


def size(e) -> int:
    return 1 + sum(size(x) for x in e[1:] if isinstance(x, tuple))


def ops_of(e, acc=None) -> set:
    acc = set() if acc is None else acc
    acc.add(e[0])
    for x in e[1:]:
        if isinstance(x, tuple):
            ops_of(x, acc)
    return acc


def lits_of(e, acc=None) -> set:
    acc = set() if acc is None else acc
    if e[0] == "lit":
        acc.add(e[1])
    for x in e[1:]:
        if isinstance(x, tuple):
            lits_of(x, acc)
    return acc


# ------------------------------------------------------------ rendering
# grammar levels: 1 = E (binary chain, left assoc), 2 = T (concatenation, left assoc),
# 3 = F (postfix chain), 4 = atom
def level(e) -> int:
    k = e[0]
    if k in BIN:
        return 1
    if k == "cat":
        return 2
    if k in ("star", "plus", "opt", "rep"):
        return 3
    return 4


def bound_text(b, style: str = "min", rng: Optional[random.Random] = None) -> str:
    """Text of one repetition bound.  An omitted bound is the EMPTY text (a blank there would be
    `int(" ")` → ValueError).  7 is spelled 007.  Style `blank` pads the numeral with one blank on
    each side inside the braces, `extra` pads randomly (blanks / tabs, leading zeros)."""
    if b is None:
        return ""
    t = "007" if b == 7 else str(b)
    if style == "blank":
        return " " + t + " "
    if style == "extra" and rng is not None:
        if rng.random() < 0.2:
            t = "0" * rng.choice([1, 2]) + t
        if rng.random() < 0.25:
            t = rng.choice(["", " ", "\t", "  "]) + t + rng.choice(["", " ", "\t"])
    return t


def quant_text(lo, hi, style: str = "min", rng: Optional[random.Random] = None) -> str:
    return "{" + bound_text(lo, style, rng) + "," + bound_text(hi, style, rng) + "}"


def render(e, style: str = "min", rng: Optional[random.Random] = None) -> str:
    """Concrete syntax of `e`.
    min   : as few parentheses as the grammar allows (left-associative chains unparenthesised)
    full  : every compound sub-expression parenthesised
    blank : `min` with a blank between all tokens, and around each numeral inside quantifier braces
    extra : random redundant parentheses and blanks, also inside braces; random leading zeros
            in bounds (needs rng)"""
    def sep() -> str:
        if style == "blank":
            return " "
        if style == "extra" and rng.random() < 0.25:
            return rng.choice([" ", "  ", "\t"])
        return ""

    def wrap(s: str) -> str:
        return "(" + sep() + s + sep() + ")"

    def go(e, need: int) -> str:
        k = e[0]
        if k == "lit":
            s = e[1]
        elif k == "any":
            s = "."
        elif k == "eps":
            s = "(" + sep() + ")"
        elif k in BIN:
            s = go(e[1], 1) + sep() + BIN[k] + sep() + go(e[2], 2)
        elif k == "cat":
            s = go(e[1], 2) + sep() + go(e[2], 3)
        elif k == "star":
            s = go(e[1], 3) + sep() + "*"
        elif k == "plus":
            s = go(e[1], 3) + sep() + "+"
        elif k == "opt":
            s = go(e[1], 3) + sep() + "?"
        elif k == "rep":
            s = go(e[1], 3) + sep() + quant_text(e[2], e[3], style, rng)
        else:
            raise ValueError(k)
        lv = level(e)
        if lv < need or (style == "full" and lv < 4):
            s = wrap(s)
        elif style == "extra" and rng.random() < 0.2:
            s = wrap(s)
            if rng.random() < 0.2:
                s = wrap(s)
        return s

    return go(e, 1)


# ------------------------------------------------------------ generators
def atoms(alphabet: Sequence[str]) -> List[tuple]:
    return [("lit", c) for c in alphabet] + [("any",), ("eps",)]


def unary_variants(e, quants) -> Iterator[tuple]:
    yield ("star", e)
    yield ("plus", e)
    yield ("opt", e)
    for lo, hi in quants:
        yield ("rep", e, lo, hi)


def binary_variants(e, f) -> Iterator[tuple]:
    yield ("cat", e, f)
    yield ("alt", e, f)
    yield ("and", e, f)
    yield ("shuf", e, f)


def asts_upto(alphabet: Sequence[str], d: int, quants) -> List[tuple]:
    """Every AST of depth ≤ d over the alphabet (atoms: letters, wildcard, ())."""
    cur = atoms(alphabet)
    seen = list(cur)
    for _ in range(d):
        nxt = list(atoms(alphabet))
        for e in seen:
            nxt.extend(unary_variants(e, quants))
        for e in seen:
            for f in seen:
                nxt.extend(binary_variants(e, f))
        seen = nxt
    return seen


def rand_ast(rng: random.Random, alphabet: Sequence[str], max_depth: int, p_foreign: float = 0.0,
             p_wide: float = 0.0) -> tuple:
    """Shaped random AST: quantifier bounds from {∅,0,1,2,3} (with probability `p_wide` per
    quantifier from BOUNDS_WIDE = {∅,0..6,007,10,12}) with lower = upper likely, nested quantifiers,
    ∩ / shuffle under star."""
    def go(d: int) -> tuple:
        if d == 0 or rng.random() < 0.18:
            r = rng.random()
            if r < 0.12:
                return ("any",)
            if r < 0.22:
                return ("eps",)
            if p_foreign and rng.random() < p_foreign:
                return ("lit", rng.choice("cz"))
            return ("lit", rng.choice(alphabet))
        r = rng.random()
        if r < 0.42:
            k = rng.choice(["star", "plus", "opt", "rep", "rep", "rep"])
            sub = go(d - 1)
            if k != "rep":
                return (k, sub)
            pool = BOUNDS_WIDE if (p_wide and rng.random() < p_wide) else BOUNDS
            lo = rng.choice(pool)
            if rng.random() < 0.35:
                hi = lo if lo is not None else rng.choice(pool)
            else:
                hi = rng.choice(pool)
            if not rep_ok(lo, hi):
                lo, hi = (hi, lo)
            return ("rep", sub, lo, hi)
        k = rng.choice(["cat", "cat", "alt", "and", "shuf", "alt"])
        return (k, go(d - 1), go(d - 1))
    return go(max_depth)


# ------------------------------------------------------ oracle 1: brute force
def den_words(e, sigma: Sequence[str], n: int) -> FrozenSet[str]:
    """All words of length ≤ n in the language denoted by `e` over `sigma` — textbook
    set semantics, exact for words of length ≤ n."""
    k = e[0]
    if k == "lit":
        return frozenset([e[1]]) if n >= 1 else frozenset()
    if k == "any":
        return frozenset(sigma) if n >= 1 else frozenset()
    if k == "eps":
        return frozenset([""])
    if k == "cat":
        a, b = den_words(e[1], sigma, n), den_words(e[2], sigma, n)
        return frozenset(u + v for u in a for v in b if len(u) + len(v) <= n)
    if k == "alt":
        return den_words(e[1], sigma, n) | den_words(e[2], sigma, n)
    if k == "and":
        return den_words(e[1], sigma, n) & den_words(e[2], sigma, n)
    if k == "shuf":
        a, b = den_words(e[1], sigma, n), den_words(e[2], sigma, n)
        out = set()
        for u in a:
            for v in b:
                if len(u) + len(v) <= n:
                    out |= interleavings(u, v)
        return frozenset(out)
    if k in ("star", "plus", "opt", "rep"):
        a = den_words(e[1], sigma, n)
        if k == "star":
            lo, hi = 0, None
        elif k == "plus":
            lo, hi = 1, None
        elif k == "opt":
            lo, hi = 0, 1
        else:
            lo, hi = (e[2] or 0), e[3]
        return power_range(a, lo, hi, n)
    raise ValueError(k)


_IL_CACHE: Dict[Tuple[str, str], FrozenSet[str]] = {}


def interleavings(u: str, v: str) -> FrozenSet[str]:
    key = (u, v)
    r = _IL_CACHE.get(key)
    if r is None:
        if not u:
            r = frozenset([v])
        elif not v:
            r = frozenset([u])
        else:
            r = frozenset([u[0] + w for w in interleavings(u[1:], v)] + [v[0] + w for w in interleavings(u, v[1:])])
        if len(_IL_CACHE) < 200000:
            _IL_CACHE[key] = r
    return r


def power_range(a: FrozenSet[str], lo: int, hi: Optional[int], n: int) -> FrozenSet[str]:
    """⋃_{lo ≤ k ≤ hi} a^k restricted to words of length ≤ n (hi None = unbounded).
    Unbounded case: a word of length ≤ n in a^k uses at most n non-empty factors, so
    k ≤ lo + n suffices; we stop earlier once a level adds nothing (then no later level does:
    a^(k+2) = a^(k+1)·a ⊆ (⋃_{lo≤j≤k} a^j)·a ⊆ ⋃_{lo≤j≤k+1} a^j)."""
    top = hi if hi is not None else lo + n
    out: set = set()
    cur = {""}  # a^0
    for k in range(top + 1):
        if k >= lo:
            if hi is None and k > lo and cur <= out:
                break
            out |= cur
        if not cur:
            break
        if k < top:
            cur = {u + v for u in cur for v in a if len(u) + len(v) <= n}
    return frozenset(out)


# ------------------------------------- oracle 1b: membership of a single word
def matches(e, w: str, sigma: Sequence[str]) -> bool:
    """w ∈ den(e)?  Textbook structural recursion on the AST (splits for concatenation and
    repetition, sub-sequence partitions for shuffle), memoised; for single (long) words."""
    sig = frozenset(sigma)
    memo: Dict[tuple, bool] = {}

    def rep(e, w: str, lo: int, hi: Optional[int]) -> bool:
        # w ∈ ⋃_{lo ≤ k ≤ hi} den(e)^k
        key = ("rep", id(e), w, lo, hi)
        r = memo.get(key)
        if r is not None:
            return r
        if w == "":
            # k = lo copies of ε need ε ∈ den(e) unless lo = 0
            r = lo == 0 or go(e, "")
        elif hi is not None and hi == 0:
            r = False
        else:
            r = False
            # first factor non-empty (empty factors only matter for reaching lo, handled below)
            for i in range(1, len(w) + 1):
                if go(e, w[:i]) and rep(e, w[i:], max(lo - 1, 0), None if hi is None else hi - 1):
                    r = True
                    break
            if not r and lo > 0 and go(e, ""):
                # an empty factor may be used to lower the remaining lower bound
                r = (hi is None or hi >= 1) and rep(e, w, lo - 1, None if hi is None else hi - 1)
        memo[key] = r
        return r

    def go(e, w: str) -> bool:
        key = (id(e), w)
        r = memo.get(key)
        if r is not None:
            return r
        k = e[0]
        if k == "lit":
            r = w == e[1]
        elif k == "any":
            r = len(w) == 1 and w in sig
        elif k == "eps":
            r = w == ""
        elif k == "cat":
            r = any(go(e[1], w[:i]) and go(e[2], w[i:]) for i in range(len(w) + 1))
        elif k == "alt":
            r = go(e[1], w) or go(e[2], w)
        elif k == "and":
            r = go(e[1], w) and go(e[2], w)
        elif k == "shuf":
            r = False
            n = len(w)
            for mask in range(1 << n):
                u = "".join(w[i] for i in range(n) if (mask >> i) & 1)
                v = "".join(w[i] for i in range(n) if not (mask >> i) & 1)
                if go(e[1], u) and go(e[2], v):
                    r = True
                    break
        elif k == "star":
            r = rep(e[1], w, 0, None)
        elif k == "plus":
            r = rep(e[1], w, 1, None)
        elif k == "opt":
            r = rep(e[1], w, 0, 1)
        elif k == "rep":
            r = rep(e[1], w, e[2] or 0, e[3])
        else:
            raise ValueError(k)
        memo[key] = r
        return r

    return go(e, w)


# --------------------------------------------- oracle 2: Brzozowski derivatives
# normal forms: ("0",) empty language, ("1",) = eps, ("lit",c), ("any",), ("cat",a,b),
# ("alt", frozenset), ("and", frozenset), ("shuf", a, b), ("star", a)
ZERO, ONE = ("0",), ("1",)


def n_alt(xs: Iterable[tuple]) -> tuple:
    s = set()
    for x in xs:
        if x[0] == "alt":
            s |= x[1]
        elif x != ZERO:
            s.add(x)
    if not s:
        return ZERO
    if len(s) == 1:
        return next(iter(s))
    return ("alt", frozenset(s))


def n_and(xs: Iterable[tuple]) -> tuple:
    s = set()
    for x in xs:
        if x == ZERO:
            return ZERO
        if x[0] == "and":
            s |= x[1]
        else:
            s.add(x)
    if len(s) == 1:
        return next(iter(s))
    return ("and", frozenset(s))


def n_cat(a: tuple, b: tuple) -> tuple:
    if a == ZERO or b == ZERO:
        return ZERO
    if a == ONE:
        return b
    if b == ONE:
        return a
    if a[0] == "cat":  # right-nest
        return n_cat(a[1], n_cat(a[2], b))
    return ("cat", a, b)


def n_shuf(a: tuple, b: tuple) -> tuple:
    if a == ZERO or b == ZERO:
        return ZERO
    if a == ONE:
        return b
    if b == ONE:
        return a
    return ("shuf", a, b) if repr(a) <= repr(b) else ("shuf", b, a)


def n_star(a: tuple) -> tuple:
    if a in (ZERO, ONE):
        return ONE
    if a[0] == "star":
        return a
    return ("star", a)


def normalise(e) -> tuple:
    """Documented-syntax AST → derivative normal form (repetition expanded by its definition:
    e{lo,hi} = e^lo (e|ε)^(hi-lo), e{lo,} = e^lo e*)."""
    k = e[0]
    if k == "lit":
        return e
    if k == "any":
        return ("any",)
    if k == "eps":
        return ONE
    if k == "cat":
        return n_cat(normalise(e[1]), normalise(e[2]))
    if k == "alt":
        return n_alt([normalise(e[1]), normalise(e[2])])
    if k == "and":
        return n_and([normalise(e[1]), normalise(e[2])])
    if k == "shuf":
        return n_shuf(normalise(e[1]), normalise(e[2]))
    a = normalise(e[1])
    if k == "star":
        return n_star(a)
    if k == "plus":
        return n_cat(a, n_star(a))
    if k == "opt":
        return n_alt([ONE, a])
    lo, hi = (e[2] or 0), e[3]
    out = ONE
    for _ in range(lo):
        out = n_cat(out, a)
    if hi is None:
        return n_cat(out, n_star(a))
    optional = n_alt([ONE, a])
    for _ in range(hi - lo):
        out = n_cat(out, optional)
    return out


_NUL: Dict[tuple, bool] = {}


def nullable(x: tuple) -> bool:
    k = x[0]
    if k == "1" or k == "star":
        return True
    if k in ("0", "lit", "any"):
        return False
    r = _NUL.get(x)
    if r is None:
        if k == "cat" or k == "shuf":
            r = nullable(x[1]) and nullable(x[2])
        elif k == "alt":
            r = any(nullable(y) for y in x[1])
        else:
            r = all(nullable(y) for y in x[1])
        if len(_NUL) < 500000:
            _NUL[x] = r
    return r


_DER: Dict[Tuple[tuple, str, FrozenSet[str]], tuple] = {}


def deriv(x: tuple, c: str, sigma: FrozenSet[str]) -> tuple:
    k = x[0]
    if k in ("0", "1"):
        return ZERO
    if k == "lit":
        return ONE if x[1] == c else ZERO
    if k == "any":
        return ONE if c in sigma else ZERO
    key = (x, c, sigma)
    r = _DER.get(key)
    if r is not None:
        return r
    if k == "cat":
        r = n_cat(deriv(x[1], c, sigma), x[2])
        if nullable(x[1]):
            r = n_alt([r, deriv(x[2], c, sigma)])
    elif k == "alt":
        r = n_alt(deriv(y, c, sigma) for y in x[1])
    elif k == "and":
        r = n_and(deriv(y, c, sigma) for y in x[1])
    elif k == "shuf":
        r = n_alt([n_shuf(deriv(x[1], c, sigma), x[2]), n_shuf(x[1], deriv(x[2], c, sigma))])
    elif k == "star":
        r = n_cat(deriv(x[1], c, sigma), x)
    else:
        raise ValueError(k)
    if len(_DER) < 500000:
        _DER[key] = r
    return r


class OracleBudget(Exception):
    pass


def nfa_vs_ast(nfa, e, sigma: Iterable[str], extra: Iterable[str] = (), limit: int = 20000) -> Optional[Tuple[str, bool]]:
    """Exact comparison of the language of a real NFA (through its own transition table,
    textbook subset run) with the language of `e` over `sigma`.  Returns None when equal, else
    (shortest distinguishing word, verdict of the AST semantics)."""
    sig = frozenset(sigma)
    letters = sorted(sig | set(extra))

    def closure(S):
        S = set(S)
        work = list(S)
        while work:
            q = work.pop()
            for t in nfa.transitions.get(q, {}).get("", ()):
                if t not in S:
                    S.add(t)
                    work.append(t)
        return frozenset(S)

    start = (closure({nfa.initial_state}), normalise(e))
    seen = {start: ""}
    queue = [start]
    i = 0
    while i < len(queue):
        S, x = queue[i]
        i += 1
        w = seen[(S, x)]
        a1 = bool(S & nfa.final_states)
        a2 = nullable(x)
        if a1 != a2:
            return (w, a2)
        for c in letters:
            T = set()
            for q in S:
                T |= set(nfa.transitions.get(q, {}).get(c, ()))
            nxt = (closure(T), deriv(x, c, sig))
            if nxt not in seen:
                seen[nxt] = w + c
                queue.append(nxt)
                if len(queue) > limit:
                    raise OracleBudget()
    return None


def ast_cmp(e1, e2, sigma: Iterable[str], limit: int = 20000) -> Tuple[bool, bool]:
    """(L(e1) ⊆ L(e2), L(e2) ⊆ L(e1)) over `sigma`, exactly, by derivatives."""
    sig = frozenset(sigma)
    letters = sorted(sig)
    start = (normalise(e1), normalise(e2))
    seen = {start}
    queue = [start]
    sub = sup = True
    i = 0
    while i < len(queue):
        x, y = queue[i]
        i += 1
        nx, ny = nullable(x), nullable(y)
        if nx and not ny:
            sub = False
        if ny and not nx:
            sup = False
        if not sub and not sup:
            break
        for c in letters:
            nxt = (deriv(x, c, sig), deriv(y, c, sig))
            if nxt not in seen:
                seen.add(nxt)
                queue.append(nxt)
                if len(queue) > limit:
                    raise OracleBudget()
    return sub, sup


def words_upto(sigma: Sequence[str], n: int) -> Iterator[str]:
    for k in range(n + 1):
        for t in itertools.product(sigma, repeat=k):
            yield "".join(t)


# -------------------------------------------------------------- protocol
def enc_str(s: str) -> str:
    return toks(len(s), [ord(c) for c in s])


def enc_syms(sigma: Optional[Iterable[str]]) -> str:
    if sigma is None:
        return "N"
    sigma = list(sigma)
    return toks(len(sigma), [ord(c) for c in sigma])


def canon_token(t) -> str:
    """Real token object → the driver's rendering."""
    name = type(t).__name__
    simple = {"LeftParen": "LP", "RightParen": "RP", "UnionToken": "U", "IntersectionToken": "I",
              "ShuffleToken": "S", "KleeneStarToken": "ST", "KleenePlusToken": "PL", "OptionToken": "OP",
              "ConcatToken": "CC", "WildcardToken": "W"}
    if name in simple:
        return simple[name]
    if name == "QuantifierToken":
        return f"Q:{t.lower_bound}:{'N' if t.upper_bound is None else t.upper_bound}"
    if name == "StringToken":
        return "L:" + ",".join(str(ord(c)) for c in t.text)
    return "?" + name


def read_tokens(t: Toks) -> List[str]:
    return [t.next() for _ in range(t.int())]


def read_res_tokens(t: Toks):
    return t.res(lambda: read_tokens(t))


def plain_real_nfa(nfa) -> dict:
    """Real NFA from from_regex (int states, str symbols) → plain dict over ints / code points."""
    return dict(states=set(nfa.states), syms={ord(a) for a in nfa.input_symbols}, init=nfa.initial_state,
                finals=set(nfa.final_states),
                trans={k: {(-1 if a == "" else ord(a)): set(ts) for a, ts in row.items()}
                       for k, row in nfa.transitions.items()})


# ------------------------------------------------------------ isomorphism
def nfa_iso(a: dict, b: dict, names: bool = False) -> bool:
    """Isomorphism of plain NFAs (all states; rows compared with their key sets): colour
    refinement, then backtracking inside colour classes.  `names=True` additionally requires the
    two SETS of state names to be equal (the code draws names from a counter; the model reproduces
    the counter, only the assignment inside a renamed block may differ by a permutation)."""
    if len(a["states"]) != len(b["states"]) or a["syms"] != b["syms"]:
        return False
    if names and set(a["states"]) != set(b["states"]):
        return False
    if len(a["finals"]) != len(b["finals"]) or set(a["trans"]) - a["states"] or set(b["trans"]) - b["states"]:
        return False

    def preds(p):
        inn: Dict[Any, list] = {q: [] for q in p["states"]}
        for k, row in p["trans"].items():
            for s, ts in row.items():
                for t in ts:
                    if t in inn:
                        inn[t].append((s, k))
        return inn

    ina, inb = preds(a), preds(b)

    def refine(p, inn, col):
        new = {}
        for q in p["states"]:
            row = p["trans"].get(q)
            out = None if row is None else tuple(sorted((s, tuple(sorted(col.get(t, -1) for t in ts))) for s, ts in row.items()))
            new[q] = (col[q], out, tuple(sorted((s, col[k]) for s, k in inn[q])))
        return new

    ca = {q: (q == a["init"], q in a["finals"]) for q in a["states"]}
    cb = {q: (q == b["init"], q in b["finals"]) for q in b["states"]}
    ncls = -1
    for _ in range(len(a["states"]) + 2):
        ra, rb = refine(a, ina, ca), refine(b, inb, cb)
        palette = {v: i for i, v in enumerate(sorted(set(ra.values()) | set(rb.values()), key=repr))}
        ca = {q: palette[v] for q, v in ra.items()}
        cb = {q: palette[v] for q, v in rb.items()}
        if sorted(ca.values()) != sorted(cb.values()):
            return False
        k = len(set(ca.values()))
        if k == ncls:
            break
        ncls = k
    by_col: Dict[int, list] = {}
    for q, c in cb.items():
        by_col.setdefault(c, []).append(q)
    order = sorted(a["states"], key=lambda q: (len(by_col[ca[q]]), ca[q], q))
    mapping: Dict[Any, Any] = {}
    used = set()

    def ok(q, r):
        ra, rb = a["trans"].get(q), b["trans"].get(r)
        if (ra is None) != (rb is None):
            return False
        if ra is not None:
            if set(ra) != set(rb):
                return False
            for s, ts in ra.items():
                us = rb[s]
                if len(ts) != len(us):
                    return False
                for t in ts:
                    if t in mapping and mapping[t] not in us:
                        return False
        for s, k in ina[q]:
            if k in mapping and r not in b["trans"][mapping[k]].get(s, ()):
                return False
        return True

    def go(i):
        if i == len(order):
            return True
        q = order[i]
        for r in by_col[ca[q]]:
            if r in used:
                continue
            mapping[q] = r
            used.add(r)
            if ok(q, r) and go(i + 1):
                return True
            del mapping[q]
            used.discard(r)
        return False

    return go(0)
