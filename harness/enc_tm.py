"""Turing-machine helpers shared by harness/ops/C03.py and C17.py: protocol encoding of
DTM/NTM/MNTM objects, bounded observation of generators, canonical forms of the yielded
configurations, a textbook reference interpreter (dict tapes, blank everywhere else — shares
no code with the Lean model or the library), and the machine generators.

Symbols travel as Unicode code points, states through `Names`, directions 0=L 1=R 2=N 3=other.
"""
from __future__ import annotations

import itertools
import random
import signal
from collections import Counter
from typing import Any, Dict, Iterable, Iterator, List, Optional, Sequence, Tuple

import automata.base.config as global_config
from automata.tm.dtm import DTM
from automata.tm.mntm import MNTM
from automata.tm.ntm import NTM

from harness.common import InfraError, Names, Toks, toks

DIRS = {"L": 0, "R": 1, "N": 2}


def enc_dir(d: Any) -> int:
    return DIRS.get(d, 3) if isinstance(d, str) else 3


def enc_syms(xs: Iterable[str]) -> list:
    xs = list(xs)
    return [len(xs), [ord(c) for c in xs]]


def enc_word(w: str) -> str:
    return toks(len(w), [ord(c) for c in w])


def _header(m, st: Names, extra: Sequence[Any] = ()) -> list:
    return [len(st.order), [st(q) for q in st.order], enc_syms(m.input_symbols), enc_syms(m.tape_symbols),
            list(extra), st(m.initial_state), ord(m.blank_symbol),
            len(m.final_states), [st(q) for q in m.final_states]]


def enc_dtm(m, st: Optional[Names] = None) -> Tuple[str, Names]:
    st = st or Names(m.states)
    rows = []
    for k, row in m.transitions.items():
        rows.append([st(k), len(row), [[ord(s), st(r[0]), ord(r[1]), enc_dir(r[2])] for s, r in row.items()]])
    return toks(_header(m, st), len(rows), rows), st


def enc_ntm(m, st: Optional[Names] = None) -> Tuple[str, Names]:
    st = st or Names(m.states)
    rows = []
    for k, row in m.transitions.items():
        ent = []
        for s, rs in row.items():
            rs = list(rs)  # live iteration order of the (frozen)set
            ent.append([ord(s), len(rs), [[st(r[0]), ord(r[1]), enc_dir(r[2])] for r in rs]])
        rows.append([st(k), len(row), ent])
    return toks(_header(m, st), len(rows), rows), st


def enc_mntm(m, st: Optional[Names] = None) -> Tuple[str, Names]:
    st = st or Names(m.states)
    rows = []
    for k, row in m.transitions.items():
        ent = []
        for key, rs in row.items():
            res = []
            for (q, moves) in rs:
                res.append([st(q), len(moves), [[ord(s), enc_dir(d)] for (s, d) in moves]])
            ent.append([len(key), [ord(s) for s in key], len(rs), res])
        rows.append([st(k), len(row), ent])
    return toks(_header(m, st, [m.n_tapes]), len(rows), rows), st


# ------------------------------------------------------------ observing generators
class HarnessTimeout(Exception):
    """A single call into the library did not come back within the watchdog limit (a loop that
    does not terminate inside one next() — reported like a crash, never waited for)."""


TIMEOUTS = 0          # watchdog hits so far in this run (reset by `reset_watchdog`)
MAX_TIMEOUTS = 3      # after that many, the ops modules skip the remaining cases


def gave_up() -> bool:
    return TIMEOUTS >= MAX_TIMEOUTS


def reset_watchdog():
    """Called at the start of every run(): the counter belongs to one run, not to the process."""
    global TIMEOUTS
    TIMEOUTS = 0


def skip(ctx) -> bool:
    """True when the run has given up after MAX_TIMEOUTS watchdog hits; every skipped case is
    counted (`skipped_after_watchdog` in the generator distribution of the evidence)."""
    if TIMEOUTS >= MAX_TIMEOUTS:
        ctx.stat("skipped_after_watchdog")
        return True
    return False


def report_watchdog(ctx):
    """End of run(): watchdog hits and the cases skipped after them go into the evidence as a NOTE,
    and a run with skipped cases is never green (the first hits are reported as failures of the
    property by the checks themselves; the difference recorded here makes sure the verdict is not
    OK even if they were not)."""
    k = ctx.stats.get("skipped_after_watchdog", 0)
    if TIMEOUTS:
        ctx.stat("watchdog_hits", TIMEOUTS)
    if k:
        ctx.note(f"NOTE: {k} case(s) were skipped after {TIMEOUTS} watchdog hits (a single library call did not "
                 f"come back within the limit): the coverage figures of this run are those of a cut-short run")
        ctx.corr_diff("watchdog-skips", dict(skipped=k, watchdog_hits=TIMEOUTS),
                      f"{TIMEOUTS} library calls did not return within the watchdog limit", "every call returns")


class time_limit:
    def __init__(self, seconds: float = 5.0):
        self.seconds = seconds

    def _raise(self, *_):
        raise HarnessTimeout()

    def __enter__(self):
        self.old = signal.signal(signal.SIGALRM, self._raise)
        signal.setitimer(signal.ITIMER_REAL, self.seconds)

    def __exit__(self, *exc):
        signal.setitimer(signal.ITIMER_REAL, 0)
        signal.signal(signal.SIGALRM, self.old)
        return False


def observe(gen, n: int, limit: float = 5.0, count: bool = True):
    """n calls of next(): (yields, end) with end in 'ret' | 'run' | 'raise <Class>'.
    `limit` = watchdog seconds for the whole observation; `count=False`: a hit is expected by the
    caller (it does not count towards giving up)."""
    ys, end = [], "run"
    try:
        with time_limit(limit):
            for _ in range(n):
                try:
                    ys.append(next(gen))
                except StopIteration:
                    end = "ret"
                    break
                except (RecursionError, HarnessTimeout):
                    raise
                except Exception as e:  # noqa: BLE001
                    end = "raise " + type(e).__name__
                    break
    except HarnessTimeout:
        global TIMEOUTS
        if count:
            TIMEOUTS += 1
        end = "raise HarnessTimeout"
    return ys, end


def bounded_call(f, seconds=None):
    """call(f) under the watchdog (`seconds`: a more generous limit for cases known to be large)."""
    try:
        with (time_limit(seconds) if seconds else time_limit()):
            try:
                return ("ok", f())
            except (RecursionError, HarnessTimeout):
                raise
            except Exception as e:  # noqa: BLE001
                return ("err", type(e).__name__)
    except HarnessTimeout:
        global TIMEOUTS
        TIMEOUTS += 1
        return ("err", "HarnessTimeout")


def verdict_of(end: str) -> str:
    if end == "ret":
        return "accept"
    if end == "raise RejectionException":
        return "reject"
    if end == "run":
        return "fuel"
    return "crash:" + end[6:]


def canon_tape(t) -> tuple:
    return (t.current_position, tuple(ord(c) for c in t.tape))


def canon_cfg(c, st: Names) -> tuple:
    return (st(c.state),) + canon_tape(c.tape)


def canon_mcfg(c, st: Names) -> tuple:
    return (st(c.state), tuple(canon_tape(t) for t in c.tapes))


def one(s):
    """The single element of a yielded singleton set."""
    if not isinstance(s, (set, frozenset)) or len(s) != 1:
        raise ValueError(f"expected a singleton set, got {s!r}")   # the real code yielded another shape
    return next(iter(s))


# ------------------------------------------------------------ parsing driver answers
def parse_end(t: Toks) -> str:
    t.expect("end")
    k = t.next()
    if k == "raise":
        return "raise " + t.next()
    return k


def p_tape(t: Toks) -> tuple:
    pos = t.int()
    return (pos, tuple(t.ints()))


def p_cfg(t: Toks) -> tuple:
    q = t.int()
    return (q,) + p_tape(t)


def p_mcfg(t: Toks) -> tuple:
    q = t.int()
    return (q, tuple(t.many(lambda: p_tape(t))))


def parse_run(line: str, item) -> Tuple[Any, str]:
    t = Toks(line)
    k = t.next()
    if k == "count":
        n = t.int()
        return n, parse_end(t)
    if k != "yields":
        raise InfraError(f"protocol: expected yields/count, got {k}")
    ys = t.many(lambda: item(t))
    return ys, parse_end(t)


# ------------------------------------------------------------ textbook interpreter
class RefCfg:
    """A configuration on a two-way infinite tape: dict cell→symbol, blank elsewhere."""
    __slots__ = ("state", "cells", "head")

    def __init__(self, state, cells: Dict[int, str], head: int):
        self.state, self.cells, self.head = state, cells, head


def ref_view(state, blank: str, cells_left_rev: Sequence[str], cells_right: Sequence[str]) -> tuple:
    l = list(cells_left_rev)
    while l and l[-1] == blank:
        l.pop()
    r = list(cells_right)
    while r and r[-1] == blank:
        r.pop()
    return (state, tuple(l), tuple(r))


def view_of_tape(t, blank: str) -> tuple:
    """Head-relative content of a real TMTape, blanks outside stripped."""
    cells, p = list(t.tape), t.current_position
    return ref_view(None, blank, list(reversed(cells[:p])), cells[p:])[1:]


def view_of_ref(cells: Dict[int, str], head: int, blank: str) -> tuple:
    keys = [k for k, v in cells.items() if v != blank]
    lo = min(keys + [head])
    hi = max(keys + [head])
    left = [cells.get(i, blank) for i in range(head - 1, lo - 1, -1)]
    right = [cells.get(i, blank) for i in range(head, hi + 1)]
    return ref_view(None, blank, left, right)[1:]


def ref_start(w: str) -> Tuple[Dict[int, str], int]:
    return ({i: c for i, c in enumerate(w)}, 0)


def ref_apply(cells: Dict[int, str], head: int, sym: str, d: str) -> Tuple[Dict[int, str], int]:
    cells = dict(cells)
    cells[head] = sym
    return cells, head + (1 if d == "R" else -1 if d == "L" else 0)


# ------------------------------------------------------------ generators
def mk(cls, **kw):
    return cls(**kw)


def mk_unchecked(cls, **kw):
    """Construct without validation (for the validation stream)."""
    old = global_config.should_validate_automata
    global_config.should_validate_automata = False
    try:
        return cls(**kw)
    finally:
        global_config.should_validate_automata = old


def tiny_dtm_tables(tape_syms: Sequence[str], max_rows: int) -> Iterator[Dict[str, Dict[str, tuple]]]:
    """All DTM tables over states q0,q1 (+ final qf) with ≤ max_rows rows in which q0 has a row
    (a valid machine needs one)."""
    keys = [(q, s) for q in ("q0", "q1") for s in tape_syms]
    results = [(q, s, d) for q in ("q0", "q1", "qf") for s in tape_syms for d in ("L", "R", "N")]
    for r in range(1, max_rows + 1):
        for ks in itertools.combinations(keys, r):
            if not any(k[0] == "q0" for k in ks):
                continue
            for rs in itertools.product(results, repeat=r):
                table: Dict[str, Dict[str, tuple]] = {}
                for (q, s), res in zip(ks, rs):
                    table.setdefault(q, {})[s] = res
                yield table


def words_upto(sy: Sequence[str], n: int) -> List[str]:
    out = [""]
    for k in range(1, n + 1):
        out += ["".join(p) for p in itertools.product(sy, repeat=k)]
    return out


STATE_POOLS = [
    lambda n: [f"q{i}" for i in range(n)],
    lambda n: list(range(n)),
    lambda n: [(i, i % 2 == 0) for i in range(n)],
    lambda n: [frozenset({i}) for i in range(n)],
    lambda n: ["", "a", "ab", "b", "ba"][:n],
    lambda n: [-1, 0, -2, 1, 2][:n],
]

ALPHABETS = [  # (input symbols, extra tape symbols, blank)
    ("0", "", "#"), ("01", "", "#"), ("01", "x", "#"), ("ab", "xy", "."), ("a", "", "b"),
    ("01", "", " "), ("é", "λ", "#"), ("0", "1", "#"),
]


def rand_names(rng: random.Random, n: int) -> list:
    return STATE_POOLS[rng.randrange(len(STATE_POOLS))](n)


# tape alphabets containing the marks of MNTM.read_input_as_ntm's extended tape (C17, off the
# domain of C17_verdict_char; open finding C17:mark-symbol-in-alphabet-or-input)
MARK_ALPHABETS = [
    ("0", "^", "#"), ("0", "_", "#"), ("0^", "", "#"), ("0_", "", "#"), ("01", "^_", "#"),
    ("0", "", "_"), ("0", "", "^"), ("^_", "", "#"), ("0", "#", "_"),
]


# state names of MIXED, mutually unorderable types in one machine (a state is any hashable): sorting,
# min/max, "<" on raw names — e.g. to build a message or to pick a representative — raise TypeError
MIXED_NAMES = [0, "q1", ("copy", 2), frozenset({3}), 1, "", (4,), -1, "acc", (0, "q"), frozenset(), 7]


def rand_mixed_names(rng: random.Random, n: int) -> list:
    """n names of at least two different, mutually unorderable types (when n ≥ 2)."""
    while True:
        names = rng.sample(MIXED_NAMES, n)
        if n < 2 or len({type(x) for x in names}) >= 2:
            return names


def rand_tm_parts(rng: random.Random, max_states: int = 4, alphabets=None, min_states: int = 2, names_fn=None):
    n = rng.randint(min_states, max_states)
    names = (names_fn or rand_names)(rng, n)
    if len(names) < n:  # the small adversarial pools stop at 5 names
        names = STATE_POOLS[rng.randrange(4)](n)
    n = len(names)
    alphabets = alphabets or ALPHABETS
    isy, extra, blank = alphabets[rng.randrange(len(alphabets))]
    tsy = list(isy + extra + blank)
    n_final = rng.choice([0, 1, 1, 1, 2]) if n > 2 else rng.choice([0, 1, 1])
    finals = set(names[n - n_final:]) if n_final else set()
    nonfinal = [q for q in names if q not in finals]
    init = nonfinal[0]
    return names, list(isy), tsy, blank, finals, nonfinal, init


def _dirs(rng: random.Random):
    style = rng.random()
    if style < 0.15:
        return lambda: "L"
    if style < 0.3:
        return lambda: "R"
    if style < 0.4:
        return lambda: rng.choice("LN")
    return lambda: rng.choice("LRN")


def rand_dtm_table(rng: random.Random, max_states: int = 4, min_states: int = 2):
    names, isy, tsy, blank, finals, nonfinal, init = rand_tm_parts(rng, max_states, None, min_states)
    dens = rng.choice([0.3, 0.6, 0.9, 1.0])
    pick_dir = _dirs(rng)
    wblank = rng.choice([0.0, 0.2, 0.6])
    table: Dict[Any, Dict[str, tuple]] = {}
    for q in nonfinal:
        row = {}
        for s in tsy:
            if rng.random() < dens:
                tgt = rng.choice(names)
                ws = blank if rng.random() < wblank else rng.choice(tsy)
                row[s] = (tgt, ws, pick_dir())
        if row or q == init or rng.random() < 0.5:
            table[q] = row
    table.setdefault(init, {})
    kw = dict(states=set(names), input_symbols=set(isy), tape_symbols=set(tsy), initial_state=init,
              blank_symbol=blank, final_states=set(finals))
    return kw, table


def dtm_from(kw, table) -> DTM:
    return DTM(transitions={q: dict(r) for q, r in table.items()}, **kw)


def ntm_from(kw, table) -> NTM:
    return NTM(transitions={q: {s: {r} for s, r in row.items()} for q, row in table.items()}, **kw)


def mntm1_from(kw, table) -> MNTM:
    return MNTM(n_tapes=1,
                transitions={q: {(s,): [(r[0], ((r[1], r[2]),))] for s, r in row.items()}
                             for q, row in table.items()}, **kw)


def rand_ntm(rng: random.Random, max_states: int = 4, min_states: int = 2) -> NTM:
    names, isy, tsy, blank, finals, nonfinal, init = rand_tm_parts(rng, max_states, None, min_states)
    dens = rng.choice([0.4, 0.7, 0.9, 1.0])
    pick_dir = _dirs(rng)
    wblank = rng.choice([0.0, 0.2, 0.6])
    table: Dict[Any, Dict[str, set]] = {}
    for q in nonfinal:
        row = {}
        for s in tsy:
            if rng.random() < dens:
                k = rng.choice([0, 1, 1, 2, 2, 2, 3])
                row[s] = {(rng.choice(names), blank if rng.random() < wblank else rng.choice(tsy), pick_dir())
                          for _ in range(k)}
        if row or q == init or rng.random() < 0.5:
            table[q] = row
    table.setdefault(init, {})
    return NTM(states=set(names), input_symbols=set(isy), tape_symbols=set(tsy), transitions=table,
               initial_state=init, blank_symbol=blank, final_states=set(finals))


def rand_mntm(rng: random.Random, max_states: int = 4, n_tapes: Optional[int] = None,
              deterministic: Optional[bool] = None, allow_empty_list: bool = True, alphabets=None,
              min_states: int = 2, names_fn=None) -> MNTM:
    names, isy, tsy, blank, finals, nonfinal, init = rand_tm_parts(rng, max_states, alphabets, min_states, names_fn)
    nt = n_tapes or rng.choice([1, 1, 2, 2, 3])
    if deterministic is None:
        deterministic = rng.random() < 0.3
    pick_dir = _dirs(rng)
    wblank = rng.choice([0.0, 0.2, 0.6])
    # read keys that can actually occur: the other tapes start blank, so bias towards blanks
    def rand_key():
        return tuple(rng.choice(tsy) if (i == 0 or rng.random() < 0.5) else blank for i in range(nt))
    table: Dict[Any, Dict[tuple, list]] = {}
    n_keys = rng.choice([2, 3, 4, 6]) * (1 if nt == 1 else 2)
    sink_p = rng.choice([0.0, 0.0, 0.3, 0.6])  # non-final states without any row (explicit dead ends)
    for q in nonfinal:
        row: Dict[tuple, list] = {}
        if q != init and rng.random() < sink_p:
            continue
        for _ in range(n_keys if rng.random() < 0.8 else 1):
            key = rand_key()
            if deterministic:
                k = 1
            else:
                k = rng.choice([0, 1, 1, 2, 2, 3]) if allow_empty_list else rng.choice([1, 1, 2, 2, 3])
            res = []
            for _ in range(k):
                moves = tuple((blank if rng.random() < wblank else rng.choice(tsy), pick_dir()) for _ in range(nt))
                res.append((rng.choice(names), moves))
            if len(res) >= 1 and rng.random() < 0.12:
                res.insert(rng.randrange(len(res) + 1), rng.choice(res))  # a repeated entry: path multiplicity
            row[key] = tuple(res) if rng.random() < 0.12 else res            # lists may be given as tuples
        if row or q == init or rng.random() < 0.5:
            table[q] = row
    table.setdefault(init, {})
    return MNTM(states=set(names), input_symbols=set(isy), tape_symbols=set(tsy), n_tapes=nt,
                transitions=table, initial_state=init, blank_symbol=blank, final_states=set(finals))


def rand_input(rng: random.Random, m, max_len: int = 4) -> str:
    """Mostly over the input alphabet; sometimes containing the blank or another tape symbol, sometimes
    a symbol outside the tape alphabet (the library never checks the input string against `input_symbols`)."""
    isy = sorted(m.input_symbols)
    pool = isy
    r = rng.random()
    if r < 0.15:
        pool = sorted(m.tape_symbols)
    n = rng.choice([0, 1, 1, 2, 2, 3, 3, max_len])
    if not pool:
        return ""
    w = "".join(rng.choice(pool) for _ in range(n))
    if w and rng.random() < 0.08:
        # a symbol outside the tape alphabet (never '^' / '_': those are C17's mark family)
        f = next(c for c in "%@$&" if c not in m.tape_symbols)
        k = rng.randrange(len(w))
        w = w[:k] + f + w[k + 1:]
    return w


def tiny_nondet_tables(tape_syms: Sequence[str] = "0#") -> Iterator[Dict[str, Dict[str, list]]]:
    """Nondeterministic one-tape tables over q0,q1 (+final qf): q0 has two distinct results on the
    first tape symbol and optionally one of four results on the blank; q1 has no row (a dead end)
    or one of three rows."""
    results = [(q, s, d) for q in ("q0", "q1", "qf") for s in tape_syms for d in ("L", "R", "N")]
    a, blank = tape_syms[0], tape_syms[-1]
    second = [None, ("qf", blank, "N"), ("q1", a, "R"), ("q0", blank, "L")]
    q1rows = [None, {blank: [("qf", blank, "N")]}, {a: [("q0", a, "L")]}]
    for r1, r2 in itertools.combinations(results, 2):
        for sec in second:
            for q1 in q1rows:
                t: Dict[str, Dict[str, list]] = {"q0": {a: [r1, r2]}}
                if sec is not None:
                    t["q0"][blank] = [sec]
                if q1 is not None:
                    t["q1"] = {k: list(v) for k, v in q1.items()}
                yield t


def ntm_from_lists(kw, table) -> NTM:
    return NTM(transitions={q: {s: set(rs) for s, rs in row.items()} for q, row in table.items()}, **kw)


def mntm1_from_lists(kw, table, swap: bool = False) -> MNTM:
    def order(rs):
        return list(reversed(rs)) if swap else list(rs)
    return MNTM(n_tapes=1,
                transitions={q: {(s,): [(r[0], ((r[1], r[2]),)) for r in order(rs)] for s, rs in row.items()}
                             for q, row in table.items()}, **kw)
