"""Shared machinery of the correspondence harness (runs under /venv/bin/python,
PYTHONPATH=/repo so that `import automata` is the code under test).

Ctx collects, for one property run: evaluations, distinct non-trivial cases,
samples, generator statistics, correspondence differences (model vs. code) and
property failures on the real code, and turns them into the verdict of
DESIGN.md §6 plus the evidence file.
"""
from __future__ import annotations

import hashlib
import json
import os
import random
import subprocess
import sys
import time
from typing import Any, Callable, Dict, Iterable, List, Optional, Tuple

VERIF = os.path.abspath(os.path.join(os.path.dirname(__file__), ".."))
REPO = os.environ.get("VERIF_REPO", "/repo")
LEAN = os.path.join(VERIF, "lean")
BIN = os.path.join(LEAN, ".lake", "build", "bin")
FOREIGN = 1000  # integers >= FOREIGN denote names outside the state set / alphabet


# ----------------------------------------------------------------- driver
class Driver:
    """Persistent Lean driver subprocess speaking the line protocol."""

    def __init__(self, name: str):
        self.name = name
        path = os.path.join(os.environ.get("AV_BIN_DIR") or BIN, name)
        if not os.path.exists(path):
            path = os.path.join(BIN, name)
        if not os.path.exists(path):
            raise InfraError(f"driver executable missing: {path}")
        self.p = subprocess.Popen([path], stdin=subprocess.PIPE, stdout=subprocess.PIPE,
                                  stderr=subprocess.DEVNULL, text=True, bufsize=1)
        self.requests = 0
        import atexit
        atexit.register(self._kill)       # never leave a driver behind (it would keep a caller's pipe open)

    def ask(self, line: str) -> str:
        assert "\n" not in line
        self.p.stdin.write(line + "\n")
        self.p.stdin.flush()
        out = self.p.stdout.readline()
        if not out:
            raise InfraError(f"driver {self.name} died on: {line[:300]}")
        self.requests += 1
        out = out.rstrip("\n")
        if out.startswith("bad-request"):
            raise InfraError(f"driver {self.name}: {out} on: {line[:300]}")
        return out

    def _kill(self):
        try:
            if self.p.poll() is None:
                self.p.kill()
        except Exception:  # noqa: BLE001
            pass

    def close(self):
        try:
            self.p.stdin.close()
            self.p.wait(timeout=5)
        except Exception:
            self.p.kill()


class InfraError(Exception):
    """Toolchain / harness failure (exit 2, never a VIOLATION)."""


# ------------------------------------------------------- encoding helpers
def toks(*xs) -> str:
    out = []
    for x in xs:
        if isinstance(x, (list, tuple)):
            out.append(toks(*x))
        elif isinstance(x, bool):
            out.append("1" if x else "0")
        elif x is None:
            out.append("N")
        else:
            out.append(str(x))
    return " ".join(o for o in out if o != "")


class Names:
    """Bijection between Python names and protocol integers for one operand."""

    def __init__(self, ordered: Iterable[Any]):
        self.order = list(ordered)
        self.idx = {s: i for i, s in enumerate(self.order)}
        self.foreign: Dict[Any, int] = {}

    def __call__(self, name: Any) -> int:
        if name in self.idx:
            return self.idx[name]
        if name not in self.foreign:
            self.foreign[name] = FOREIGN + len(self.foreign)
        return self.foreign[name]

    def back(self, i: int) -> Any:
        if i < len(self.order):
            return self.order[i]
        for k, v in self.foreign.items():
            if v == i:
                return k
        raise KeyError(i)


def sym_names(input_symbols: Iterable[str]) -> Names:
    """Symbols are numbered by their rank in sorted order."""
    return Names(sorted(input_symbols))


def enc_word(sy: Names, w: str) -> str:
    return toks(len(w), [sy(c) for c in w])


def enc_dfa(d, st: Optional[Names] = None, sy: Optional[Names] = None) -> Tuple[str, Names, Names]:
    """Encode a live DFA object (or anything with the same attributes)."""
    st = st or Names(d.states)
    sy = sy or sym_names(d.input_symbols)
    order = [sy(a) for a in d.input_symbols]
    rows = []
    for k, row in d.transitions.items():
        rows.append(toks(st(k), len(row), [[sy(a), st(t)] for a, t in row.items()]))
    s = toks(len(st.order), len(order), order, bool(d.allow_partial), st(d.initial_state),
             len(d.final_states), [st(q) for q in d.final_states], len(rows), rows)
    return s, st, sy


def enc_nfa(n, st: Optional[Names] = None, sy: Optional[Names] = None) -> Tuple[str, Names, Names]:
    st = st or Names(n.states)
    sy = sy or sym_names(n.input_symbols)
    order = [sy(a) for a in n.input_symbols]
    rows = []
    for k, row in n.transitions.items():
        ent = []
        for a, ts in row.items():
            ent.append(toks(-1 if a == "" else sy(a), len(ts), [st(t) for t in ts]))
        rows.append(toks(st(k), len(row), ent))
    s = toks(len(st.order), len(order), order, st(n.initial_state),
             len(n.final_states), [st(q) for q in n.final_states], len(rows), rows)
    return s, st, sy


class Toks:
    """Reader for a driver answer."""

    def __init__(self, line: str):
        self.t = line.split()
        self.i = 0

    def next(self) -> str:
        x = self.t[self.i]
        self.i += 1
        return x

    def expect(self, kw: str):
        x = self.next()
        if x != kw:
            raise InfraError(f"protocol: expected {kw}, got {x} in {' '.join(self.t)[:200]}")

    def int(self) -> int:
        return int(self.next())

    def optint(self) -> Optional[int]:
        x = self.next()
        return None if x == "N" else int(x)

    def ints(self) -> List[int]:
        n = self.int()
        return [self.int() for _ in range(n)]

    def many(self, f: Callable[[], Any]) -> List[Any]:
        n = self.int()
        return [f() for _ in range(n)]

    def res(self, f: Callable[[], Any]):
        """`ok <v>` | `err <Class>` → ("ok", v) | ("err", Class)"""
        k = self.next()
        if k == "ok":
            return ("ok", f())
        if k == "err":
            return ("err", self.next())
        raise InfraError(f"protocol: expected ok/err, got {k}")

    def at_end(self) -> bool:
        return self.i >= len(self.t)

    def dfa(self) -> dict:
        self.expect("DFA")
        states = self.ints()
        syms = self.ints()
        partial = bool(self.int())
        init = self.int()
        finals = self.ints()
        trans = {}
        for _ in range(self.int()):
            k = self.int()
            row = {}
            for _ in range(self.int()):
                a = self.int()
                row[a] = self.int()
            trans[k] = row
        return dict(states=set(states), syms=set(syms), partial=partial, init=init,
                    finals=set(finals), trans=trans)

    def nfa(self) -> dict:
        self.expect("NFA")
        states = self.ints()
        syms = self.ints()
        init = self.int()
        finals = self.ints()
        trans = {}
        for _ in range(self.int()):
            k = self.int()
            row = {}
            for _ in range(self.int()):
                a = self.int()
                row[a] = set(self.ints())
            trans[k] = row
        return dict(states=set(states), syms=set(syms), init=init, finals=set(finals), trans=trans)


def exc_name(e: BaseException) -> str:
    return type(e).__name__


class CallTimeout(BaseException):
    """Raised by the SIGALRM handler inside `call` (BaseException: library code must not swallow it)."""


CALL_TIMEOUT_S = float(os.environ.get("VERIF_CALL_TIMEOUT", "120"))
NO_ANSWER = "NoAnswerWithinTimeLimit"


def _call_alarm(signum, frame):
    raise CallTimeout()


def call(f: Callable[[], Any]):
    """Run real code; ("ok", value) or ("err", ExceptionClassName).  A call that does not return
    within CALL_TIMEOUT_S (generous: the inputs are tiny) is reported as ("err", NO_ANSWER) instead
    of hanging the check — on a changed tree a loop that no longer terminates is an observable like
    any other, and it then differs from the model / the oracle with this input as replay."""
    import signal
    import threading
    armed = CALL_TIMEOUT_S > 0 and threading.current_thread() is threading.main_thread()
    if armed:
        outer_left = signal.getitimer(signal.ITIMER_REAL)[0]
        if 0 < outer_left <= CALL_TIMEOUT_S:
            armed = False      # an enclosing, tighter watchdog is in charge
    if armed:
        old_handler = signal.signal(signal.SIGALRM, _call_alarm)
        signal.setitimer(signal.ITIMER_REAL, CALL_TIMEOUT_S)
        t0 = time.time()
    try:
        return ("ok", f())
    except CallTimeout:
        if not armed:
            raise
        return ("err", NO_ANSWER)
    except Exception as e:  # noqa: BLE001 - every exception class is an observable (RecursionError too)
        return ("err", exc_name(e))
    finally:
        if armed:
            signal.setitimer(signal.ITIMER_REAL, 0)
            signal.signal(signal.SIGALRM, old_handler)
            if outer_left:
                signal.setitimer(signal.ITIMER_REAL, max(0.05, outer_left - (time.time() - t0)))


# ---------------------------------------------------- plain-data automata
def dfa_plain(d, st: Names, sy: Names) -> dict:
    """Live DFA → plain dict over protocol integers."""
    return dict(states={st(q) for q in d.states}, syms={sy(a) for a in d.input_symbols},
                partial=bool(d.allow_partial), init=st(d.initial_state),
                finals={st(q) for q in d.final_states},
                trans={st(k): {sy(a): st(t) for a, t in row.items()} for k, row in d.transitions.items()})


def nfa_plain(n, st: Names, sy: Names) -> dict:
    return dict(states={st(q) for q in n.states}, syms={sy(a) for a in n.input_symbols},
                init=st(n.initial_state), finals={st(q) for q in n.final_states},
                trans={st(k): {(-1 if a == "" else sy(a)): {st(t) for t in ts} for a, ts in row.items()}
                       for k, row in n.transitions.items()})


def dfa_canon(p: dict) -> tuple:
    """Canonical form of the part of a plain DFA reachable from init (BFS over sorted
    symbols) + number of unreachable states.  Two DFAs whose reachable parts are
    isomorphic get the same value."""
    order = {p["init"]: 0}
    queue = [p["init"]]
    edges = []
    i = 0
    while i < len(queue):
        q = queue[i]
        i += 1
        row = p["trans"].get(q, {})
        for a in sorted(row):
            t = row[a]
            if t not in order:
                order[t] = len(order)
                queue.append(t)
            edges.append((order[q], a, order[t]))
    fin = tuple(sorted(order[q] for q in p["finals"] if q in order))
    unreachable = len(set(p["states"]) - set(order))
    return (len(order), tuple(sorted(p["syms"])), fin, tuple(edges), bool(p["partial"]), unreachable)


def nfa_iso(a: dict, b: dict) -> bool:
    """Isomorphism of two plain NFAs (all states, backtracking with degree signatures)."""
    if len(a["states"]) != len(b["states"]) or a["syms"] != b["syms"]:
        return False
    if len(a["finals"]) != len(b["finals"]):
        return False

    def sig(p, q):
        row = p["trans"].get(q, None)
        out = tuple(sorted((s, len(ts)) for s, ts in (row or {}).items()))
        inn = []
        for k, r in p["trans"].items():
            for s, ts in r.items():
                if q in ts:
                    inn.append(s)
        return (q in p["finals"], q == p["init"], row is None, out, tuple(sorted(inn)))

    sa = {q: sig(a, q) for q in a["states"]}
    sb = {q: sig(b, q) for q in b["states"]}
    if sorted(sa.values()) != sorted(sb.values()):
        return False
    qa = sorted(a["states"], key=lambda q: (sa[q], q))
    cand = {q: [r for r in b["states"] if sb[r] == sa[q]] for q in qa}
    mapping: Dict[int, int] = {}
    used = set()

    def consistent(q, r):
        ra, rb = a["trans"].get(q), b["trans"].get(r)
        if (ra is None) != (rb is None):
            return False
        if ra is None:
            return True
        if set(ra) != set(rb):
            return False
        for s, ts in ra.items():
            us = rb[s]
            if len(ts) != len(us):
                return False
            for t in ts:
                if t in mapping and mapping[t] not in us:
                    return False
        # incoming edges from already mapped states
        for k, m in mapping.items():
            rk, rm = a["trans"].get(k) or {}, b["trans"].get(m) or {}
            for s, ts in rk.items():
                if (q in ts) != (r in rm.get(s, ())):
                    return False
        return True

    def go(i):
        if i == len(qa):
            return True
        q = qa[i]
        for r in cand[q]:
            if r in used:
                continue
            mapping[q] = r
            used.add(r)
            if consistent(q, r) and all(consistent(k, m) for k, m in mapping.items()) and go(i + 1):
                return True
            del mapping[q]
            used.discard(r)
        return False

    return go(0)


# ------------------------------------------------------------------- Ctx
class Ctx:
    MAX_SAMPLES = 6
    MAX_RECORDED = 8

    def __init__(self, prop: str, tier: str, seed: int):
        self.prop = prop
        self.tier = tier
        self.seed = seed
        self.rng = random.Random(seed * 1000003 + int(prop[1:]))
        self.t0 = time.time()
        self.evaluations = 0
        self.distinct: set = set()
        self.samples: List[Any] = []
        self.stats: Dict[str, int] = {}
        self.corr_diffs: List[dict] = []
        self.n_corr_diffs = 0
        self.prop_fails: List[dict] = []
        self.n_prop_fails = 0
        self.known_hits: Dict[str, dict] = {}
        self.exhaustive_parts: List[str] = []
        self.rule = ""
        self.drivers: Dict[str, Driver] = {}
        self.impl_calls = 0
        self.notes: List[str] = []
        self.deadline: Optional[float] = None
        self.scale = 1.0
        self.key_hits: Dict[str, int] = {}

    # --- budgets
    def budget(self, quick: int, thorough: int) -> int:
        scale = float(os.environ.get("VERIF_BUDGET_SCALE", "1")) * self.scale
        return max(1, int((quick if self.tier == "quick" else thorough) * scale))

    def thorough(self) -> bool:
        return self.tier == "thorough"

    def driver(self, name: str) -> Driver:
        if name not in self.drivers:
            self.drivers[name] = Driver(name)
        return self.drivers[name]

    # --- bookkeeping
    def case(self, nontrivial_key: Any = None):
        self.evaluations += 1
        if nontrivial_key is not None:
            self.distinct.add(hashlib.blake2b(repr(nontrivial_key).encode(), digest_size=8).digest())

    def stat(self, name: str, k: int = 1):
        self.stats[name] = self.stats.get(name, 0) + k

    def sample(self, obj: Any):
        if len(self.samples) < self.MAX_SAMPLES:
            self.samples.append(obj)

    def exhaustive(self, what: str):
        self.exhaustive_parts.append(what)

    def corr_diff(self, op: str, case: Any, impl: Any, model: Any):
        """Model and implementation disagree on `case` (not by itself a violation)."""
        self.n_corr_diffs += 1
        if len(self.corr_diffs) < self.MAX_RECORDED:
            self.corr_diffs.append(dict(op=op, case=case, impl=_j(impl), model=_j(model)))

    def prop_fail(self, what: str, replay: dict, finding_key: Optional[str] = None):
        """The property itself fails on the real code at a concrete input."""
        self.n_prop_fails += 1
        if finding_key is not None:
            # hits of one (possibly known) finding class must not crowd out other failures
            self.key_hits[finding_key] = self.key_hits.get(finding_key, 0) + 1
            if self.key_hits[finding_key] > 3:
                return
        if len(self.prop_fails) < 200:
            self.prop_fails.append(dict(what=what, replay=replay, key=finding_key))

    def note(self, s: str):
        self.notes.append(s)


def _j(x: Any) -> Any:
    """Make a value JSON-serialisable."""
    if isinstance(x, (str, int, float, bool)) or x is None:
        return x
    if isinstance(x, dict):
        return {str(k): _j(v) for k, v in x.items()}
    if isinstance(x, (set, frozenset)):
        return sorted((_j(v) for v in x), key=repr)
    if isinstance(x, (list, tuple)):
        return [_j(v) for v in x]
    return repr(x)


def jsonable(x: Any) -> Any:
    return _j(x)


# ------------------------------------------------------ describing automata
def describe_dfa(d) -> dict:
    return dict(kind="DFA", states=_j(d.states), input_symbols=_j(d.input_symbols),
                transitions={repr(k): {a: repr(t) for a, t in row.items()} for k, row in d.transitions.items()},
                initial_state=repr(d.initial_state), final_states=_j({repr(q) for q in d.final_states}),
                allow_partial=bool(d.allow_partial), python=repr(d))


def describe_nfa(n) -> dict:
    return dict(kind="NFA", python=repr(n))


def guarded(fn):
    """Decorator for per-case functions `f(ctx, ...)` of the ops modules: an exception raised by
    harness code while digesting what the real code returned (typically: the code now returns a
    value of an unexpected shape) is recorded as a correspondence difference for that case and
    the run goes on — it must neither abort the search for a failing input nor be mistaken for an
    infrastructure error.  InfraError (driver died, protocol error) still propagates."""
    import functools
    import traceback

    @functools.wraps(fn)
    def wrapper(ctx, *args, **kw):
        try:
            return fn(ctx, *args, **kw)
        except InfraError:
            raise
        except RecursionError:
            raise
        except Exception as e:  # noqa: BLE001
            tb = traceback.format_exc().strip().splitlines()[-6:]
            ctx.stat("harness_exception")
            ctx.corr_diff("harness-exception:" + fn.__name__,
                          dict(args=[repr(a)[:300] for a in args]), f"{type(e).__name__}: {e}", tb)
            return None
    return wrapper
