"""Shared helpers of the C13 / C14 / C20 checks (driver family drv_dfa_query).

* protocol encoding/decoding of words, word lists, successor arguments;
* independent oracles on the *real* object: brute-force enumeration of the accepted
  words through the real `accepts_input`, length analysis by a 10-line subset
  simulation over the transition table, key-lexicographic sorted filters;
* RNG instrumentation of `automata.fa.dfa.Random` (patched from outside, no source change);
* extra DFA generators (finite languages, extra rows keyed by non-states, …).
"""
from __future__ import annotations

import itertools
import random
import signal
from fractions import Fraction
from typing import Any, Callable, Dict, Iterable, List, Optional, Sequence, Tuple

import automata.fa.dfa as dfa_mod
from automata.fa.dfa import DFA

from harness import gen
from harness.common import InfraError, Names, Toks, enc_dfa, enc_word, sym_names, toks

DRV = "drv_dfa_query"


# ------------------------------------------------------------------ wall-clock guard for real calls
TIMEOUT_S = 10
TIMEOUTS = 0


class _Timeout(Exception):
    pass


def _alarm(signum, frame):
    raise _Timeout()


MEM_GROWTH_LIMIT = 1 << 29      # bytes of resident memory a single guarded call may add
MEM_TOTAL_LIMIT = 3 << 30       # resident memory of the harness process above which every guarded call is ended
_PAGE = 4096


def _rss() -> int:
    try:
        with open("/proc/self/statm") as fh:
            return int(fh.read().split()[1]) * _PAGE
    except Exception:  # noqa: BLE001 - no procfs: only the wall-clock guard remains
        return 0


def guarded(f, seconds: float = None):
    """Run a real library call under a wall-clock AND memory guard: a broken loop (mutant, regression)
    must become an observable ("err", "_Timeout"), not a hanging check — and a loop that allocates
    while it spins (e.g. one cache level per round) must not exhaust the machine before the clock
    runs out: the timer fires four times a second and also ends the call when its resident memory
    grew by more than MEM_GROWTH_LIMIT (or the process is above MEM_TOTAL_LIMIT)."""
    global TIMEOUTS
    import time
    from harness.common import call
    t_end = time.monotonic() + (seconds or TIMEOUT_S)
    rss0 = _rss()

    def tick(signum, frame):
        if time.monotonic() >= t_end or _rss() - rss0 > MEM_GROWTH_LIMIT or _rss() > MEM_TOTAL_LIMIT:
            signal.setitimer(signal.ITIMER_REAL, 0)
            raise _Timeout()

    signal.signal(signal.SIGALRM, tick)
    signal.setitimer(signal.ITIMER_REAL, min(0.25, seconds or TIMEOUT_S), 0.25)
    try:
        r = call(f)
    finally:
        signal.setitimer(signal.ITIMER_REAL, 0)
    if r == ("err", "_Timeout"):
        TIMEOUTS += 1
    return r


# ------------------------------------------------------------------ decoding
def rd_word(t: Toks) -> Tuple[int, ...]:
    return tuple(t.ints())


def rd_words(t: Toks) -> List[Tuple[int, ...]]:
    return t.many(lambda: rd_word(t))


def rd_res(t: Toks, f: Callable[[], Any]):
    return t.res(f)


def word_to_ints(sy: Names, w: str) -> Tuple[int, ...]:
    return tuple(sy(c) for c in w)


def words_to_ints(sy: Names, ws: Iterable[str]) -> List[Tuple[int, ...]]:
    return [word_to_ints(sy, w) for w in ws]


# ------------------------------------------------------------------ oracles on the real object
def brute_words(d: DFA, max_len: int) -> Dict[int, List[str]]:
    """All accepted words of every length ≤ max_len, by asking the real accepts_input
    about every word over the alphabet (sorted by code point within a length)."""
    sy = sorted(d.input_symbols)
    out: Dict[int, List[str]] = {}
    for k in range(max_len + 1):
        out[k] = ["".join(t) for t in itertools.product(sy, repeat=k) if d.accepts_input("".join(t))]
    return out


def length_profile(d: DFA, upto: int) -> List[bool]:
    """has[k] = some word of length k is accepted (subset simulation over the table;
    does not use any library algorithm)."""
    cur = {d.initial_state}
    has = []
    for _ in range(upto + 1):
        has.append(bool(cur & d.final_states))
        nxt = set()
        for q in cur:
            nxt.update(d.transitions[q].values())
        cur = nxt
    return has


def language_shape(d: DFA) -> dict:
    """empty / finite / min / max length of the language, from the length profile:
    with n states the language is infinite iff some length in [n, 2n) is accepted."""
    n = len(d.states)
    has = length_profile(d, 2 * n)
    lens = [k for k, h in enumerate(has) if h]
    empty = not lens
    infinite = any(n <= k < 2 * n for k in lens)
    return dict(empty=empty, finite=not infinite, min=(lens[0] if lens else None),
                max=(None if (infinite or empty) else max(lens)))


def key_lex(keymap: Dict[str, int]) -> Callable[[str], List[int]]:
    return lambda w: [keymap[c] for c in w]


def succ_oracle(d: DFA, start: Optional[str], strict: bool, keymap: Dict[str, int], reverse: bool,
                min_len: int, max_len: Optional[int], shape: dict) -> List[str]:
    """The sorted filter of the window set (requires max_len or a finite language)."""
    hi = max_len if max_len is not None else shape["max"]
    if shape["empty"]:
        return []
    if shape["finite"]:
        hi = shape["max"] if hi is None else min(hi, shape["max"])
    bw = brute_words(d, hi)
    kl = key_lex(keymap)
    W = [w for k in range(min_len, hi + 1) for w in bw.get(k, [])]
    if start is not None:
        ks = kl(start)
        if reverse:
            W = [w for w in W if kl(w) < ks or (not strict and w == start)]
        else:
            W = [w for w in W if kl(w) > ks or (not strict and w == start)]
    return sorted(W, key=kl, reverse=reverse)


# ------------------------------------------------------------------ RNG instrumentation
class RecordingRandom(random.Random):
    """Drop-in for `random.Random` inside automata.fa.dfa: records every randint result and
    notices when the code draws through any other RNG method."""
    log: List[Tuple[int, int, int]] = []
    other_api = False
    _inside = False

    def randint(self, a, b):
        RecordingRandom._inside = True
        try:
            r = super().randint(a, b)
        finally:
            RecordingRandom._inside = False
        RecordingRandom.log.append((a, b, r))
        return r

    def random(self):
        if not RecordingRandom._inside:
            RecordingRandom.other_api = True
        return super().random()

    def getrandbits(self, k):
        if not RecordingRandom._inside:
            RecordingRandom.other_api = True
        return super().getrandbits(k)


class ScriptedRandom(random.Random):
    """Plays a prescribed list of randint outcomes; beyond the script returns the lower
    bound and records the range, so that a caller can enumerate the whole outcome tree.
    Any other RNG method still works (real randomness) but sets `other_api`: the outcome
    tree can then not be enumerated."""
    script: List[int] = []
    ranges: List[Tuple[int, int]] = []
    other_api = False

    def __init__(self, seed=None):
        super().__init__(0)
        self.i = 0

    def randint(self, a, b):
        if b < a:
            raise ValueError("empty range for randint")
        ScriptedRandom.ranges.append((a, b))
        r = ScriptedRandom.script[self.i] if self.i < len(ScriptedRandom.script) else a
        self.i += 1
        return r

    def random(self):
        ScriptedRandom.other_api = True
        return super().random()

    def getrandbits(self, k):
        ScriptedRandom.other_api = True
        return super().getrandbits(k)


class patched_random:
    def __init__(self, cls):
        self.cls = cls

    def __enter__(self):
        self.old = dfa_mod.Random
        dfa_mod.Random = self.cls
        return self

    def __exit__(self, *a):
        dfa_mod.Random = self.old


def random_word_recorded(d: DFA, k: int, seed: int):
    """(("ok", word) | ("err", cls), choices)"""
    RecordingRandom.log = []
    RecordingRandom.other_api = False
    with patched_random(RecordingRandom):
        try:
            r = ("ok", d.random_word(k, seed=seed))
        except Exception as e:  # noqa: BLE001
            r = ("err", type(e).__name__)
    return r, [x[2] for x in RecordingRandom.log], list(RecordingRandom.log)


def random_word_scripted(d: DFA, k: int, script: Sequence[int]):
    ScriptedRandom.script = list(script)
    ScriptedRandom.ranges = []
    ScriptedRandom.other_api = False
    with patched_random(ScriptedRandom):
        try:
            r = ("ok", d.random_word(k))
        except Exception as e:  # noqa: BLE001
            r = ("err", type(e).__name__)
    return r, list(ScriptedRandom.ranges)


def exact_distribution(d: DFA, k: int, max_paths: int = 4000):
    """Exhaust the outcome tree of the RNG: {result: probability} as exact fractions,
    each randint(a, b) outcome having probability 1/(b-a+1).  None if too large."""
    dist: Dict[Any, Fraction] = {}
    paths = 0
    stack: List[Tuple[List[int], Fraction]] = [([], Fraction(1))]
    while stack:
        script, p = stack.pop()
        r, ranges = random_word_scripted(d, k, script)
        if ScriptedRandom.other_api:
            return None  # the code draws through another RNG method: outcomes cannot be enumerated
        if len(ranges) > len(script):
            # the run asked for more outcomes than scripted: branch on the first unscripted one
            a, b = ranges[len(script)]
            for c in range(a, b + 1):
                stack.append((script + [c], p / (b - a + 1)))
            continue
        paths += 1
        if paths > max_paths:
            return None
        dist[r] = dist.get(r, Fraction(0)) + p
    return dist


# ------------------------------------------------------------------ generators
def finite_dfa(rng: random.Random) -> DFA:
    alpha = list(rng.choice(gen.ALPHABETS))[: rng.randint(1, 3)]
    n = rng.randint(0, 6)
    words = set()
    for _ in range(n):
        words.add("".join(rng.choice(alpha) for _ in range(rng.randint(0, 4))))
    return DFA.from_finite_language(set(alpha), words)


def acyclic_dfa(rng: random.Random, max_states: int = 6) -> DFA:
    """Random DFA whose reachable part is mostly a DAG (finite language) but with
    unreachable cycles, dead cycles (reachable, not co-accessible) and dead ends."""
    n = rng.randint(1, max_states)
    sy = list(rng.choice(gen.ALPHABETS))
    names = gen.name_pool(rng, n)[:n]
    n = len(names)
    order = list(names)
    rng.shuffle(order)
    pos = {q: i for i, q in enumerate(order)}
    dead_cycle = rng.random() < 0.4
    trans: Dict[Any, Dict[str, Any]] = {}
    finals = {q for q in names if rng.random() < 0.4}
    for q in names:
        row = {}
        for a in sy:
            r = rng.random()
            later = [t for t in names if pos[t] > pos[q]]
            if r < 0.55 and later:
                row[a] = rng.choice(later)
            elif r < 0.65 and dead_cycle:
                row[a] = rng.choice(names)  # may create cycles
        items = list(row.items())
        rng.shuffle(items)
        trans[q] = dict(items)
    keys = list(names)
    rng.shuffle(keys)
    return DFA(states=set(names), input_symbols=set(sy), transitions={k: trans[k] for k in keys},
               initial_state=order[0] if rng.random() < 0.8 else rng.choice(names), final_states=finals,
               allow_partial=True)


def with_extra_row(rng: random.Random, d: DFA) -> DFA:
    """The same DFA with an additional transition row keyed by a non-state (passes
    validation: only the symbols and end states of rows are checked)."""
    extra = "ZZ" if "ZZ" not in d.states else ("ZZ", 1)
    trans = {k: dict(v) for k, v in d.transitions.items()}
    row = {}
    for a in d.input_symbols:
        if rng.random() < 0.7:
            row[a] = rng.choice(list(d.states))
    items = list(trans.items())
    items.insert(rng.randrange(len(items) + 1), (extra, row))
    return DFA(states=set(d.states), input_symbols=set(d.input_symbols), transitions=dict(items),
               initial_state=d.initial_state, final_states=set(d.final_states), allow_partial=True)


def shaped_dfa(rng: random.Random, max_states: int = 6) -> Tuple[DFA, str]:
    r = rng.random()
    if r < 0.45:
        d, kind = gen.rand_dfa(rng, max_states), "rand"
    elif r < 0.7:
        d, kind = acyclic_dfa(rng, max_states), "acyclic"
    elif r < 0.85:
        d, kind = finite_dfa(rng), "finite_language"
    elif r < 0.9:
        sy = set(rng.choice(gen.ALPHABETS))
        d, kind = rng.choice([DFA.empty_language(sy), DFA.universal_language(sy)]), "empty_or_universal"
    else:
        d, kind = gen.rand_dfa(rng, max_states, partial=True), "rand_partial"
    if rng.random() < 0.06:
        try:
            d = with_extra_row(rng, d)
            kind += "+extra_row"
        except Exception:  # noqa: BLE001
            pass
    return d, kind


def rand_key(rng: random.Random, symbols: Sequence[str]) -> Dict[str, int]:
    """An injective key on the alphabet: identity order, reversed, or a random permutation
    (values are spread so that they are not the ranks themselves)."""
    sy = sorted(symbols)
    r = rng.random()
    if r < 0.4:
        return {c: i for i, c in enumerate(sy)}
    perm = list(range(len(sy)))
    if r < 0.6:
        perm.reverse()
    else:
        rng.shuffle(perm)
    scale = rng.choice([1, 3, -2])
    return {c: scale * p - (5 if scale == 3 else 0) for c, p in zip(sy, perm)}


def enc_succ_args(sy: Names, start: Optional[str], strict: bool, reverse: bool, min_len: int,
                  max_len: Optional[int], keymap: Dict[str, int]) -> str:
    keys = [keymap.get(c, 0) for c in sy.order]
    return toks("N" if start is None else enc_word(sy, start), bool(strict), bool(reverse), min_len,
                "N" if max_len is None else max_len, len(keys), keys)


def real_key(keymap: Optional[Dict[str, int]]):
    if keymap is None:
        return None
    return lambda c: keymap[c]
