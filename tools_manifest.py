#!/usr/bin/env python3
"""Regenerate MANIFEST.json from the table below (keeps it schema-valid at all times)."""
import json, os
HERE = os.path.dirname(os.path.abspath(__file__))

NOTE_COMMON = ("Trusted: Lean 4.33 kernel (+leanchecker in the thorough tier), Mathlib, axioms ⊆ {propext, Classical.choice, "
               "Quot.sound} audited by #print axioms on every run; the hand-written Lean model is tied to /repo by the "
               "differential correspondence run (bounded-exhaustive + shaped random) and by tables regenerated from the "
               "source (harness/extract_tables.py); CPython containers, networkx, frozendict, cached_method, random, re, "
               "itertools are modelled, not verified.")

import glob
CLAIMED = {}
for path in sorted(glob.glob(os.path.join(HERE, "harness", "registry", "C*.json"))):
    reg = json.load(open(path))
    if reg.get("manifest"):
        CLAIMED[reg["property"]] = reg["manifest"]

PENDING_REASON = "check under construction in this session (model + theorems + correspondence not yet registered); see DESIGN.md §7"

def main():
    props = [json.loads(l) for l in open(os.path.join(HERE, "properties.jsonl"))]
    checks, na = [], []
    for p in props:
        pid = p["id"]
        if pid in CLAIMED:
            c = CLAIMED[pid]
            checks.append(dict(
                property_id=pid,
                quick_cmd=f"python3 check.py {pid} --tier quick",
                thorough_cmd=f"python3 check.py {pid} --tier thorough",
                evidence_file=f"evidence/{pid}.json",
                replay_cmd_template=f"python3 check.py {pid} --replay {{path}}",
                engine="lean4-model+correspondence",
                level_claimed=dict(category=c.get("category", "proof"), text=c["text"], design_ref=c["design_ref"]),
                level_note=c.get("note", NOTE_COMMON),
                technique=c["technique"],
            ))
        else:
            na.append(dict(property_id=pid, reason=PENDING_REASON))
    man = dict(
        version=1,
        setup_cmd="python3 check.py --setup",
        hooks=dict(guard="CALEB531_AUTOMATA_VERIF", enable="no source hooks are needed; checks import /repo's working tree in-process (PYTHONPATH=/repo)",
                   baseline_off_cmd="cd /repo && /venv/bin/python -m pytest -ra -q -p no:cacheprovider --timeout=900 --continue-on-collection-errors",
                   source_commits=[], add_only=True),
        engines=[dict(name="lean4-model+correspondence", path="lean/ + harness/",
                      serves_properties=sorted(CLAIMED),
                      kind_free_text="Lean 4 executable model + machine-checked theorems (lake build, #print axioms audit) tied to /repo by a line-protocol differential correspondence harness and by tables regenerated from the source")],
        checks=checks,
        notes="Every check: regenerate tables from /repo, lake build, axiom audit, correspondence (corpus → bounded-exhaustive → shaped random), verdict per DESIGN.md §6. Exit 2 = infrastructure error.",
        not_applicable=na,
    )
    json.dump(man, open(os.path.join(HERE, "MANIFEST.json"), "w"), indent=1, ensure_ascii=False)
    print(f"MANIFEST.json: {len(checks)} checks, {len(na)} not yet claimed")

if __name__ == "__main__":
    main()
