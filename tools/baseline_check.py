#!/usr/bin/env python3
"""Run the pinned test command on a repo tree and compare with /root/.vp/BASELINE.json."""
import json, subprocess, sys, tempfile, os, xml.etree.ElementTree as ET
repo = sys.argv[1] if len(sys.argv) > 1 else "/repo"
base = json.load(open("/root/.vp/BASELINE.json"))
with tempfile.TemporaryDirectory() as td:
    xml = os.path.join(td, "j.xml")
    subprocess.run(["/venv/bin/python", "-m", "pytest", "-ra", "-q", "-p", "no:cacheprovider", "--timeout=900",
                    "--continue-on-collection-errors", f"--junitxml={xml}"], cwd=repo,
                   stdout=subprocess.DEVNULL, stderr=subprocess.DEVNULL, env=dict(os.environ, PYTHONPATH=repo))
    passed = set()
    for tc in ET.parse(xml).getroot().iter("testcase"):
        if not any(ch.tag in ("failure", "error", "skipped") for ch in tc):
            passed.add(f"{tc.get('classname')}::{tc.get('name')}")
missing = sorted(set(base["stable_pass"]) - passed)
print(f"passed={len(passed)} baseline={len(base['stable_pass'])} missing_from_baseline={len(missing)}")
for m in missing[:20]:
    print("  MISSING", m)
sys.exit(1 if missing else 0)
