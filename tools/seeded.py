#!/usr/bin/env python3
"""Run /verif checks against the seeded breaking changes in /verif/seeded/<id>/.

    python3 tools/seeded.py                 # all seeded changes, quick tier of the property's check
    python3 tools/seeded.py <id> [--tier thorough] [--props C04,C05] [--jobs 4] [--tests]
    python3 tools/seeded.py --dir controls [...]   # the harmless rewrites in /verif/controls/<id>/:
                                                    # here the expected verdict is OK (exit 0)

Each change is applied to a scratch git worktree of /repo under /tmp (never to /repo),
the demonstration is run on the clean and on the changed tree, the check(s) run with
VERIF_REPO pointing at the changed tree, and the worktree is removed again.
Results are printed and written to seeded/RESULTS.json.
"""
import json
import os
import subprocess
import sys
import tempfile

HERE = os.path.dirname(os.path.dirname(os.path.abspath(__file__)))
SEEDED = os.path.join(HERE, "seeded")


def sh(cmd, **kw):
    return subprocess.run(cmd, stdout=subprocess.PIPE, stderr=subprocess.STDOUT, text=True, **kw)


def run_one(sid, tier, props_override=None):
    d = os.path.join(SEEDED, sid)
    meta = json.load(open(os.path.join(d, "meta.json")))
    props = props_override or meta.get("checks") or [meta["property"]]
    wt = tempfile.mkdtemp(prefix=f"seed_{sid}_", dir="/tmp")
    os.rmdir(wt)
    # prefer the current HEAD of /repo; fall back to the commit the change was written against
    base = "HEAD"
    if sh(["git", "-C", "/repo", "apply", "--check", os.path.join(d, "patch.diff")]).returncode:
        base = meta.get("base", "HEAD")
    r = sh(["git", "-C", "/repo", "worktree", "add", "-q", "--detach", wt, base])
    if r.returncode:
        return dict(id=sid, error="worktree: " + r.stdout)
    out = dict(id=sid, property=meta["property"], checks={}, applied_on=base)
    try:
        demo = os.path.join(d, "demo.py")
        env = dict(os.environ, PYTHONPATH=wt)
        if os.path.exists(demo):
            out["demo_clean"] = sh(["/venv/bin/python", demo], env=env).returncode
        r = sh(["git", "-C", wt, "apply", os.path.join(d, "patch.diff")])
        if r.returncode:
            return dict(id=sid, error="apply: " + r.stdout)
        if os.path.exists(demo):
            out["demo_mutated"] = sh(["/venv/bin/python", demo], env=env).returncode
        if TESTS:
            r = sh(["python3", os.path.join(HERE, "tools", "baseline_check.py"), wt])
            out["baseline_tests"] = r.stdout.strip().splitlines()[0] if r.stdout.strip() else "?"
        for p in props:
            e = dict(os.environ, VERIF_REPO=wt)
            r = sh(["python3", os.path.join(HERE, "check.py"), p, "--tier", tier], env=e, cwd=HERE)
            lines = [l for l in r.stdout.splitlines() if l.startswith(("VIOLATION", "OK", "INFRA"))]
            detail = [l for l in r.stdout.splitlines() if l.startswith("  ")][:2]
            out["checks"][p] = dict(rc=r.returncode, line=(lines[0] if lines else r.stdout[-300:]), detail=detail)
    finally:
        sh(["git", "-C", "/repo", "worktree", "remove", "--force", wt])
    return out


TESTS = False


def main():
    global TESTS
    args = sys.argv[1:]
    if "--tests" in args:
        TESTS = True
        args.remove("--tests")
    global SEEDED
    jobs = 1
    if "--dir" in args:
        i = args.index("--dir")
        SEEDED = os.path.join(HERE, args[i + 1])
        del args[i:i + 2]
    out_name = "RESULTS.json"
    if "--out" in args:      # e.g. --out MATRIX.json --props all : every check against every change
        i = args.index("--out")
        out_name = args[i + 1]
        del args[i:i + 2]
    if "--jobs" in args:
        i = args.index("--jobs")
        jobs = int(args[i + 1])
        del args[i:i + 2]
    tier = "quick"
    props = None
    ids = []
    i = 0
    while i < len(args):
        if args[i] == "--tier":
            tier = args[i + 1]
            i += 2
        elif args[i] == "--props":
            props = args[i + 1].split(",")
            if props == ["all"]:
                props = [f"C{k:02d}" for k in range(1, 21)]
            i += 2
        else:
            ids.append(args[i])
            i += 1
    if not ids:
        ids = sorted(x for x in os.listdir(SEEDED) if os.path.isdir(os.path.join(SEEDED, x)))
    results = []
    from concurrent.futures import ThreadPoolExecutor
    with ThreadPoolExecutor(jobs) as ex:
        for r in ex.map(lambda sid: run_one(sid, tier, props), ids):
            results.append(r)
            print(json.dumps(r))
            sys.stdout.flush()
    path = os.path.join(SEEDED, out_name)
    old = {}
    if os.path.exists(path):
        old = {r["id"]: r for r in json.load(open(path))}
    for r in results:
        if r["id"] in old and "baseline_tests" in old[r["id"]] and "baseline_tests" not in r:
            r["baseline_tests"] = old[r["id"]]["baseline_tests"]
        old[r["id"]] = r
    json.dump(sorted(old.values(), key=lambda r: r["id"]), open(path, "w"), indent=1)


if __name__ == "__main__":
    main()
