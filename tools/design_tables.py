#!/usr/bin/env python3
"""Print the two generated tables of DESIGN.md §0: per-property status (from
harness/registry/*.json + evidence/*.json) and seeded changes vs. checks (from seeded/)."""
import glob, io, json, os, re, sys
HERE = os.path.dirname(os.path.dirname(os.path.abspath(__file__)))
_out = io.StringIO()
_sections = {}
def section(name):
    """Everything printed after this call goes to DESIGN.md's <!-- BEGIN:name --> block."""
    global _out
    _out = io.StringIO()
    _sections[name] = _out
def print(*a):  # noqa: A001
    _out.write(" ".join(str(x) for x in a) + "\n")
section("status")
print("| prop | theorems proved | partial obligations | quick run (seed of committed evidence): evaluations / distinct non-trivial / wall |")
print("|---|---|---|---|")
for path in sorted(glob.glob(os.path.join(HERE, "harness", "registry", "C*.json"))):
    r = json.load(open(path))
    pid = r["property"]
    ev = {}
    try:
        ev = json.load(open(os.path.join(HERE, "evidence", pid + ".json")))
    except Exception:
        pass
    cov = ev.get("coverage", {})
    part = "; ".join(p["name"] for p in r.get("partial", [])) or "—"
    print(f"| {pid} | {len(r.get('proved', []))} | {part} | {ev.get('tier','?')}: {cov.get('evaluations','?')} / {cov.get('distinct_nontrivial','?')} / {ev.get('wall_s','?')} s |")
section("seeded")
res = {}
p = os.path.join(HERE, "seeded", "RESULTS.json")
if os.path.exists(p):
    res = {r["id"]: r for r in json.load(open(p))}
print("| seeded change | property | what it needs to manifest | tests still pass | demo clean/changed | check verdicts |")
print("|---|---|---|---|---|---|")
for d in sorted(glob.glob(os.path.join(HERE, "seeded", "*", "meta.json"))):
    sid = os.path.basename(os.path.dirname(d))
    m = json.load(open(d))
    r = res.get(sid, {})
    verdicts = []
    for k, v in r.get("checks", {}).items():
        line = v.get("line", "")
        if line.startswith("VIOLATION"):
            verdicts.append(f"{k}: VIOLATION" + (" (no-failing-input-found)" if "no-failing-input-found" in line else " with replay"))
        elif line.startswith("OK"):
            verdicts.append(f"{k}: silent")
        else:
            verdicts.append(f"{k}: {line[:40]}")
    needs = (m.get("needs") or m.get("summary") or "")[:160].replace("|", "\\|").replace("\n", " ")
    print(f"| {sid} | {m.get('property')} | {needs} | {r.get('baseline_tests','?')} | {r.get('demo_clean','-')}/{r.get('demo_mutated','-')} | {'; '.join(verdicts)} |")

section("controls")
cres = {}
p = os.path.join(HERE, "controls", "RESULTS.json")
if os.path.exists(p):
    cres = {r["id"]: r for r in json.load(open(p))}
print("| harmless rewrite | kind | what it changes | demo clean/changed | check verdicts |")
print("|---|---|---|---|---|")
for d in sorted(glob.glob(os.path.join(HERE, "controls", "*", "meta.json"))):
    sid = os.path.basename(os.path.dirname(d))
    m = json.load(open(d))
    r = cres.get(sid, {})
    verdicts = []
    for k, v in r.get("checks", {}).items():
        line = v.get("line", "")
        if line.startswith("VIOLATION"):
            verdicts.append(f"{k}: VIOLATION" + (" (no-failing-input-found)" if "no-failing-input-found" in line else " with replay"))
        elif line.startswith("OK"):
            verdicts.append(f"{k}: OK")
        else:
            verdicts.append(f"{k}: {line[:40]}")
    what = (m.get("summary") or "")[:200].replace("|", "\\|").replace("\n", " ")
    print(f"| {sid} | {m.get('kind','')} | {what} | {r.get('demo_clean','-')}/{r.get('demo_mutated','-')} | {'; '.join(verdicts)} |")

section("fixed")
kf = json.load(open(os.path.join(HERE, "known_findings.json")))
print("| id | property (also) | /repo commit | subject | failing input before the repair |")
print("|---|---|---|---|---|")
for f in kf.get("fixed", []):
    line = f.get("line", "")
    what = line.split(f.get("commit", "\0"), 1)[-1].strip()[:300].replace("|", "\\|")
    also = f" ({', '.join(f['also'])})" if f.get("also") else ""
    print(f"| {f.get('id')} | {f.get('property')}{also} | `{f.get('commit')}` | {f.get('subject','').replace('|', chr(92)+'|')} | {what} |")
section("open")
print("| id | property | key | what fails | why recorded rather than repaired |")
print("|---|---|---|---|---|")
for f in kf.get("findings", []):
    print(f"| {f.get('id')} | {f.get('property')} | `{f.get('key')}` | {f.get('what','')[:420].replace('|', chr(92)+'|')} | {f.get('why_not_fixed','')[:420].replace('|', chr(92)+'|')} |")

import builtins
if "--write" in sys.argv:
    path = os.path.join(HERE, "DESIGN.md")
    text = open(path).read()
    for name, buf in _sections.items():
        pat = re.compile(r"(<!-- BEGIN:%s -->\n).*?(<!-- END:%s -->)" % (name, name), re.S)
        if not pat.search(text):
            builtins.print(f"marker {name} missing in DESIGN.md")
            continue
        text = pat.sub(lambda m: m.group(1) + buf.getvalue() + m.group(2), text)
    open(path, "w").write(text)
    builtins.print("DESIGN.md tables rewritten")
else:
    for name, buf in _sections.items():
        builtins.print(f"## {name}\n" + buf.getvalue())
