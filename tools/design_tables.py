#!/usr/bin/env python3
"""Print the two generated tables of DESIGN.md §0: per-property status (from
harness/registry/*.json + evidence/*.json) and seeded changes vs. checks (from seeded/)."""
import glob, json, os
HERE = os.path.dirname(os.path.dirname(os.path.abspath(__file__)))
print("| prop | theorems proved | partial obligations | quick run (seed of committed evidence): evaluations / distinct non-trivial / wall |")
print("|---|---|---|---|")
for path in sorted(glob.glob(os.path.join(HERE, "harness", "registry", "C*.json"))):
    r = json.load(open(path))
    pid = r["property"]
    ev = {}
    try:
        ev = json.load(open(os.path.join(HERE, "evidence", pid + ".json")))
    except Exception:
        pass
    cov = ev.get("coverage", {})
    part = "; ".join(p["name"] for p in r.get("partial", [])) or "—"
    print(f"| {pid} | {len(r.get('proved', []))} | {part} | {ev.get('tier','?')}: {cov.get('evaluations','?')} / {cov.get('distinct_nontrivial','?')} / {ev.get('wall_s','?')} s |")
print()
res = {}
p = os.path.join(HERE, "seeded", "RESULTS.json")
if os.path.exists(p):
    res = {r["id"]: r for r in json.load(open(p))}
print("| seeded change | property | what it needs to manifest | tests still pass | demo clean/changed | check verdicts |")
print("|---|---|---|---|---|---|")
for d in sorted(glob.glob(os.path.join(HERE, "seeded", "*", "meta.json"))):
    sid = os.path.basename(os.path.dirname(d))
    m = json.load(open(d))
    r = res.get(sid, {})
    verdicts = []
    for k, v in r.get("checks", {}).items():
        line = v.get("line", "")
        if line.startswith("VIOLATION"):
            verdicts.append(f"{k}: VIOLATION" + (" (no-failing-input-found)" if "no-failing-input-found" in line else " with replay"))
        elif line.startswith("OK"):
            verdicts.append(f"{k}: silent")
        else:
            verdicts.append(f"{k}: {line[:40]}")
    needs = (m.get("needs") or m.get("summary") or "")[:160].replace("|", "\\|").replace("\n", " ")
    print(f"| {sid} | {m.get('property')} | {needs} | {r.get('baseline_tests','?')} | {r.get('demo_clean','-')}/{r.get('demo_mutated','-')} | {'; '.join(verdicts)} |")
