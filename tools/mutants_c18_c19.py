"""Mutants used to validate the C18 / C19 checks (see notes/C18.md, notes/C19.md).
Usage: python3 tools/mutants_c18_c19.py <mutant-name|any-label> <C18|C19> [quick|thorough] [base-commit]
Applies the named edit to a fresh worktree of /repo (or just checks out <base-commit> when the name is
not a mutant, e.g. `pre_922a233 C19 quick 922a233`), runs check.py against it and removes the worktree.
Afterwards run `python3 harness/extract_tables.py` to restore the generated tables for /repo."""
import os, re, subprocess, sys
MUT = {}
def mut(name, file):
    def deco(f):
        MUT[name] = (file, f); return f
    return deco
def rep(s, old, new, count=1):
    assert old in s, f"pattern not found: {old[:60]}"
    return s.replace(old, new, count)

@mut("m38", "automata/base/utils.py")
def _(s): return rep(s, "return tuple(freeze_value(element) for element in value)", "return tuple(value)")
@mut("m39", "automata/fa/nfa.py")
def _(s): return rep(s, 'transition[""] = set(transition.get("", set()))',
    'old = transition.get("", set())\n            transition[""] = old if isinstance(old, set) else set(old)')
@mut("m40", "automata/tm/dtm.py")
def _(s): return rep(s, "if result_symbol not in self.tape_symbols:", "if result_symbol not in self.tape_symbols and result_symbol not in self.input_symbols:")
@mut("c19_nfa_no_init_check", "automata/fa/nfa.py")
def _(s): return rep(s, "        self._validate_initial_state()\n        self._validate_initial_state_transitions()", "        self._validate_initial_state_transitions()")
@mut("c19_dpda_eps_second", "automata/pda/dpda.py")
def _(s): return rep(s, 'if input_symbol == "":\n            sib_transitions', 'if input_symbol == "" and next(iter(self.transitions[start_state])) == "":\n            sib_transitions')
@mut("c19_mntm_offbyone", "automata/tm/mntm.py")
def _(s): return rep(s, "if len(moves) != self.n_tapes:", "if len(moves) < self.n_tapes or len(moves) > self.n_tapes + 1:")
@mut("c19_gnfa_final_row", "automata/fa/gnfa.py")
def _(s): return rep(s, "            if len(paths) != 0:\n                raise exceptions.InvalidStateError(", "            if False:\n                raise exceptions.InvalidStateError(")
@mut("c19_dtm_dir", "automata/tm/dtm.py")
def _(s): return rep(s, 'if result_direction not in ("L", "N", "R"):', 'if result_direction not in ("L", "R"):')
@mut("c19_result_invalid", "automata/fa/nfa.py")   # option(): forget to add the new state to the state set
def _(s): return rep(s, "        new_states = set(self.states)\n        new_initial_state = self.__class__._add_new_state(new_states)\n\n        # Transitions are the same with a few additions.\n        new_transitions = dict(self.transitions)",
                        "        new_states = set(self.states)\n        new_initial_state = self.__class__._add_new_state(set(new_states))\n\n        # Transitions are the same with a few additions.\n        new_transitions = dict(self.transitions)")
@mut("c19_option_dependent", "automata/fa/dfa.py")  # minify only when validation is on
def _(s): return rep(s, "    def minify(self, retain_names: bool = False) -> Self:", "    def minify(self, retain_names: bool = False) -> Self:\n        import automata.base.config as _c\n        if not _c.should_validate_automata:\n            return self.copy()")
@mut("c18_update_operand", "automata/fa/nfa.py")   # union() .update()s the operand's final-state set under the mutable option
def _(s): return rep(s, "    def reverse(self) -> Self:", "    def reverse(self) -> Self:\n        if isinstance(self.final_states, set):\n            self.final_states.update({self.initial_state})\n            self.final_states.discard(self.initial_state) if False else None", 1)
@mut("c18_copy_drops_partial", "automata/base/automaton.py")
def _(s): return rep(s, "        return self.__class__(**self.input_parameters)", "        params = dict(self.input_parameters)\n        params.pop('allow_partial', None)\n        return self.__class__(**params)")
@mut("c18_setstate_skips", "automata/base/automaton.py")
def _(s): return rep(s, "        self.__init__(**d)  # type: ignore", "        d = dict(d)\n        if 'acceptance_mode' in d:\n            del d['acceptance_mode']\n        self.__init__(**d)  # type: ignore")
@mut("c18_setattr_allows", "automata/base/automaton.py")
def _(s): return rep(s, '        raise AttributeError(f"This {type(self).__name__} is immutable")', '        if name.startswith("_"):\n            return object.__setattr__(self, name, value)\n        raise AttributeError(f"This {type(self).__name__} is immutable")', 1)
@mut("c18_slot_renamed", "automata/pda/npda.py")
def _(s): return rep(s, '        "final_states",\n        "acceptance_mode",\n    )', '        "final_states",\n        "_acceptance_mode",\n        "acceptance_mode",\n    )').replace('"_acceptance_mode",\n        "acceptance_mode",', '"_acceptance_mode",\n        "__dict__",')

def main():
    name, prop = sys.argv[1], sys.argv[2]
    tier = sys.argv[3] if len(sys.argv) > 3 else "quick"
    base = sys.argv[4] if len(sys.argv) > 4 else "HEAD"
    wt = f"/tmp/mut_c18_c19/{name}"
    subprocess.run(["git", "-C", "/repo", "worktree", "remove", "--force", wt], capture_output=True)
    subprocess.run(["git", "-C", "/repo", "worktree", "add", "-q", wt, base], check=True)
    if name in MUT:
        file, f = MUT[name]
        p = os.path.join(wt, file)
        s = open(p).read(); open(p, "w").write(f(s))
    env = dict(os.environ, VERIF_REPO=wt)
    r = subprocess.run(["python3", "check.py", prop, "--tier", tier], cwd=os.path.dirname(os.path.dirname(os.path.abspath(__file__))), env=env, capture_output=True, text=True)
    out = (r.stdout + r.stderr).strip().splitlines()
    print(f"=== {name} [{prop}] exit={r.returncode}")
    for l in out[-6:]: print("   ", l[:400])
    subprocess.run(["git", "-C", "/repo", "worktree", "remove", "--force", wt], capture_output=True)
main()
