#!/usr/bin/env python3
"""Run every claimed check (MANIFEST.json) for several seeds; print one line per run.
    python3 tools/run_all.py [--tier quick] [--seeds 0,1,2,3] [--props C01,C04] [--jobs 4]
"""
import json, os, subprocess, sys, time
from concurrent.futures import ThreadPoolExecutor
HERE = os.path.dirname(os.path.dirname(os.path.abspath(__file__)))
args = sys.argv[1:]
def opt(name, default):
    return args[args.index(name) + 1] if name in args else default
tier = opt("--tier", "quick")
seeds = [int(x) for x in opt("--seeds", "0,1,2,3").split(",")]
jobs = int(opt("--jobs", "4"))
man = json.load(open(os.path.join(HERE, "MANIFEST.json")))
props = [c["property_id"] for c in man["checks"]]
if "--props" in args:
    props = opt("--props", "").split(",")
def one(job):
    p, s = job
    t = time.time()
    r = subprocess.run(["python3", "check.py", p, "--tier", tier], cwd=HERE, env=dict(os.environ, VERIF_SEED=str(s)),
                       stdout=subprocess.PIPE, stderr=subprocess.STDOUT, text=True)
    lines = [l for l in r.stdout.splitlines() if l.startswith(("OK", "VIOLATION", "INFRA", "KNOWN"))]
    return f"{p} seed={s} rc={r.returncode} {time.time()-t:5.1f}s  {(lines[-1] if lines else r.stdout[-200:])[:160]}"
bad = 0
with ThreadPoolExecutor(jobs) as ex:
    for line in ex.map(one, [(p, s) for p in props for s in seeds]):
        print(line, flush=True)
        bad += " rc=0 " not in line
print("ALL OK" if not bad else f"{bad} run(s) not OK")
sys.exit(1 if bad else 0)
