#!/usr/bin/env python3
"""Copy mutation deliverables /tmp/mut/<ID>_out/m<k>/ into seeded/<ID>_m<k>/ (adds base commit)."""
import json, os, shutil, subprocess, sys
HERE = os.path.dirname(os.path.dirname(os.path.abspath(__file__)))
pid = sys.argv[1]
rnd = sys.argv[2] if len(sys.argv) > 2 else ""          # "" = round 1, "w2" = round 2
src = f"/tmp/mut/{pid}_{rnd}out" if rnd else f"/tmp/mut/{pid}_out"
wt = f"/tmp/mut/{pid}_{rnd}" if rnd else f"/tmp/mut/{pid}"
NEUTRAL = rnd == "neutral"      # harmless rewrites: /tmp/neut/<ID>_out/n<k>/ -> controls/<ID>_n<k>/
if NEUTRAL:
    src, wt, rnd = f"/tmp/neut/{pid}_out", f"/tmp/neut/{pid}", ""
base = subprocess.run(["git", "-C", wt, "rev-parse", "--short", "HEAD"], capture_output=True, text=True).stdout.strip()
for k in sorted(os.listdir(src)):
    d = os.path.join(src, k)
    if not (os.path.isdir(d) and os.path.exists(os.path.join(d, "patch.diff"))):
        continue
    dst = os.path.join(HERE, "controls" if NEUTRAL else "seeded", f"{pid}_{rnd}{k}" if rnd else f"{pid}_{k}")
    os.makedirs(dst, exist_ok=True)
    for f in ("patch.diff", "demo.py", "meta.json"):
        if os.path.exists(os.path.join(d, f)):
            shutil.copy(os.path.join(d, f), os.path.join(dst, f))
    mp = os.path.join(dst, "meta.json")
    try:
        meta = json.load(open(mp))
    except Exception:
        meta = {}
    meta.setdefault("property", pid)
    meta["base"] = base
    if NEUTRAL:
        meta["expected"] = "OK (the property still holds; an alarm here is a false alarm or, at best, no-failing-input-found)"
    meta["origin"] = ("independent sub-agent given only the property text and a scratch worktree of /repo"
                      + (f" (round {rnd[1:]}: asked for cooperating edits, call sequences, Python subtleties, rare branches; told what earlier rounds used)" if rnd else ""))
    json.dump(meta, open(mp, "w"), indent=1)
    print("imported", dst)
