#!/usr/bin/env python3
"""Line/branch coverage of the REAL code (/repo/automata) reached by a property's correspondence
run — a measure of generator quality: lines of modelled functions that no generated case executes
are blind spots of the tie between model and code.

    python3 tools/coverage_report.py C04 [C05 ...]      # writes notes/coverage/Cxx.json, prints a summary
"""
import ast, json, os, subprocess, sys, tempfile
HERE = os.path.dirname(os.path.dirname(os.path.abspath(__file__)))
REPO = os.environ.get("VERIF_REPO", "/repo")
SKIP_FUNCS = {"show_diagram", "_repr_mimebundle_", "_get_input_path", "iter_transitions", "_get_state_name",
              "__repr__", "_get_repr_friendly_value", "create_graph", "save_graph", "create_unique_random_id",
              "_get_edge_name", "_get_symbol_configuration", "print", "__str__", "get_symbols_as_str",
              "print_configs", "print_config"}

def func_ranges(path):
    tree = ast.parse(open(path).read())
    out = []
    for node in ast.walk(tree):
        if isinstance(node, (ast.FunctionDef, ast.AsyncFunctionDef)):
            body = node.body
            start = body[0].lineno
            if isinstance(body[0], ast.Expr) and isinstance(getattr(body[0], "value", None), ast.Constant) and isinstance(body[0].value.value, str):
                start = body[1].lineno if len(body) > 1 else body[0].end_lineno + 1
            out.append((node.name, start, node.end_lineno))
    return out

def main():
    for prop in sys.argv[1:]:
        anchors = []
        for l in open(os.path.join(HERE, "properties.jsonl")):
            p = json.loads(l)
            if p["id"] == prop:
                anchors = p["anchors"]["files"]
        with tempfile.TemporaryDirectory() as td:
            data = os.path.join(td, ".coverage")
            env = dict(os.environ, PYTHONPATH=REPO + os.pathsep + HERE, COVERAGE_FILE=data, VERIF_SEED=os.environ.get("VERIF_SEED", "0"),
                       PYTHONHASHSEED="17", PYTHONDONTWRITEBYTECODE="1", VERIF_BUDGET_SCALE=os.environ.get("VERIF_BUDGET_SCALE", "0.5"))
            r = subprocess.run(["/venv/bin/python", "-m", "coverage", "run", "--branch", f"--include={REPO}/automata/*",
                                "-m", "harness.run", prop, "--tier", "quick"], cwd=HERE, env=env,
                               stdout=subprocess.PIPE, stderr=subprocess.STDOUT, text=True)
            last = [l for l in r.stdout.splitlines() if l.startswith(("OK", "VIOLATION", "INFRA"))]
            js = os.path.join(td, "cov.json")
            subprocess.run(["/venv/bin/python", "-m", "coverage", "json", "-o", js, "-q"], cwd=HERE, env=env,
                           stdout=subprocess.DEVNULL, stderr=subprocess.DEVNULL)
            cov = json.load(open(js)) if os.path.exists(js) else {"files": {}}
        subprocess.run(["git", "checkout", "--", f"evidence/{prop}.json"], cwd=HERE, stdout=subprocess.DEVNULL, stderr=subprocess.DEVNULL)
        report = dict(property=prop, run=(last[-1] if last else r.stdout[-300:]), files={})
        print(f"== {prop}: {report['run'][:110]}")
        for rel in anchors:
            path = os.path.join(REPO, rel)
            f = cov["files"].get(path)
            if not f:
                print(f"   {rel}: not executed at all")
                report["files"][rel] = "not executed"
                continue
            missing = set(f["missing_lines"])
            executed = set(f["executed_lines"])
            funcs = {}
            for name, a, b in func_ranges(path):
                if name in SKIP_FUNCS:
                    continue
                lines = set(range(a, b + 1))
                ex, mi = lines & executed, lines & missing
                if not ex and not mi:
                    continue
                if ex and mi:
                    funcs[name] = dict(status="partly", missing=sorted(mi))
                elif not ex:
                    funcs[name] = dict(status="never called", lines=[a, b])
            report["files"][rel] = funcs
            partly = {k: v for k, v in funcs.items() if v["status"] == "partly"}
            never = [k for k, v in funcs.items() if v["status"] == "never called"]
            print(f"   {rel}: partly covered: " + (", ".join(f"{k}{v['missing']}" for k, v in partly.items()) or "—"))
            print(f"      never called: {', '.join(never) or '—'}")
        os.makedirs(os.path.join(HERE, "notes", "coverage"), exist_ok=True)
        json.dump(report, open(os.path.join(HERE, "notes", "coverage", prop + ".json"), "w"), indent=1)

if __name__ == "__main__":
    main()
