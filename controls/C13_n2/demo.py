"""
C13 demo: word counting, enumeration, min/max length, cardinality/len, iteration and
random sampling of a DFA must match the language of the DFA.

Run as:  PYTHONPATH=<tree> /venv/bin/python demo.py

Everything is compared against a brute-force reference written here (own DFA
simulator, enumeration of all words with itertools.product, pumping-lemma test for
finiteness). Uniformity of random_word is checked EXACTLY (not statistically) by
replacing the random number generator with one that explores every outcome of every
random choice and accumulates exact probabilities with Fractions; additionally the
real generator is exercised with many seeds.
"""

import itertools
import random as _random_module
import sys
from fractions import Fraction

import automata.base.exceptions as exceptions
import automata.fa.dfa as dfa_module
from automata.fa.dfa import DFA

RealRandom = _random_module.Random
gen = RealRandom(20260926)

checks = 0


def fail(msg, dfa=None):
    print("PROPERTY VIOLATED:", msg)
    if dfa is not None:
        print(
            "  states=%r\n  input_symbols=%r\n  transitions=%r\n  initial=%r\n  final=%r"
            % (
                set(dfa.states),
                set(dfa.input_symbols),
                {s: dict(t) for s, t in dfa.transitions.items()},
                dfa.initial_state,
                set(dfa.final_states),
            )
        )
    sys.exit(1)


def expect(cond, msg, dfa=None):
    global checks
    checks += 1
    if not cond:
        fail(msg, dfa)


# --------------------------------------------------------------------------
# brute-force reference
# --------------------------------------------------------------------------


class Ref:
    """Reference semantics computed directly from the five components."""

    def __init__(self, states, symbols, transitions, initial, final):
        self.states = set(states)
        self.symbols = sorted(symbols)
        self.transitions = {s: dict(t) for s, t in transitions.items()}
        self.initial = initial
        self.final = set(final)
        self.n = len(self.states)

    def accepts(self, word):
        state = self.initial
        for ch in word:
            row = self.transitions.get(state, {})
            if ch not in row:
                return False
            state = row[ch]
        return state in self.final

    def words(self, k):
        """All accepted words of length k, sorted (brute force over Sigma^k)."""
        return sorted(
            "".join(tup)
            for tup in itertools.product(self.symbols, repeat=k)
            if self.accepts("".join(tup))
        )

    def count(self, k):
        """Number of accepted words of length k by a *forward* path count."""
        vec = {self.initial: 1}
        for _ in range(k):
            nxt = {}
            for state, c in vec.items():
                for target in self.transitions.get(state, {}).values():
                    nxt[target] = nxt.get(target, 0) + c
            vec = nxt
        return sum(c for state, c in vec.items() if state in self.final)

    def accepted_lengths(self, upto):
        """Set of lengths l <= upto such that some word of length l is accepted."""
        result = set()
        current = {self.initial}
        for length in range(upto + 1):
            if current & self.final:
                result.add(length)
            current = {
                target
                for state in current
                for target in self.transitions.get(state, {}).values()
            }
        return result

    def classify(self):
        """Returns (is_empty, is_infinite, min_len, max_len) by the pumping lemma."""
        lengths = self.accepted_lengths(2 * self.n)
        is_empty = not any(length < self.n for length in lengths)
        # L is infinite iff it has a word with n <= |w| < 2n
        is_infinite = any(self.n <= length < 2 * self.n for length in lengths)
        if is_empty:
            # (an empty language cannot be infinite)
            assert not is_infinite
            return True, False, None, None
        min_len = min(lengths)
        max_len = None if is_infinite else max(lengths)
        return False, is_infinite, min_len, max_len


# --------------------------------------------------------------------------
# exhaustive random number generator (exact distribution of random_word)
# --------------------------------------------------------------------------


class _Restart(Exception):
    pass


class Explorer:
    """
    Drives a function that draws random numbers through *all* possible outcomes.
    Every draw with m equally likely outcomes is a choice point; explore() returns
    the exact distribution {result: probability} of the function.
    """

    def __init__(self):
        self.script = []  # list of [chosen_index, arity]
        self.pos = 0
        self.prob = Fraction(1)

    def draw(self, arity):
        if arity <= 0:
            raise ValueError("empty range for draw")
        if self.pos == len(self.script):
            self.script.append([0, arity])
        chosen, recorded_arity = self.script[self.pos]
        assert recorded_arity == arity, "non-deterministic use of the generator"
        self.pos += 1
        self.prob *= Fraction(1, arity)
        return chosen

    def explore(self, fn, budget=3000):
        """Returns None if more than `budget` leaves would have to be visited."""
        dist = {}
        leaves = 0
        while True:
            leaves += 1
            if leaves > budget:
                return None
            self.pos = 0
            self.prob = Fraction(1)
            result = fn()
            del self.script[self.pos:]
            dist[result] = dist.get(result, Fraction(0)) + self.prob
            # advance to the next leaf of the choice tree
            while self.script and self.script[-1][0] + 1 == self.script[-1][1]:
                self.script.pop()
            if not self.script:
                return dist
            self.script[-1][0] += 1


_current_explorer = None


class ExhaustiveRandom:
    """Stand-in for random.Random whose draws are enumerated by an Explorer."""

    def __init__(self, seed=None):
        pass

    def randint(self, a, b):
        return a + _current_explorer.draw(b - a + 1)

    def randrange(self, start, stop=None, step=1):
        if stop is None:
            start, stop = 0, start
        values = range(start, stop, step)
        return values[_current_explorer.draw(len(values))]

    def choice(self, seq):
        return seq[_current_explorer.draw(len(seq))]

    def choices(self, population, weights=None, *, cum_weights=None, k=1):
        # integer weights only: expand to an equally likely multiset
        if weights is None and cum_weights is None:
            return [self.choice(population) for _ in range(k)]
        if weights is None:
            weights = [
                c - p for c, p in zip(cum_weights, [0] + list(cum_weights)[:-1])
            ]
        assert all(isinstance(w, int) and w >= 0 for w in weights)
        expanded = [i for i, w in enumerate(weights) for _ in range(w)]
        return [population[self.choice(expanded)] for _ in range(k)]

    def random(self):
        raise AssertionError("float draws cannot give an exactly uniform result")


def exact_random_word_distribution(dfa, k):
    """Exact distribution of dfa.random_word(k) over all outcomes of the choices."""
    global _current_explorer
    saved_module_random = getattr(dfa_module, "Random", None)
    saved_global_random = _random_module.Random
    _current_explorer = Explorer()
    try:
        if saved_module_random is not None:
            dfa_module.Random = ExhaustiveRandom
        _random_module.Random = ExhaustiveRandom
        return _current_explorer.explore(lambda: dfa.random_word(k))
    finally:
        if saved_module_random is not None:
            dfa_module.Random = saved_module_random
        _random_module.Random = saved_global_random
        _current_explorer = None


# --------------------------------------------------------------------------
# the property
# --------------------------------------------------------------------------

MIN_ENUM_LEN = 5  # brute-force enumeration bound (raised to number of states - 1)
MAX_COUNT_LEN = 12  # counting is cross-checked up to this length


def snapshot(dfa):
    return (
        frozenset(dfa.states),
        frozenset(dfa.input_symbols),
        {s: dict(t) for s, t in dfa.transitions.items()},
        dfa.initial_state,
        frozenset(dfa.final_states),
        dfa.allow_partial,
    )


def check_dfa(dfa, *, sample_exact=True, order=None):
    ref = Ref(
        dfa.states,
        dfa.input_symbols,
        dfa.transitions,
        dfa.initial_state,
        dfa.final_states,
    )
    MAX_ENUM_LEN = max(MIN_ENUM_LEN, ref.n - 1)
    before = snapshot(dfa)
    is_empty, is_infinite, min_len, max_len = ref.classify()
    ref_words = {k: ref.words(k) for k in range(MAX_ENUM_LEN + 1)}

    # ---- emptiness / finiteness predicates used by the other operations
    expect(dfa.isempty() == is_empty, "isempty", dfa)
    expect(dfa.isfinite() == (not is_infinite), "isfinite", dfa)

    # ---- words_of_length / count_words_of_length, in a random order of k so that
    # ---- the caches are filled in different ways
    ks = list(range(MAX_ENUM_LEN + 1))
    (order or gen).shuffle(ks)
    for k in ks:
        got = list(dfa.words_of_length(k))
        expect(got == ref_words[k], "words_of_length(%d): %r != %r" % (k, got, ref_words[k]), dfa)
        expect(
            dfa.count_words_of_length(k) == len(ref_words[k]),
            "count_words_of_length(%d)" % k,
            dfa,
        )
    kc = list(range(MAX_COUNT_LEN + 1))
    (order or gen).shuffle(kc)
    for k in kc:
        expect(
            dfa.count_words_of_length(k) == ref.count(k),
            "count_words_of_length(%d) (forward count)" % k,
            dfa,
        )
    # a second time (now served from the caches), and after clearing the caches
    for k in ks[:3]:
        expect(list(dfa.words_of_length(k)) == ref_words[k], "words_of_length again", dfa)
    dfa.clear_cache()
    k = ks[0]
    expect(dfa.count_words_of_length(k) == len(ref_words[k]), "count after clear_cache", dfa)
    expect(list(dfa.words_of_length(k)) == ref_words[k], "words after clear_cache", dfa)
    # a generator obtained now and consumed later still gives the same list
    pending = dfa.words_of_length(ks[1])
    list(dfa.words_of_length(MAX_ENUM_LEN))
    expect(list(pending) == ref_words[ks[1]], "lazily consumed words_of_length", dfa)

    # ---- minimum / maximum word length
    if is_empty:
        for fn in (dfa.minimum_word_length, dfa.maximum_word_length):
            try:
                fn()
            except exceptions.EmptyLanguageException:
                expect(True, "")
            else:
                fail("%s on an empty language did not raise" % fn.__name__, dfa)
    else:
        expect(dfa.minimum_word_length() == min_len, "minimum_word_length", dfa)
        got_max = dfa.maximum_word_length()
        expect(got_max == max_len and type(got_max) is type(max_len), "maximum_word_length", dfa)

    # ---- cardinality / len
    if is_infinite:
        for fn in (dfa.cardinality, lambda: len(dfa)):
            try:
                fn()
            except exceptions.InfiniteLanguageException:
                expect(True, "")
            else:
                fail("cardinality/len of an infinite language did not raise", dfa)
    else:
        total = sum(len(ws) for ws in ref_words.values())  # all words are < n long
        expect(dfa.cardinality() == total, "cardinality", dfa)
        expect(len(dfa) == total, "len", dfa)

    # ---- iteration: by length, then lexicographically, everything, nothing else
    all_ref = [w for k in range(MAX_ENUM_LEN + 1) for w in ref_words[k]]
    if is_infinite:
        got = list(itertools.islice(iter(dfa), len(all_ref)))
        expect(got == all_ref, "iteration prefix of an infinite language", dfa)
        # and one more word exists and is longer than everything enumerated
        it = iter(dfa)
        extra = next(itertools.islice(it, len(all_ref), None))
        expect(len(extra) > MAX_ENUM_LEN and ref.accepts(extra), "iteration goes on", dfa)
    else:
        got = list(dfa)
        expect(got == all_ref, "iteration of a finite language: %r != %r" % (got, all_ref), dfa)
        if is_empty:
            expect(got == [], "iteration of an empty language", dfa)

    # ---- random words
    for k in range(MAX_ENUM_LEN + 1):
        words = ref_words[k]
        if not words:
            for kwargs in ({}, {"seed": 7}):
                try:
                    dfa.random_word(k, **kwargs)
                except ValueError:
                    expect(True, "")
                else:
                    fail("random_word(%d) with no such word did not raise ValueError" % k, dfa)
            continue
        for seed in (None, 0, 1, gen.randrange(10**9)):
            word = dfa.random_word(k, seed=seed)
            expect(
                isinstance(word, str) and len(word) == k and ref.accepts(word),
                "random_word(%d, seed=%r) = %r is not an accepted word of length k" % (k, seed, word),
                dfa,
            )
            if seed is not None:
                expect(dfa.random_word(k, seed=seed) == word, "same seed, other word", dfa)
        if sample_exact and len(words) <= 40:
            dist = exact_random_word_distribution(dfa, k)
            expect(
                dist is None or dist == {w: Fraction(1, len(words)) for w in words},
                "random_word(%d) is not exactly uniform: %r" % (k, dist),
                dfa,
            )
    # a longer length: membership only
    k = 9
    if ref.count(k):
        word = dfa.random_word(k, seed=gen.randrange(10**9))
        expect(len(word) == k and ref.accepts(word), "random_word(9)", dfa)
    else:
        try:
            dfa.random_word(k)
        except ValueError:
            expect(True, "")
        else:
            fail("random_word(9) with no such word did not raise ValueError", dfa)

    expect(snapshot(dfa) == before, "the DFA was modified", dfa)


def random_dfa():
    n = gen.randint(1, 5)
    names = gen.choice(
        [
            list(range(n)),
            ["q%d" % i for i in range(n)],
            [("s", i) for i in range(n)],
            [frozenset({i}) for i in range(n)],
        ]
    )
    gen.shuffle(names)
    symbols = gen.choice(["a", "ab", "ba", "abc", "01", "zyx"])
    partial = gen.random() < 0.6
    density = gen.choice([0.3, 0.6, 0.9, 1.0])
    transitions = {}
    for state in names:
        row_symbols = list(symbols)
        gen.shuffle(row_symbols)  # insertion order of a row is not sorted
        row = {}
        for ch in row_symbols:
            if not partial or gen.random() < density:
                row[ch] = gen.choice(names)
        transitions[state] = row
    final = {s for s in names if gen.random() < gen.choice([0.0, 0.2, 0.5, 0.9])}
    return DFA(
        states=set(names),
        input_symbols=set(symbols),
        transitions=transitions,
        initial_state=names[0],
        final_states=final,
        allow_partial=partial,
    )


def hand_picked():
    ab = {"a", "b"}
    yield DFA.empty_language(ab)
    yield DFA.universal_language(ab)
    yield DFA.universal_language({"a"})
    yield DFA.from_prefix(ab, "ab")
    yield DFA.from_prefix(ab, "ab", contains=False)
    yield DFA.from_suffix(ab, "ba")
    yield DFA.from_substring(ab, "aa")
    yield DFA.of_length(ab, min_length=2, max_length=4)
    yield DFA.of_length(ab, min_length=3)
    yield DFA.of_length(ab, min_length=0, max_length=0)
    yield DFA.of_length(ab, min_length=2, max_length=4).to_partial()
    yield DFA.count_mod(ab, 3)
    yield DFA.count_mod(ab, 3, remainders={1}, symbols_to_count={"a"})
    yield DFA.nth_from_start(ab, "a", 2)
    yield DFA.nth_from_end(ab, "b", 2)
    yield DFA.from_finite_language(ab, {"", "a", "ab", "abb", "bab", "bb"})
    yield DFA.from_finite_language(ab, {"", "a", "ab", "abb", "bab", "bb"}, as_partial=False)
    yield DFA.from_finite_language({"a", "b", "c"}, {"abc", "cab", "bca", "c"})
    yield DFA.from_finite_language(ab, {""})
    yield DFA.from_finite_language(ab, set())
    yield ~DFA.from_finite_language(ab, {"ab", "b"})
    # only the empty word; one state without any transition
    yield DFA(
        states={0},
        input_symbols={"a"},
        transitions={0: {}},
        initial_state=0,
        final_states={0},
        allow_partial=True,
    )
    # final states exist but are unreachable: empty language
    yield DFA(
        states={0, 1},
        input_symbols={"a", "b"},
        transitions={0: {"a": 0, "b": 0}, 1: {"a": 1, "b": 0}},
        initial_state=0,
        final_states={1},
    )
    # a cycle that is reachable but cannot reach a final state: finite language
    yield DFA(
        states={0, 1, 2},
        input_symbols={"a", "b"},
        transitions={0: {"a": 1, "b": 2}, 1: {}, 2: {"a": 2, "b": 2}},
        initial_state=0,
        final_states={1},
        allow_partial=True,
    )
    # a cycle that can reach a final state but is not reachable: finite language
    yield DFA(
        states={0, 1, 2},
        input_symbols={"a", "b"},
        transitions={0: {"a": 1}, 1: {}, 2: {"a": 2, "b": 1}},
        initial_state=0,
        final_states={1},
        allow_partial=True,
    )
    # self loop on the only useful state; rows given in non-sorted symbol order
    yield DFA(
        states={"p", "q"},
        input_symbols={"x", "y", "z"},
        transitions={"p": {"z": "p", "x": "q", "y": "p"}, "q": {"y": "q", "z": "p", "x": "q"}},
        initial_state="p",
        final_states={"q"},
    )
    # words only of every third length
    yield DFA(
        states={0, 1, 2},
        input_symbols={"a", "b"},
        transitions={0: {"a": 1, "b": 1}, 1: {"b": 2}, 2: {"a": 0}},
        initial_state=0,
        final_states={0},
        allow_partial=True,
    )
    # initial state final and with a dead branch
    yield DFA(
        states={0, 1, 2, 3},
        input_symbols={"0", "1"},
        transitions={0: {"0": 1, "1": 3}, 1: {"0": 2, "1": 2}, 2: {}, 3: {"0": 3, "1": 3}},
        initial_state=0,
        final_states={0, 2},
        allow_partial=True,
    )


def seeded_frequency_check():
    """The real generator, many seeds: frequencies are close to uniform."""
    dfa = DFA.from_substring({"a", "b"}, "ab")
    k = 4
    ref = Ref(dfa.states, dfa.input_symbols, dfa.transitions, dfa.initial_state, dfa.final_states)
    words = ref.words(k)
    samples = 11000
    freq = dict.fromkeys(words, 0)
    for seed in range(samples):
        word = dfa.random_word(k, seed=seed)
        expect(word in freq, "random_word gave %r" % word, dfa)
        freq[word] += 1
    expected = samples / len(words)
    chi2 = sum((c - expected) ** 2 / expected for c in freq.values())
    # 10 degrees of freedom: P(chi2 > 60) < 1e-8
    expect(chi2 < 60, "random_word frequencies are far from uniform: %r" % freq, dfa)
    # unseeded calls are not all equal (really random)
    seen = {dfa.random_word(k) for _ in range(200)}
    expect(len(seen) > 1, "unseeded random_word always gives the same word", dfa)


def main():
    count = 0
    for dfa in hand_picked():
        check_dfa(dfa)
        count += 1
    n_random = 2500
    for i in range(n_random):
        check_dfa(random_dfa(), sample_exact=(i % 5 == 0))
        count += 1
    seeded_frequency_check()
    print("checked %d DFAs, %d individual checks" % (count, checks))
    print("property holds")


if __name__ == "__main__":
    main()
