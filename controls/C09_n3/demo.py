"""
Demo for property C09 -- "NFA equality decides language equivalence exactly".

For any two valid NFAs over the same alphabet, `a == b` must be True exactly
when L(a) = L(b) and `a != b` exactly when L(a) != L(b); the answer must be
symmetric and agree with comparing the determinisations (DFA.from_nfa).

The reference below is a brute-force decision procedure written from scratch
(own lambda closure, own subset simulation, BFS over the product of the two
subset automata) that uses nothing of the library but the public attributes
of the NFA objects.

Run as:  PYTHONPATH=<tree> /venv/bin/python demo.py
Prints "property holds" and exits 0 on success.
"""

import random
import sys
from collections import deque
from itertools import product

from automata.fa.dfa import DFA
from automata.fa.nfa import NFA

# --------------------------------------------------------------------------
# brute-force reference
# --------------------------------------------------------------------------


def ref_closure(nfa, states):
    """Lambda closure of a set of states (plain fixpoint iteration)."""
    closure = set(states)
    changed = True
    while changed:
        changed = False
        for q in list(closure):
            for r in nfa.transitions.get(q, {}).get("", ()):
                if r not in closure:
                    closure.add(r)
                    changed = True
    return frozenset(closure)


def ref_step(nfa, subset, symbol):
    target = set()
    for q in subset:
        target.update(nfa.transitions.get(q, {}).get(symbol, ()))
    return ref_closure(nfa, target)


def ref_accepts(nfa, word):
    cur = ref_closure(nfa, {nfa.initial_state})
    for symbol in word:
        cur = ref_step(nfa, cur, symbol)
    return bool(cur & nfa.final_states)


def ref_equivalent(a, b):
    """Exact decision: explore all reachable pairs of subsets."""
    assert a.input_symbols == b.input_symbols
    start = (ref_closure(a, {a.initial_state}), ref_closure(b, {b.initial_state}))
    seen = {start}
    queue = deque([start])
    while queue:
        sa, sb = queue.popleft()
        if bool(sa & a.final_states) != bool(sb & b.final_states):
            return False
        for symbol in a.input_symbols:
            nxt = (ref_step(a, sa, symbol), ref_step(b, sb, symbol))
            if nxt not in seen:
                seen.add(nxt)
                queue.append(nxt)
    return True


def ref_equivalent_by_words(a, b, max_len):
    """Second, even dumber, reference: compare on all words up to max_len.
    Only a necessary condition for equality, used as a cross-check."""
    symbols = sorted(a.input_symbols)
    for length in range(max_len + 1):
        for word in product(symbols, repeat=length):
            if ref_accepts(a, word) != ref_accepts(b, word):
                return False
    return True


# --------------------------------------------------------------------------
# the check performed on every pair
# --------------------------------------------------------------------------

CHECKED = {"pairs": 0, "equal": 0, "unequal": 0}


def snapshot(nfa):
    return (
        nfa.states,
        nfa.input_symbols,
        nfa.transitions,
        nfa.initial_state,
        nfa.final_states,
    )


def check_pair(a, b, label=""):
    expected = ref_equivalent(a, b)
    before = (snapshot(a), snapshot(b))

    eq_ab = a == b
    eq_ba = b == a
    ne_ab = a != b
    ne_ba = b != a

    def fail(msg):
        print("PROPERTY VIOLATED:", msg, label)
        print("  a =", dict(a.input_parameters))
        print("  b =", dict(b.input_parameters))
        sys.exit(1)

    for value in (eq_ab, eq_ba, ne_ab, ne_ba):
        if type(value) is not bool:
            fail("comparison did not return a bool: %r" % (value,))
    if eq_ab != expected:
        fail("a == b gave %r, reference says %r" % (eq_ab, expected))
    if eq_ba != eq_ab:
        fail("== is not symmetric")
    if ne_ab != (not expected) or ne_ba != (not expected):
        fail("!= is not the negation of language equality")
    # Same answer as comparing the determinisations
    for minify in (True, False):
        dfa_a = DFA.from_nfa(a, minify=minify)
        dfa_b = DFA.from_nfa(b, minify=minify)
        if (dfa_a == dfa_b) != eq_ab:
            fail("differs from comparing determinisations (minify=%r)" % minify)
    # operands untouched
    if (snapshot(a), snapshot(b)) != before:
        fail("an operand was modified by the comparison")
    # a witness check with plain words (cheap sanity check of the reference)
    if expected and not ref_equivalent_by_words(a, b, 4):
        fail("reference inconsistent")
    # every NFA equals itself and a structurally identical copy
    if not (a == a) or (a != a):
        fail("NFA is not equal to itself")

    CHECKED["pairs"] += 1
    CHECKED["equal" if expected else "unequal"] += 1


# --------------------------------------------------------------------------
# random generation
# --------------------------------------------------------------------------

NAME_STYLES = [
    lambda i: i,
    lambda i: "q%d" % i,
    lambda i: (i, "x"),
    lambda i: frozenset({i, i + 100}),
    lambda i: ("s", i) if i % 2 else "s%d" % i,  # mixed, not mutually sortable
    lambda i: -i,
]

ALPHABETS = [("a",), ("a", "b"), ("0", "1"), ("a", "b", "c"), ("x", "yy")]


def random_nfa(rng, symbols, max_states=5, name_style=None):
    n = rng.randint(1, max_states)
    style = name_style or rng.choice(NAME_STYLES)
    states = [style(i) for i in range(n)]
    lambda_rate = rng.choice([0.0, 0.15, 0.4])
    density = rng.choice([0.15, 0.3, 0.5])
    transitions = {}
    for q in states:
        if rng.random() < 0.15:
            continue  # state without a row
        row = {}
        for symbol in symbols:
            if rng.random() < 0.75:
                targets = {r for r in states if rng.random() < density}
                if targets or rng.random() < 0.3:  # sometimes an empty target set
                    row[symbol] = targets
        if rng.random() < lambda_rate * 2:
            targets = {r for r in states if rng.random() < lambda_rate}
            if targets or rng.random() < 0.3:
                row[""] = targets
        transitions[q] = row
    initial = rng.choice(states)
    transitions.setdefault(initial, {})
    if rng.random() < 0.1:
        # a row keyed by a name that is not a state (tolerated by validation)
        transitions["not-a-state"] = {
            rng.choice(symbols): {rng.choice(states)},
            "": {rng.choice(states)},
        }
    finals = {q for q in states if rng.random() < rng.choice([0.0, 0.3, 0.6, 1.0])}
    return NFA(
        states=set(states),
        input_symbols=set(symbols),
        transitions=transitions,
        initial_state=initial,
        final_states=finals,
    )


def renamed(rng, nfa):
    """Same automaton with other state names (language unchanged)."""
    order = sorted(nfa.states, key=repr)  # deterministic whatever the hash seed
    rng.shuffle(order)
    offset = rng.choice([0, 1, 1000])
    mapping = {q: ("r", offset + i) for i, q in enumerate(order)}
    return NFA(
        states=set(mapping.values()),
        input_symbols=nfa.input_symbols,
        transitions={
            mapping[q]: {s: {mapping[r] for r in ts} for s, ts in row.items()}
            for q, row in nfa.transitions.items()
            if q in mapping
        },
        initial_state=mapping[nfa.initial_state],
        final_states={mapping[q] for q in nfa.final_states},
    )


def with_lambda_detour(rng, nfa):
    """Put a fresh state in front, linked by a lambda move (language unchanged),
    plus a lambda cycle back and forth between two fresh states."""
    fresh1, fresh2 = ("fresh", 1), ("fresh", 2)
    transitions = {q: dict(row) for q, row in nfa.transitions.items()}
    transitions[fresh1] = {"": {fresh2}}
    transitions[fresh2] = {"": {fresh1, nfa.initial_state}}
    return NFA(
        states=set(nfa.states) | {fresh1, fresh2},
        input_symbols=nfa.input_symbols,
        transitions=transitions,
        initial_state=rng.choice([fresh1, fresh2]),
        final_states=nfa.final_states,
    )


def with_junk(rng, nfa):
    """Add an unreachable part and a dead state (language unchanged)."""
    junk, dead = ("junk", 0), ("dead", 0)
    symbols = sorted(nfa.input_symbols)
    transitions = {q: dict(row) for q, row in nfa.transitions.items()}
    transitions[junk] = {symbols[0]: {nfa.initial_state, junk}, "": {dead}}
    row = dict(transitions.get(nfa.initial_state, {}))
    row[symbols[-1]] = set(row.get(symbols[-1], set())) | {dead}
    transitions[nfa.initial_state] = row
    return NFA(
        states=set(nfa.states) | {junk, dead},
        input_symbols=nfa.input_symbols,
        transitions=transitions,
        initial_state=nfa.initial_state,
        final_states=set(nfa.final_states) | {junk},
    )


def perturbed(rng, nfa):
    """A small edit that may or may not change the language."""
    states = sorted(nfa.states, key=repr)
    transitions = {
        q: {s: set(ts) for s, ts in row.items()}
        for q, row in sorted(nfa.transitions.items(), key=repr)
    }
    finals = set(nfa.final_states)
    choice = rng.randrange(3)
    if choice == 0:
        finals ^= {rng.choice(states)}
    elif choice == 1:
        q = rng.choice(states)
        s = rng.choice(sorted(nfa.input_symbols) + [""])
        transitions.setdefault(q, {}).setdefault(s, set()).add(rng.choice(states))
    else:
        rows = [(q, s) for q, row in transitions.items() for s, ts in row.items() if ts]
        if rows:
            q, s = rng.choice(rows)
            transitions[q][s].discard(rng.choice(sorted(transitions[q][s], key=repr)))
    return NFA(
        states=set(states),
        input_symbols=nfa.input_symbols,
        transitions=transitions,
        initial_state=nfa.initial_state,
        final_states=finals,
    )


# --------------------------------------------------------------------------
# hand-picked inputs
# --------------------------------------------------------------------------


def hand_picked():
    ab = {"a", "b"}
    # empty language in several shapes, universal language, {""}
    empty1 = NFA(states={0}, input_symbols=ab, transitions={}, initial_state=0, final_states=set())
    empty2 = NFA(
        states={0, 1},
        input_symbols=ab,
        transitions={0: {"a": {0}, "b": set()}, 1: {"a": {1}}},
        initial_state=0,
        final_states={1},
    )
    empty3 = NFA(
        states={"p", "q"},
        input_symbols=ab,
        transitions={"p": {"": {"p"}}, "q": {"": {"p"}}},
        initial_state="p",
        final_states={"q"},
    )
    univ1 = NFA(
        states={0}, input_symbols=ab, transitions={0: {"a": {0}, "b": {0}}}, initial_state=0, final_states={0}
    )
    univ2 = NFA(
        states={0, 1, 2},
        input_symbols=ab,
        transitions={0: {"": {1}}, 1: {"a": {2}, "b": {0}, "": {2}}, 2: {"a": {0, 1}, "b": {2}, "": {0}}},
        initial_state=0,
        final_states={2},
    )
    eps1 = NFA(states={0}, input_symbols=ab, transitions={}, initial_state=0, final_states={0})
    eps2 = NFA(
        states={0, 1, 2},
        input_symbols=ab,
        transitions={0: {"": {1}}, 1: {"": {2}}, 2: {}},
        initial_state=0,
        final_states={2},
    )
    # final state only reachable through a chain of lambda moves after a symbol
    chain1 = NFA(
        states={0, 1, 2, 3},
        input_symbols=ab,
        transitions={0: {"a": {1}}, 1: {"": {2}}, 2: {"": {3}}, 3: {"": {1}}},
        initial_state=0,
        final_states={3},
    )
    chain2 = NFA(states={0, 1}, input_symbols=ab, transitions={0: {"a": {1}}}, initial_state=0, final_states={1})
    # same names, different roles in the two operands
    same1 = NFA(
        states={0, 1}, input_symbols=ab, transitions={0: {"a": {1}}, 1: {"b": {0}}}, initial_state=0, final_states={0}
    )
    same2 = NFA(
        states={0, 1}, input_symbols=ab, transitions={0: {"a": {1}}, 1: {"b": {0}}}, initial_state=0, final_states={1}
    )
    same3 = NFA(
        states={0, 1}, input_symbols=ab, transitions={1: {"a": {0}}, 0: {"b": {1}}}, initial_state=1, final_states={1}
    )
    # languages that differ only on a long word: a^k for k != 6 versus a*
    n = 7
    long1 = NFA(
        states=set(range(n + 1)),
        input_symbols={"a"},
        transitions={**{i: {"a": {i + 1}} for i in range(n)}, n: {"a": {n}}},
        initial_state=0,
        final_states=set(range(n + 1)) - {6},
    )
    long2 = NFA(states={0}, input_symbols={"a"}, transitions={0: {"a": {0}}}, initial_state=0, final_states={0})
    # classic exponential blow-up NFA: k-th symbol from the end is 'a'
    k = 4
    kth = NFA(
        states=set(range(k + 1)),
        input_symbols=ab,
        transitions={0: {"a": {0, 1}, "b": {0}}, **{i: {"a": {i + 1}, "b": {i + 1}} for i in range(1, k)}, k: {}},
        initial_state=0,
        final_states={k},
    )
    kth_regex = NFA.from_regex("(a|b)*a(a|b)(a|b)(a|b)")
    kth_wrong = NFA.from_regex("(a|b)*a(a|b)(a|b)")
    from_regex = [
        NFA.from_regex(r, input_symbols=ab)
        for r in ["", "a*", "(a|b)*", "a*b*", "(a*b*)*", "(ab)*", "(ab)*|(ba)*", "a(ba)*", "(ab)*a", "a?b?", "b?a?"]
    ]
    group = [
        empty1, empty2, empty3, univ1, univ2, eps1, eps2, chain1, chain2,
        same1, same2, same3, kth, kth_regex, kth_wrong,
    ] + from_regex
    for a in group:
        for b in group:
            check_pair(a, b, "[hand-picked]")
    check_pair(long1, long2, "[hand-picked long]")
    check_pair(long1, long1.eliminate_lambda(), "[hand-picked long]")
    check_pair(kth, kth.reverse().reverse(), "[hand-picked]")

    # things the property does not quantify over but that must stay as they are:
    # other alphabets / other types compare unequal and never raise
    other_alphabet = NFA(states={0}, input_symbols={"a"}, transitions={}, initial_state=0, final_states={0})
    assert (eps1 == other_alphabet) is False and (eps1 != other_alphabet) is True
    assert (eps1 == DFA.from_nfa(eps1)) is False and (eps1 != DFA.from_nfa(eps1)) is True
    assert (eps1 == 5) is False and (eps1 != "x") is True
    assert eps1.__eq__(5) is NotImplemented and eps1.__eq__(other_alphabet) is NotImplemented


# --------------------------------------------------------------------------


def main():
    rng = random.Random(20240909)
    hand_picked()

    for _ in range(1300):
        symbols = rng.choice(ALPHABETS)
        # small automata: equal languages occur often by chance
        max_states = rng.choice([2, 3, 5])
        style = rng.choice(NAME_STYLES + [None])
        a = random_nfa(rng, symbols, max_states, style)
        b = random_nfa(rng, symbols, max_states, style)  # often overlapping names
        check_pair(a, b, "[random/independent]")

    for _ in range(700):
        symbols = rng.choice(ALPHABETS)
        a = random_nfa(rng, symbols, rng.choice([3, 5, 6]))
        kind = rng.randrange(7)
        if kind == 0:
            b = renamed(rng, a)
        elif kind == 1:
            b = a.eliminate_lambda()
        elif kind == 2:
            b = with_lambda_detour(rng, a)
        elif kind == 3:
            b = with_junk(rng, a)
        elif kind == 4:
            b = NFA.from_dfa(DFA.from_nfa(a))
        elif kind == 5:
            b = perturbed(rng, a)
        else:
            b = perturbed(rng, with_lambda_detour(rng, renamed(rng, a)))
        check_pair(a, b, "[random/derived kind %d]" % kind)

    assert CHECKED["equal"] > 400 and CHECKED["unequal"] > 400, CHECKED
    print(
        "checked %(pairs)d pairs (%(equal)d language-equal, %(unequal)d different)" % CHECKED
    )
    print("property holds")


if __name__ == "__main__":
    main()
