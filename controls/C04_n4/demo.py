#!/usr/bin/env python3
"""
Demo / property test for C04:

  Union, intersection, difference, symmetric difference and complement of DFAs
  over a common alphabet (methods and the | & - ^ ~ operators) return a valid
  DFA whose language is EXACTLY the corresponding set operation on the
  operands' languages, for every mix of complete and partial operands, every
  minify / retain_names combination and for operands that are themselves
  results of earlier operations.  to_partial / to_complete keep the language
  (to_complete defines every transition).  Operands over different alphabets
  are refused with SymbolMismatchError.

Run as:   PYTHONPATH=<tree> /venv/bin/python demo.py

The reference is written here from scratch and never calls the library's
algorithms: a library result R is compared with the operands (read only
through their raw `transitions` / `initial_state` / `final_states` tables)
by exhaustively exploring the joint reachable product
(state of R, state of leaf 1, ..., state of leaf k) with None standing for
"no transition" -- this decides language equality over ALL strings, not a
sample.  As an additional sanity check all words up to a small length are
also fed through `accepts_input`.
"""

from __future__ import annotations

import itertools
import random
import sys
from collections import deque

import automata.base.exceptions as exceptions
from automata.fa.dfa import DFA

# --------------------------------------------------------------------------
# brute-force reference
# --------------------------------------------------------------------------


def raw_step(dfa, state, symbol):
    """One step on the raw transition table; None is the (implicit) dead state."""
    if state is None:
        return None
    return dfa.transitions[state].get(symbol)


def assert_language(result, leaves, accept_fn, alphabet, what):
    """
    Prove L(result) == { w : accept_fn(w in L(leaf_1), ..., w in L(leaf_k)) }
    by exploring every reachable joint configuration.
    """
    start = (result.initial_state, tuple(leaf.initial_state for leaf in leaves))
    seen = {start}
    queue = deque([start])
    while queue:
        r_state, leaf_states = queue.popleft()
        got = r_state is not None and r_state in result.final_states
        bits = tuple(
            (q is not None and q in leaf.final_states)
            for leaf, q in zip(leaves, leaf_states)
        )
        want = bool(accept_fn(bits))
        if got != want:
            raise AssertionError(
                f"{what}: language differs (result accepts={got}, expected={want})"
            )
        for symbol in alphabet:
            nxt = (
                raw_step(result, r_state, symbol),
                tuple(raw_step(leaf, q, symbol) for leaf, q in zip(leaves, leaf_states)),
            )
            if nxt not in seen:
                seen.add(nxt)
                queue.append(nxt)


def assert_valid_dfa(result, alphabet, what, must_be_complete=False):
    """The result must be a structurally valid DFA over the common alphabet."""
    assert isinstance(result, DFA), f"{what}: result is not a DFA"
    assert set(result.input_symbols) == set(alphabet), f"{what}: alphabet changed"
    # own structural check (does not trust result.validate())
    assert result.initial_state in result.states, f"{what}: bad initial state"
    assert set(result.final_states) <= set(result.states), f"{what}: bad finals"
    for state in result.states:
        assert state in result.transitions, f"{what}: state {state!r} has no row"
    complete = True
    for state, row in result.transitions.items():
        for symbol, target in row.items():
            assert symbol in alphabet, f"{what}: foreign symbol {symbol!r}"
            assert target in result.states, f"{what}: dangling target {target!r}"
        if set(row.keys()) != set(alphabet):
            complete = False
    if not result.allow_partial or must_be_complete:
        assert complete, f"{what}: missing transitions in a complete DFA"
    # and the library's own validation must agree
    result.validate()


def snapshot(dfa):
    return (
        frozenset(dfa.states),
        frozenset(dfa.input_symbols),
        {s: dict(row) for s, row in dfa.transitions.items()},
        dfa.initial_state,
        frozenset(dfa.final_states),
        dfa.allow_partial,
    )


def words_upto(alphabet, n):
    for length in range(n + 1):
        for tup in itertools.product(sorted(alphabet), repeat=length):
            yield "".join(tup)


# --------------------------------------------------------------------------
# input generation
# --------------------------------------------------------------------------

NAMINGS = [
    lambda i: i,
    lambda i: f"q{i}",
    lambda i: -1 - i,  # collides with the default trap-state ids -1, -2, ...
    lambda i: (i, "x"),
    lambda i: frozenset({i, i + 1}),
    lambda i: (-1 - i) if i % 2 else f"s{i}",
    lambda i: (-1, -1 - i),
]


def random_dfa(rng, alphabet, max_states=5):
    n = rng.randint(1, max_states)
    naming = rng.choice(NAMINGS)
    states = [naming(i) for i in range(n)]
    density = rng.choice([1.0, 1.0, 0.85, 0.6, 0.3])
    transitions = {}
    partial = False
    for s in states:
        row = {}
        for a in alphabet:
            if rng.random() < density:
                row[a] = rng.choice(states)
            else:
                partial = True
        transitions[s] = row
    finals = {s for s in states if rng.random() < 0.4}
    allow_partial = partial or rng.random() < 0.25
    return DFA(
        states=set(states),
        input_symbols=set(alphabet),
        transitions=transitions,
        initial_state=rng.choice(states),
        final_states=finals,
        allow_partial=allow_partial,
    )


def handpicked(alphabet):
    """A few corner-case automata over the given alphabet."""
    al = sorted(alphabet)
    out = []
    # empty language, complete and partial, universal language
    out.append(DFA.empty_language(set(alphabet)))
    out.append(DFA.universal_language(set(alphabet)))
    out.append(
        DFA(
            states={0},
            input_symbols=set(alphabet),
            transitions={0: {}},
            initial_state=0,
            final_states=set(),
            allow_partial=True,
        )
    )
    # only the empty word
    out.append(
        DFA(
            states={"e"},
            input_symbols=set(alphabet),
            transitions={"e": {}},
            initial_state="e",
            final_states={"e"},
            allow_partial=True,
        )
    )
    # partial DFA whose states are exactly the default trap ids
    out.append(
        DFA(
            states={-1, -2, -3},
            input_symbols=set(alphabet),
            transitions={-1: {al[0]: -2}, -2: {al[-1]: -3}, -3: {al[0]: -3}},
            initial_state=-1,
            final_states={-3},
            allow_partial=True,
        )
    )
    # a row keyed by a name (-1) that is not a state (accepted by the library)
    out.append(
        DFA(
            states={0, 1},
            input_symbols=set(alphabet),
            transitions={0: {al[0]: 1}, 1: {al[-1]: 0}, -1: {al[0]: 0}},
            initial_state=0,
            final_states={1},
            allow_partial=True,
        )
    )
    # complete DFA flagged allow_partial=True, with dead + unreachable states
    out.append(
        DFA(
            states={"i", "f", "dead", "unreach"},
            input_symbols=set(alphabet),
            transitions={
                "i": {a: ("f" if k == 0 else "dead") for k, a in enumerate(al)},
                "f": {a: "f" for a in al},
                "dead": {a: "dead" for a in al},
                "unreach": {a: "f" for a in al},
            },
            initial_state="i",
            final_states={"f", "unreach"},
            allow_partial=True,
        )
    )
    # library-built automata
    out.append(DFA.of_length(set(alphabet), min_length=1, max_length=2))
    out.append(DFA.from_finite_language(set(alphabet), {al[0], al[0] + al[-1], ""}))
    out.append(DFA.from_finite_language(set(alphabet), {al[-1] * 2}, as_partial=True))
    return out


# --------------------------------------------------------------------------
# the operations under test
# --------------------------------------------------------------------------

BINARY = {
    "union": (lambda a, b, **kw: a.union(b, **kw), lambda x, y: x or y),
    "intersection": (lambda a, b, **kw: a.intersection(b, **kw), lambda x, y: x and y),
    "difference": (lambda a, b, **kw: a.difference(b, **kw), lambda x, y: x and not y),
    "symmetric_difference": (
        lambda a, b, **kw: a.symmetric_difference(b, **kw),
        lambda x, y: x != y,
    ),
}
OPERATORS = {
    "|": (lambda a, b: a | b, lambda x, y: x or y),
    "&": (lambda a, b: a & b, lambda x, y: x and y),
    "-": (lambda a, b: a - b, lambda x, y: x and not y),
    "^": (lambda a, b: a ^ b, lambda x, y: x != y),
}
OPTIONS = [
    dict(retain_names=r, minify=m) for r in (False, True) for m in (False, True)
]

checks = 0


def check_pair(a, b, alphabet, short_words):
    global checks
    snap_a, snap_b = snapshot(a), snapshot(b)
    for name, (op, sem) in BINARY.items():
        for kw in OPTIONS:
            what = f"{name}{kw}"
            res = op(a, b, **kw)
            assert_valid_dfa(res, alphabet, what)
            assert_language(res, [a, b], lambda bits: sem(*bits), alphabet, what)
            checks += 1
    for name, (op, sem) in OPERATORS.items():
        res = op(a, b)
        assert_valid_dfa(res, alphabet, name)
        assert_language(res, [a, b], lambda bits: sem(*bits), alphabet, name)
        for w in short_words:
            assert res.accepts_input(w) == bool(
                sem(a.accepts_input(w), b.accepts_input(w))
            ), f"{name}: wrong answer on word {w!r}"
        checks += 1
    assert snapshot(a) == snap_a and snapshot(b) == snap_b, "operand was mutated"


def check_unary(a, alphabet, short_words):
    global checks
    snap_a = snapshot(a)
    for kw in OPTIONS:
        what = f"complement{kw}"
        res = a.complement(**kw)
        assert_valid_dfa(res, alphabet, what, must_be_complete=False)
        assert_language(res, [a], lambda bits: not bits[0], alphabet, what)
        what = f"to_partial{kw}"
        res = a.to_partial(**kw)
        assert_valid_dfa(res, alphabet, what)
        assert_language(res, [a], lambda bits: bits[0], alphabet, what)
        checks += 2
    res = ~a
    assert_valid_dfa(res, alphabet, "~")
    assert_language(res, [a], lambda bits: not bits[0], alphabet, "~")
    for w in short_words:
        assert res.accepts_input(w) != a.accepts_input(w), f"~: wrong on {w!r}"
    # to_complete: default trap name and a custom one
    for trap in (None, "TRAP", ("t", 0)):
        res = a.to_complete() if trap is None else a.to_complete(trap)
        assert_valid_dfa(res, alphabet, "to_complete", must_be_complete=True)
        assert_language(res, [a], lambda bits: bits[0], alphabet, "to_complete")
        checks += 1
    assert snapshot(a) == snap_a, "operand was mutated"


def check_mismatch(a, rng):
    """Operands over different alphabets must be refused, never answered."""
    global checks
    other_alphabet = set(a.input_symbols) | {"z"}
    if rng.random() < 0.5 and len(a.input_symbols) > 1:
        other_alphabet = set(sorted(a.input_symbols)[:-1])
    b = random_dfa(rng, sorted(other_alphabet))
    attempts = []
    for name, (op, _) in BINARY.items():
        for kw in OPTIONS:
            attempts.append((f"{name}{kw}", lambda op=op, kw=kw: op(a, b, **kw)))
            attempts.append((f"{name}{kw}'", lambda op=op, kw=kw: op(b, a, **kw)))
    for name, (op, _) in OPERATORS.items():
        attempts.append((name, lambda op=op: op(a, b)))
        attempts.append((name + "'", lambda op=op: op(b, a)))
    for what, thunk in attempts:
        try:
            thunk()
        except exceptions.SymbolMismatchError:
            checks += 1
        else:
            raise AssertionError(f"{what}: alphabet mismatch was not refused")


# -- expression trees -------------------------------------------------------


def random_tree(rng, n_leaves, depth):
    """Returns a nested tuple describing an expression over leaf indices."""
    if depth == 0 or rng.random() < 0.2:
        return ("leaf", rng.randrange(n_leaves))
    kind = rng.choice(
        ["union", "intersection", "difference", "symmetric_difference"] * 2
        + ["complement", "to_partial", "to_complete", "op"]
    )
    if kind in BINARY:
        return (
            kind,
            rng.choice(OPTIONS),
            random_tree(rng, n_leaves, depth - 1),
            random_tree(rng, n_leaves, depth - 1),
        )
    if kind == "op":
        return (
            rng.choice(sorted(OPERATORS)),
            None,
            random_tree(rng, n_leaves, depth - 1),
            random_tree(rng, n_leaves, depth - 1),
        )
    if kind == "to_complete":
        return (kind, None, random_tree(rng, n_leaves, depth - 1))
    return (kind, rng.choice(OPTIONS), random_tree(rng, n_leaves, depth - 1))


def eval_lib(tree, leaves):
    """Evaluate with the library; every intermediate result is checked too."""
    kind = tree[0]
    if kind == "leaf":
        return leaves[tree[1]]
    if kind in BINARY:
        return BINARY[kind][0](
            eval_lib(tree[2], leaves), eval_lib(tree[3], leaves), **tree[1]
        )
    if kind in OPERATORS:
        return OPERATORS[kind][0](eval_lib(tree[2], leaves), eval_lib(tree[3], leaves))
    sub = eval_lib(tree[2], leaves)
    if kind == "complement":
        return sub.complement(**tree[1])
    if kind == "to_partial":
        return sub.to_partial(**tree[1])
    if kind == "to_complete":
        return sub.to_complete()
    raise ValueError(kind)


def eval_ref(tree, bits):
    kind = tree[0]
    if kind == "leaf":
        return bits[tree[1]]
    if kind in BINARY:
        return BINARY[kind][1](eval_ref(tree[2], bits), eval_ref(tree[3], bits))
    if kind in OPERATORS:
        return OPERATORS[kind][1](eval_ref(tree[2], bits), eval_ref(tree[3], bits))
    sub = eval_ref(tree[2], bits)
    return (not sub) if kind == "complement" else sub


def check_tree(rng, alphabet):
    global checks
    n_leaves = rng.randint(2, 4)
    leaves = [random_dfa(rng, alphabet, max_states=4) for _ in range(n_leaves)]
    snaps = [snapshot(leaf) for leaf in leaves]
    tree = random_tree(rng, n_leaves, depth=3)
    res = eval_lib(tree, leaves)
    assert_valid_dfa(res, alphabet, f"tree {tree}")
    assert_language(res, leaves, lambda bits: eval_ref(tree, bits), alphabet, "tree")
    assert [snapshot(leaf) for leaf in leaves] == snaps, "operand was mutated"
    checks += 1


# --------------------------------------------------------------------------


def main():
    rng = random.Random(20240604)
    alphabets = [["a", "b"], ["0", "1", "2"], ["a"], ["x", "y"]]

    # hand-picked corner cases, all pairs
    for alphabet in alphabets:
        short_words = list(words_upto(alphabet, 3))
        picked = handpicked(alphabet)
        for a in picked:
            check_unary(a, alphabet, short_words)
            check_mismatch(a, rng)
            for b in picked:
                check_pair(a, b, alphabet, short_words)

    # random pairs: complete/partial mixes, all option combinations
    for i in range(700):
        alphabet = rng.choice(alphabets)
        short_words = list(words_upto(alphabet, 3))
        a = random_dfa(rng, alphabet)
        b = random_dfa(rng, alphabet)
        check_pair(a, b, alphabet, short_words)
        check_unary(a, alphabet, short_words)
        if i % 10 == 0:
            check_mismatch(a, rng)
        # operands that are themselves results of earlier operations
        if i % 5 == 0:
            c = a.union(b, retain_names=True, minify=False)
            d = (~b).to_partial(minify=False)
            check_pair(c, d, alphabet, short_words)
            check_unary(c, alphabet, short_words)

    # larger, sparse automata (many dead / unreachable states) for the
    # conversions and the complement
    for _ in range(300):
        alphabet = rng.choice(alphabets)
        a = random_dfa(rng, alphabet, max_states=9)
        check_unary(a, alphabet, list(words_upto(alphabet, 2)))

    # random expression trees
    for _ in range(1500):
        check_tree(rng, rng.choice(alphabets))

    print(f"property holds ({checks} checks)")
    return 0


if __name__ == "__main__":
    sys.exit(main())
