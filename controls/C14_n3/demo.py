"""
C14 -- successor / predecessor traversal enumerates the language in order, completely.

Run as:  PYTHONPATH=<tree> /venv/bin/python demo.py

For a few thousand random (and some hand-picked) DFAs, start strings, strictness
flags, symbol orderings and length windows the results of DFA.successors /
successor / predecessors / predecessor are compared with a brute-force reference
that is written here and does not use the library (own simulation of the
transition table, exhaustive enumeration of all words up to a length bound,
explicit sort).
"""
import itertools
import random
import sys

from automata.base import exceptions
from automata.fa.dfa import DFA

SYMBOL_POOL = "abcXY01_"


# ----------------------------------------------------------------------------
# brute-force reference (no library code)
# ----------------------------------------------------------------------------
def ref_accepts(spec, word):
    state = spec["initial_state"]
    for char in word:
        row = spec["transitions"][state]
        if char not in row:
            return False
        state = row[char]
    return state in spec["final_states"]


def ref_words_up_to(spec, bound):
    """All accepted words of length <= bound (exhaustive)."""
    alphabet = sorted(spec["input_symbols"])
    words = []
    for length in range(bound + 1):
        for tup in itertools.product(alphabet, repeat=length):
            word = "".join(tup)
            if ref_accepts(spec, word):
                words.append(word)
    return words


def ref_is_finite(spec):
    """Pumping argument: infinite iff some accepted word has n <= |w| < 2n."""
    n = len(spec["states"])
    alphabet = sorted(spec["input_symbols"])
    # states reachable with exactly `length` symbols
    layer = {spec["initial_state"]}
    for length in range(2 * n):
        if length >= n and layer & spec["final_states"]:
            return False
        layer = {
            spec["transitions"][q][c]
            for q in layer
            for c in alphabet
            if c in spec["transitions"][q]
        }
    return True


def ref_expected(spec, words, start, strict, keyfn, reverse, min_length, max_length):
    """
    Expected output: accepted words inside the window that come after (before if
    reverse) `start` -- or equal it when not strict -- in increasing (decreasing)
    lexicographic order w.r.t. the symbol ordering given by keyfn.
    `words` must contain every accepted word of length <= max_length (or all
    accepted words if max_length is None).
    """
    rank = (lambda c: c) if keyfn is None else keyfn

    def word_key(word):
        return tuple(rank(c) for c in word)

    selected = []
    for word in words:
        if len(word) < min_length:
            continue
        if max_length is not None and len(word) > max_length:
            continue
        if start is not None:
            if word == start:
                if strict:
                    continue
            elif reverse:
                if not word_key(word) < word_key(start):
                    continue
            else:
                if not word_key(word) > word_key(start):
                    continue
        selected.append(word)
    selected.sort(key=word_key, reverse=reverse)
    return selected


# ----------------------------------------------------------------------------
# random inputs
# ----------------------------------------------------------------------------
def random_spec(rng):
    n_states = rng.randint(1, 5)
    n_symbols = rng.randint(1, 3)
    states = set(range(n_states))
    symbols = set(rng.sample(SYMBOL_POOL, n_symbols))
    partial = rng.random() < 0.6
    # bias towards finite languages sometimes: only "forward" edges
    acyclic = rng.random() < 0.45
    density = rng.choice([0.3, 0.6, 0.9])
    transitions = {}
    for q in states:
        row = {}
        for c in symbols:
            if acyclic:
                targets = [t for t in states if t > q]
                if targets and rng.random() < density:
                    row[c] = rng.choice(targets)
            elif not partial or rng.random() < density:
                row[c] = rng.randrange(n_states)
        transitions[q] = row
    if acyclic:
        partial = True
    final_states = {q for q in states if rng.random() < 0.45}
    return {
        "states": states,
        "input_symbols": symbols,
        "transitions": transitions,
        "initial_state": 0,
        "final_states": final_states,
        "allow_partial": partial,
    }


def random_key(rng, symbols):
    choice = rng.randrange(3)
    if choice == 0:
        return None
    if choice == 1:
        return lambda c: -ord(c)
    perm = list(symbols)
    rng.shuffle(perm)
    table = {c: i for i, c in enumerate(perm)}
    return table.__getitem__


def random_start(rng, spec, words, bound):
    alphabet = sorted(spec["input_symbols"])
    choice = rng.randrange(8)
    if choice == 0:
        return None
    if choice == 1:
        return ""
    if choice in (2, 3) and words:
        return rng.choice(words)  # an accepted word
    if choice == 4:
        # longer than every word in the window
        return "".join(rng.choice(alphabet) for _ in range(bound + rng.randint(1, 3)))
    if choice == 5 and words:
        # a live prefix followed by a (typically dead / unreadable) random tail
        word = rng.choice(words)
        prefix = word[: rng.randint(0, len(word))]
        return prefix + "".join(rng.choice(alphabet) for _ in range(rng.randint(1, 8)))
    return "".join(rng.choice(alphabet) for _ in range(rng.randint(0, bound + 1)))


HAND_PICKED = [
    # empty language
    dict(states={0, 1}, input_symbols={"a", "b"}, transitions={0: {"a": 0}, 1: {}},
         initial_state=0, final_states={1}, allow_partial=True),
    # only the empty word
    dict(states={0}, input_symbols={"a"}, transitions={0: {}},
         initial_state=0, final_states={0}, allow_partial=True),
    # everything (complete, one state)
    dict(states={0}, input_symbols={"a", "b"}, transitions={0: {"a": 0, "b": 0}},
         initial_state=0, final_states={0}, allow_partial=False),
    # finite, with the empty word and a dead branch
    dict(states={0, 1, 2, 3}, input_symbols={"a", "b"},
         transitions={0: {"a": 1, "b": 3}, 1: {"b": 2}, 2: {}, 3: {"a": 3}},
         initial_state=0, final_states={0, 2}, allow_partial=True),
    # a*b : infinite, successor order never reaches 'b' without a max length
    dict(states={0, 1, 2}, input_symbols={"a", "b"},
         transitions={0: {"a": 0, "b": 1}, 1: {"a": 2, "b": 2}, 2: {"a": 2, "b": 2}},
         initial_state=0, final_states={1}, allow_partial=False),
    # words of length exactly 3 over three symbols
    dict(states={0, 1, 2, 3}, input_symbols={"0", "1", "_"},
         transitions={0: {"0": 1, "1": 1, "_": 1}, 1: {"0": 2, "1": 2, "_": 2},
                      2: {"0": 3, "1": 3, "_": 3}, 3: {}},
         initial_state=0, final_states={3}, allow_partial=True),
]


# ----------------------------------------------------------------------------
# the check
# ----------------------------------------------------------------------------
class Failure(Exception):
    pass


def check_case(dfa, spec, words, finite, start, strict, keyfn, min_length, max_length):
    n_checked = 0
    kwargs = dict(strict=strict, key=keyfn, min_length=min_length, max_length=max_length)
    descr = (spec, start, strict, min_length, max_length)

    # ---- successors (a max length is given whenever the language is infinite)
    if finite or max_length is not None:
        expected = ref_expected(spec, words, start, strict, keyfn, False, min_length, max_length)
        got = list(dfa.successors(start, **kwargs))
        if got != expected:
            raise Failure(f"successors: got {got}, expected {expected} for {descr}")
        if len(set(got)) != len(got):
            raise Failure(f"successors: repeats in {got} for {descr}")
        single = dfa.successor(start, **kwargs)
        if single != (expected[0] if expected else None):
            raise Failure(f"successor: got {single!r}, expected first of {expected} for {descr}")
        n_checked += 2

    # ---- predecessors (input_str of predecessor(s) is documented as a str, but
    # None works through successors(reverse=True); we test both entry points)
    if finite:
        expected = ref_expected(spec, words, start, strict, keyfn, True, min_length, max_length)
        got_rev = list(dfa.successors(start, reverse=True, **kwargs))
        if got_rev != expected:
            raise Failure(f"successors(reverse): got {got_rev}, expected {expected} for {descr}")
        got = list(dfa.predecessors(start, **kwargs))
        if got != expected:
            raise Failure(f"predecessors: got {got}, expected {expected} for {descr}")
        single = dfa.predecessor(start, **kwargs)
        if single != (expected[0] if expected else None):
            raise Failure(f"predecessor: got {single!r}, expected first of {expected} for {descr}")
        n_checked += 3
    else:
        # infinite language: refused with the documented exception, whatever
        # the window (raised when the generator is started)
        for call in (
            lambda: list(dfa.predecessors(start, **kwargs)),
            lambda: dfa.predecessor(start, **kwargs),
            lambda: list(dfa.successors(start, reverse=True, **kwargs)),
        ):
            try:
                result = call()
            except exceptions.InfiniteLanguageException:
                pass
            else:
                raise Failure(f"predecessor(s) of an infinite language returned {result} for {descr}")
            n_checked += 1
    return n_checked


def main():
    rng = random.Random(20260926)
    n_checked = 0
    n_cases = 0
    specs = list(HAND_PICKED) + [random_spec(rng) for _ in range(450)]
    n_finite = n_infinite = 0
    for spec in specs:
        dfa = DFA(**spec)
        finite = ref_is_finite(spec)
        n_states = len(spec["states"])
        if finite:
            n_finite += 1
            # every accepted word is shorter than the number of states
            bound = max(n_states - 1, 0)
            all_words = ref_words_up_to(spec, bound)
            if any(ref_accepts(spec, "".join(t))
                   for t in itertools.product(sorted(spec["input_symbols"]), repeat=bound + 1)):
                raise Failure("reference inconsistency (finite language with a long word)")
        else:
            n_infinite += 1
            bound = 5 if len(spec["input_symbols"]) < 3 else 4
            all_words = ref_words_up_to(spec, bound)

        for _ in range(9):
            keyfn = random_key(rng, spec["input_symbols"])
            strict = rng.random() < 0.5
            min_length = rng.choice([0, 0, 0, 1, 2, 3])
            if finite:
                max_length = rng.choice([None, None, 0, 1, 2, 3, 4])
            else:
                max_length = rng.randint(0, bound)
            if max_length is None:
                words = all_words
            else:
                words = [w for w in all_words if len(w) <= max_length]
            start = random_start(rng, spec, all_words, bound)
            n_checked += check_case(
                dfa, spec, words, finite, start, strict, keyfn, min_length, max_length
            )
            n_cases += 1

        # hand-picked start strings for every automaton: None, '' and (if any) the
        # smallest / largest accepted word, both strictness values, default order
        extremes = [None, ""]
        if all_words:
            extremes += [min(all_words), max(all_words)]
        for start in extremes:
            for strict in (True, False):
                max_length = None if finite else bound
                n_checked += check_case(
                    dfa, spec, all_words, finite, start, strict, None, 0, max_length
                )
                n_cases += 1

    print(
        f"{len(specs)} DFAs ({n_finite} finite, {n_infinite} infinite languages), "
        f"{n_cases} cases, {n_checked} comparisons with the brute-force reference"
    )
    print("property holds")


if __name__ == "__main__":
    try:
        main()
    except Failure as failure:
        print("PROPERTY VIOLATED:", failure)
        sys.exit(1)
