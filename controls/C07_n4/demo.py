#!/usr/bin/env python
"""
Demo / randomized check for property C07 of caleb531/automata:

    Determinising any NFA (every combination of `minify` / `retain_names`),
    viewing any DFA as an NFA, and eliminating empty-string transitions from
    any NFA each produce a VALID automaton with EXACTLY the same language as
    the source.  The epsilon-eliminated NFA has no empty-string transition
    left and no state unreachable from its initial state.

Run as:  PYTHONPATH=<tree> /venv/bin/python demo.py [seed] [n_random]

The reference semantics below is written from scratch on plain dicts (it does
not call any library algorithm): language equality is decided exactly by a
product search between the subset automaton of the source and the subset
automaton of the result, so it is not limited to short words.  In addition a
sample of short words is replayed through the library's own `accepts_input`.
"""

import itertools
import random
import sys

from automata.fa.dfa import DFA
from automata.fa.nfa import NFA

# --------------------------------------------------------------------------
# Reference semantics on plain python data
# --------------------------------------------------------------------------


def plain_nfa(a):
    """(states, symbols, transitions, initial, finals) as plain python data."""
    return (
        set(a.states),
        set(a.input_symbols),
        {
            q: {sym: set(tgts) for sym, tgts in row.items()}
            for q, row in a.transitions.items()
        },
        a.initial_state,
        set(a.final_states),
    )


def plain_dfa(a):
    return (
        set(a.states),
        set(a.input_symbols),
        {q: dict(row.items()) for q, row in a.transitions.items()},
        a.initial_state,
        set(a.final_states),
    )


def ref_closure(trans, subset):
    seen = set(subset)
    todo = list(subset)
    while todo:
        q = todo.pop()
        for r in trans.get(q, {}).get("", ()):
            if r not in seen:
                seen.add(r)
                todo.append(r)
    return frozenset(seen)


def nfa_view(spec):
    _states, _symbols, trans, initial, finals = spec

    def step(subset, sym):
        moved = set()
        for q in subset:
            moved.update(trans.get(q, {}).get(sym, ()))
        return ref_closure(trans, moved)

    def is_final(subset):
        return any(q in finals for q in subset)

    return ref_closure(trans, {initial}), step, is_final


_TRAP = ("<trap>",)


def dfa_view(spec):
    _states, _symbols, trans, initial, finals = spec

    def step(q, sym):
        if q is _TRAP:
            return _TRAP
        return trans.get(q, {}).get(sym, _TRAP)

    def is_final(q):
        return q is not _TRAP and q in finals

    return initial, step, is_final


def find_difference(symbols, view_a, view_b):
    """None if both views accept the same language, else a witness word."""
    init_a, step_a, fin_a = view_a
    init_b, step_b, fin_b = view_b
    start = (init_a, init_b)
    seen = {start}
    todo = [(start, "")]
    symbols = sorted(symbols)
    while todo:
        (x, y), word = todo.pop()
        if fin_a(x) != fin_b(y):
            return word
        for sym in symbols:
            nxt = (step_a(x, sym), step_b(y, sym))
            if nxt not in seen:
                seen.add(nxt)
                todo.append((nxt, word + sym))
    return None


def ref_accepts(view, word):
    cfg, step, fin = view
    for sym in word:
        cfg = step(cfg, sym)
    return fin(cfg)


def check_valid_nfa(spec, what):
    states, symbols, trans, initial, finals = spec
    assert initial in states, f"{what}: initial state not a state"
    assert finals <= states, f"{what}: final states not all states"
    assert "" not in symbols, f"{what}: empty string is an input symbol"
    assert None not in states and None not in trans, f"{what}: None used as name"
    for q, row in trans.items():
        for sym, tgts in row.items():
            assert sym == "" or sym in symbols, f"{what}: bad symbol {sym!r}"
            assert tgts <= states, f"{what}: bad target in row {q!r}"
    assert initial in trans or len(states) <= 1, f"{what}: initial has no row"


def check_valid_dfa(spec, allow_partial, what):
    states, symbols, trans, initial, finals = spec
    assert initial in states, f"{what}: initial state not a state"
    assert finals <= states, f"{what}: final states not all states"
    assert "" not in symbols, f"{what}: empty string is an input symbol"
    assert None not in states and None not in trans, f"{what}: None used as name"
    for q in states:
        assert q in trans, f"{what}: state {q!r} has no row"
    for q, row in trans.items():
        for sym, tgt in row.items():
            assert sym in symbols, f"{what}: bad symbol {sym!r}"
            assert tgt in states, f"{what}: bad target in row {q!r}"
        if not allow_partial:
            assert set(row) == symbols, f"{what}: row {q!r} not total"


def ref_reachable(trans, initial):
    seen = {initial}
    todo = [initial]
    while todo:
        q = todo.pop()
        for tgts in trans.get(q, {}).values():
            for r in tgts:
                if r not in seen:
                    seen.add(r)
                    todo.append(r)
    return seen


# --------------------------------------------------------------------------
# The property
# --------------------------------------------------------------------------

SHORT_WORDS_CACHE = {}


def short_words(symbols, max_len=3):
    key = (tuple(sorted(symbols)), max_len)
    if key not in SHORT_WORDS_CACHE:
        SHORT_WORDS_CACHE[key] = [
            "".join(w)
            for n in range(max_len + 1)
            for w in itertools.product(key[0], repeat=n)
        ]
    return SHORT_WORDS_CACHE[key]


def replay(source, source_view, result, what):
    """Replay short words through the library's own simulators as well."""
    for word in short_words(source.input_symbols):
        want = ref_accepts(source_view, word)
        assert source.accepts_input(word) == want, (what, "source", word)
        assert result.accepts_input(word) == want, (what, "result", word)


def check_nfa(nfa, do_replay):
    """All C07 claims that start from an NFA."""
    before = plain_nfa(nfa)
    src_view = nfa_view(before)
    symbols = before[1]

    # 1. determinisation, all four option combinations
    for retain_names in (False, True):
        for minify in (False, True):
            what = f"from_nfa(retain_names={retain_names}, minify={minify})"
            dfa = DFA.from_nfa(nfa, retain_names=retain_names, minify=minify)
            assert isinstance(dfa, DFA), what
            dfa.validate()
            spec = plain_dfa(dfa)
            check_valid_dfa(spec, dfa.allow_partial, what)
            assert spec[1] == symbols, f"{what}: alphabet changed"
            witness = find_difference(symbols, src_view, dfa_view(spec))
            assert witness is None, f"{what}: languages differ on {witness!r}"
            if do_replay:
                replay(nfa, src_view, dfa, what)
            assert plain_nfa(nfa) == before, f"{what}: operand mutated"

    # 2. epsilon elimination
    what = "eliminate_lambda()"
    res = nfa.eliminate_lambda()
    assert isinstance(res, NFA), what
    res.validate()
    spec = plain_nfa(res)
    check_valid_nfa(spec, what)
    assert spec[1] == symbols, f"{what}: alphabet changed"
    witness = find_difference(symbols, src_view, nfa_view(spec))
    assert witness is None, f"{what}: languages differ on {witness!r}"
    for q, row in spec[2].items():
        assert "" not in row, f"{what}: row {q!r} still has a lambda entry"
    reach = ref_reachable(spec[2], spec[3])
    assert spec[0] == reach, f"{what}: unreachable states {spec[0] - reach!r} left"
    assert set(spec[2]) <= spec[0], f"{what}: row for a non-state left"
    if do_replay:
        replay(nfa, src_view, res, what)
    assert plain_nfa(nfa) == before, f"{what}: operand mutated"


def check_dfa(dfa, do_replay):
    """The C07 claim that starts from a DFA (plus the round trip)."""
    before = plain_dfa(dfa)
    src_view = dfa_view(before)
    symbols = before[1]

    what = "NFA.from_dfa()"
    res = NFA.from_dfa(dfa)
    assert isinstance(res, NFA), what
    res.validate()
    spec = plain_nfa(res)
    check_valid_nfa(spec, what)
    assert spec[1] == symbols, f"{what}: alphabet changed"
    witness = find_difference(symbols, src_view, nfa_view(spec))
    assert witness is None, f"{what}: languages differ on {witness!r}"
    if do_replay:
        replay(dfa, src_view, res, what)
    assert plain_dfa(dfa) == before, f"{what}: operand mutated"

    # and back again through the NFA-side claims
    check_nfa(res, False)
    assert plain_dfa(dfa) == before, "round trip: operand mutated"


# --------------------------------------------------------------------------
# Input generators
# --------------------------------------------------------------------------


def make_names(rng, n):
    style = rng.randrange(4)
    if style == 0:
        return list(range(n))
    if style == 1:
        return [f"q{i}" for i in range(n)]
    if style == 2:
        return [(i, "x") for i in range(n)]
    # mixed, including names that look like the library's own fresh names
    pool = [0, -1, 1, "0", "q", (0,), frozenset({0}), frozenset(), 2, "trap"]
    rng.shuffle(pool)
    return pool[:n]


def random_nfa(rng):
    n = rng.randint(1, 5)
    names = make_names(rng, n)
    symbols = rng.choice(["a", "ab", "ab", "abc", "01"])
    initial = rng.choice(names)
    finals = {q for q in names if rng.random() < 0.35}
    p_row = rng.choice([0.5, 0.8, 1.0])
    p_lambda = rng.choice([0.0, 0.3, 0.6, 0.9])
    p_sym = rng.choice([0.3, 0.6, 0.9])
    transitions = {}
    for q in names:
        if q != initial and rng.random() > p_row:
            continue  # state without a transition entry
        row = {}
        for sym in symbols:
            if rng.random() < p_sym:
                k = rng.choice([0, 1, 1, 1, 2, 2, 3])  # 0: empty target set
                row[sym] = set(rng.sample(names, min(k, n)))
        if rng.random() < p_lambda:
            k = rng.choice([0, 1, 1, 2, 2, 3])
            row[""] = set(rng.sample(names, min(k, n)))  # may be a self loop
        transitions[q] = row
    return NFA(
        states=set(names),
        input_symbols=set(symbols),
        transitions=transitions,
        initial_state=initial,
        final_states=finals,
    )


def random_dfa(rng):
    n = rng.randint(1, 6)
    names = make_names(rng, n)
    symbols = rng.choice(["a", "ab", "ab", "abc", "01"])
    initial = rng.choice(names)
    finals = {q for q in names if rng.random() < 0.4}
    partial = rng.random() < 0.5
    p_edge = rng.choice([0.3, 0.6, 0.9]) if partial else 1.0
    transitions = {
        q: {sym: rng.choice(names) for sym in symbols if rng.random() < p_edge}
        for q in names
    }
    is_partial = any(len(row) != len(symbols) for row in transitions.values())
    return DFA(
        states=set(names),
        input_symbols=set(symbols),
        transitions=transitions,
        initial_state=initial,
        final_states=finals,
        allow_partial=partial or is_partial,
    )


def hand_picked_nfas():
    yield NFA(  # single state, no transitions at all, accepting
        states={0}, input_symbols={"a"}, transitions={}, initial_state=0,
        final_states={0},
    )
    yield NFA(  # single state, no transitions at all, rejecting
        states={0}, input_symbols={"a", "b"}, transitions={}, initial_state=0,
        final_states=set(),
    )
    yield NFA(  # lambda self loop only
        states={0}, input_symbols={"a"}, transitions={0: {"": {0}}},
        initial_state=0, final_states={0},
    )
    yield NFA(  # lambda cycle through all states, final only at the far end
        states={0, 1, 2},
        input_symbols={"a", "b"},
        transitions={0: {"": {1}}, 1: {"": {2}, "a": {1}}, 2: {"": {0}, "b": {2}}},
        initial_state=0,
        final_states={2},
    )
    yield NFA(  # empty target sets everywhere, lambda to empty set
        states={0, 1},
        input_symbols={"a", "b"},
        transitions={0: {"a": set(), "": set()}, 1: {"b": set()}},
        initial_state=0,
        final_states={1},
    )
    yield NFA(  # unreachable part containing the only final state
        states={0, 1, 2, 3},
        input_symbols={"a"},
        transitions={0: {"a": {1}}, 1: {"": {0}}, 2: {"a": {3}, "": {3}}, 3: {}},
        initial_state=0,
        final_states={3},
    )
    yield NFA(  # finality only through a lambda chain into a row-less state
        states={"s", "m", "f"},
        input_symbols={"a"},
        transitions={"s": {"a": {"s"}, "": {"m"}}, "m": {"": {"f"}}},
        initial_state="s",
        final_states={"f"},
    )
    yield NFA(  # state reachable only through lambda, with its own moves
        states={0, 1, 2},
        input_symbols={"a", "b"},
        transitions={0: {"": {1}}, 1: {"a": {2}}, 2: {"b": {0}}},
        initial_state=0,
        final_states={2},
    )
    yield NFA(  # row keyed by a name that is not a state (tolerated by validate)
        states={0, 1},
        input_symbols={"a"},
        transitions={0: {"a": {1}}, 1: {"": {0}}, "ghost": {"": {1}, "a": {0}}},
        initial_state=0,
        final_states={1},
    )
    yield NFA(  # library test-suite example
        states={0, 1, 2, 3, 4, 5, 6},
        initial_state=0,
        input_symbols={"a", "b", "c"},
        transitions={
            0: {"a": {1}},
            1: {"": {2, 6}, "b": {2}},
            2: {"": {4}, "c": {3}},
            4: {"a": {5}},
        },
        final_states={3, 6},
    )
    yield NFA(  # library test-suite example
        states={0, 1, 2},
        initial_state=0,
        input_symbols={"a", "b"},
        transitions={0: {"a": {1}}, 1: {"": {2}, "b": {1}}, 2: {"b": {2}}},
        final_states={2},
    )
    yield NFA(  # names that clash with fresh names used by the library
        states={0, -1, frozenset({0}), frozenset()},
        input_symbols={"0", "1"},
        transitions={
            0: {"0": {-1, frozenset({0})}, "": {frozenset()}},
            -1: {"1": {0}},
            frozenset({0}): {"": {-1}},
            frozenset(): {"1": {frozenset()}},
        },
        initial_state=0,
        final_states={frozenset()},
    )
    for regex in ["", "a*", "(a|b)*abb", "a(b|())c*", "(ab)*|(ba)*", "a?b?c?", "()"]:
        yield NFA.from_regex(regex)
        yield NFA.from_regex(regex, input_symbols={"a", "b", "c", "d"})


def hand_picked_dfas():
    yield DFA(  # one state, complete, accepts everything
        states={0}, input_symbols={"a"}, transitions={0: {"a": 0}},
        initial_state=0, final_states={0},
    )
    yield DFA(  # one state, partial, no transitions
        states={0}, input_symbols={"a", "b"}, transitions={0: {}},
        initial_state=0, final_states={0}, allow_partial=True,
    )
    yield DFA(  # empty language, unreachable final state
        states={0, 1}, input_symbols={"a"},
        transitions={0: {"a": 0}, 1: {"a": 1}},
        initial_state=0, final_states={1},
    )
    yield DFA(  # partial with dead state
        states={"p", "q", "dead"}, input_symbols={"a", "b"},
        transitions={"p": {"a": "q", "b": "dead"}, "q": {"a": "p"}, "dead": {}},
        initial_state="p", final_states={"q"}, allow_partial=True,
    )
    yield DFA.from_finite_language({"a", "b"}, {"", "ab", "abb", "ba"})
    yield DFA.universal_language({"a", "b"})
    yield DFA.empty_language({"a", "b"})
    yield DFA.from_substring({"0", "1"}, "0110")
    yield DFA.of_length({"a", "b"}, min_length=1, max_length=3)


# --------------------------------------------------------------------------


def main():
    seed = int(sys.argv[1]) if len(sys.argv) > 1 else 20260926
    n_random = int(sys.argv[2]) if len(sys.argv) > 2 else 2500
    rng = random.Random(seed)

    n_nfa = n_dfa = 0
    for nfa in hand_picked_nfas():
        check_nfa(nfa, True)
        n_nfa += 1
    for dfa in hand_picked_dfas():
        check_dfa(dfa, True)
        n_dfa += 1
    for i in range(n_random):
        check_nfa(random_nfa(rng), i % 5 == 0)
        n_nfa += 1
    for i in range(n_random // 2):
        check_dfa(random_dfa(rng), i % 5 == 0)
        n_dfa += 1

    print(
        f"checked {n_nfa} NFAs (x4 from_nfa option combinations + eliminate_lambda) "
        f"and {n_dfa} DFAs (from_dfa + round trip), seed {seed}"
    )
    print("property holds")


if __name__ == "__main__":
    main()
