"""
Demo for property C18 -- "Automata are immutable values: no call changes an
operand; copies round-trip".

Run as:  PYTHONPATH=<tree> /venv/bin/python demo.py

What is checked (under BOTH settings of automata.base.config.allow_mutable_automata):

  1. setting / deleting any attribute of an automaton raises AttributeError and
     leaves the definition alone;
  2. in the default configuration every nested container stored in the automaton
     is immutable (frozenset / frozendict / tuple), and mutating the containers
     that were handed to the constructor afterwards does not change the automaton;
  3. after every call of a random sequence of public operations / queries /
     conversions, the definition of EVERY automaton alive (operands and earlier
     results) is identical to an independent snapshot taken when it was created,
     and the language it accepts (library's accepts_input) still coincides with a
     brute-force reference simulation run on that snapshot;
  4. copy() and a pickle round trip return a distinct object of exactly the same
     class whose definition is identical.

The reference (snapshot, canonical form, NFA/DFA simulators) is written here and
does not use the library.
"""

import copy
import itertools
import pickle
import random
import sys
from collections.abc import Mapping
from collections.abc import Set as AbstractSet

import automata.base.config as global_config
from automata.base.exceptions import RejectionException
from automata.fa.dfa import DFA
from automata.fa.gnfa import GNFA
from automata.fa.nfa import NFA
from automata.pda.dpda import DPDA
from automata.pda.npda import NPDA
from automata.tm.dtm import DTM
from automata.tm.mntm import MNTM
from automata.tm.ntm import NTM
from frozendict import frozendict

SEED = 20260926
N_TRIALS = 450  # per mode; each trial builds 2 NFAs + 2 DFAs => 3600 random inputs
OPS_PER_TRIAL = 7
ALPHABET = ("a", "b")
MAX_WORD_LEN = 4
WORDS = [
    "".join(w) for n in range(MAX_WORD_LEN + 1) for w in itertools.product(ALPHABET, repeat=n)
]
MAX_POOL_STATES = 14

failures = []
stats = {"automata": 0, "calls": 0, "calls_raising": 0, "checks": 0}


def fail(msg):
    failures.append(msg)
    print("PROPERTY VIOLATED:", msg)
    if len(failures) > 10:
        sys.exit(1)


# --------------------------------------------------------------------------
# independent helpers: canonical form, thawing, deep-frozen test
# --------------------------------------------------------------------------
def canon(v):
    """Hashable canonical form of a nested definition (container kind kept,
    list == tuple because freezing turns lists into tuples)."""
    if isinstance(v, Mapping):
        return ("D", frozenset((canon(k), canon(x)) for k, x in v.items()))
    if isinstance(v, (set, frozenset, AbstractSet)):
        return ("S", frozenset(canon(x) for x in v))
    if isinstance(v, (list, tuple)):
        return ("T", tuple(canon(x) for x in v))
    return v


def thaw(v):
    """Independent deep copy (fresh dicts / sets; immutable values rebuilt)."""
    if isinstance(v, Mapping):
        return {k: thaw(x) for k, x in v.items()}
    if isinstance(v, frozenset):
        # may be a state NAME (e.g. subset-construction states): keep hashable
        return frozenset(thaw_key(x) for x in v)
    if isinstance(v, set):
        return {thaw_key(x) for x in v}
    if isinstance(v, (list, tuple)):
        return tuple(thaw(x) for x in v)
    return v


def thaw_key(v):
    # members of sets must stay hashable
    if isinstance(v, (set, frozenset)):
        return frozenset(thaw_key(x) for x in v)
    if isinstance(v, (list, tuple)):
        return tuple(thaw_key(x) for x in v)
    return v


def deep_frozen(v):
    if isinstance(v, (str, int, bool)) or v is None:
        return True
    if isinstance(v, frozendict):
        return all(deep_frozen(k) and deep_frozen(x) for k, x in v.items())
    if isinstance(v, frozenset):
        return all(deep_frozen(x) for x in v)
    if isinstance(v, tuple):
        return all(deep_frozen(x) for x in v)
    return False


# --------------------------------------------------------------------------
# brute-force reference semantics on a snapshot (plain dicts / sets)
# --------------------------------------------------------------------------
def ref_nfa_accepts(d, word):
    tr = d["transitions"]

    def closure(states):
        seen = set(states)
        todo = list(states)
        while todo:
            q = todo.pop()
            for r in tr.get(q, {}).get("", ()):
                if r not in seen:
                    seen.add(r)
                    todo.append(r)
        return seen

    cur = closure({d["initial_state"]})
    for ch in word:
        nxt = set()
        for q in cur:
            nxt |= set(tr.get(q, {}).get(ch, ()))
        cur = closure(nxt)
    return any(q in d["final_states"] for q in cur)


def ref_dfa_accepts(d, word):
    q = d["initial_state"]
    for ch in word:
        row = d["transitions"].get(q, {})
        if ch not in row:
            return False
        q = row[ch]
    return q in d["final_states"]


def ref_language(kind, d):
    f = ref_nfa_accepts if kind == "nfa" else ref_dfa_accepts
    return frozenset(w for w in WORDS if f(d, w))


def lib_language(m):
    return frozenset(w for w in WORDS if m.accepts_input(w))


# --------------------------------------------------------------------------
# random definitions, made of ordinary mutable containers
# --------------------------------------------------------------------------
def rand_state_names(rng, n):
    style = rng.randrange(4)
    if style == 0:
        return list(range(n))
    if style == 1:
        return ["q%d" % i for i in range(n)]
    if style == 2:
        return [(i, "x") for i in range(n)]
    return [frozenset({i, i + 1}) for i in range(n)]


def rand_nfa_def(rng):
    n = rng.randint(1, 4)
    names = rand_state_names(rng, n)
    transitions = {}
    for q in names:
        if n > 1 and q != names[0] and rng.random() < 0.2:
            continue  # state without a row
        row = {}
        for sym in ALPHABET + ("",):
            if rng.random() < 0.55:
                k = rng.choice([0, 1, 1, 2, 3])
                row[sym] = set(rng.sample(names, min(k, n)))
        transitions[q] = row
    finals = set(rng.sample(names, rng.randint(0, n)))
    return dict(
        states=set(names),
        input_symbols=set(ALPHABET),
        transitions=transitions,
        initial_state=names[0],
        final_states=finals,
    )


def rand_dfa_def(rng):
    n = rng.randint(1, 4)
    names = rand_state_names(rng, n)
    partial = rng.random() < 0.4
    transitions = {}
    for q in names:
        row = {}
        for sym in ALPHABET:
            if partial and rng.random() < 0.35:
                continue
            row[sym] = rng.choice(names)
        transitions[q] = row
    finals = set(rng.sample(names, rng.randint(0, n)))
    return dict(
        states=set(names),
        input_symbols=set(ALPHABET),
        transitions=transitions,
        initial_state=names[0],
        final_states=finals,
        allow_partial=partial,
    )


# --------------------------------------------------------------------------
# pool of live automata with their snapshots
# --------------------------------------------------------------------------
class Entry:
    def __init__(self, kind, machine, snapshot, origin):
        self.kind = kind  # "nfa" / "dfa" / "other"
        self.m = machine
        self.snap = snapshot  # independent plain copy of the definition
        self.csnap = canon(snapshot)
        self.lang = ref_language(kind, snapshot) if kind in ("nfa", "dfa") else None
        self.origin = origin


def entry_from_result(machine, origin):
    kind = "nfa" if isinstance(machine, NFA) else "dfa" if isinstance(machine, DFA) else "other"
    return Entry(kind, machine, thaw(machine.input_parameters), origin)


def check_entry(e, context, check_language=True):
    stats["checks"] += 1
    now = canon(e.m.input_parameters)
    if now != e.csnap:
        fail("definition of %s (%s) changed after %s" % (type(e.m).__name__, e.origin, context))
        return
    if check_language and e.lang is not None:
        got = lib_language(e.m)
        if got != e.lang:
            fail("language of %s (%s) changed after %s" % (type(e.m).__name__, e.origin, context))


def check_attr_protection(e):
    m = e.m
    names = list(m.input_parameters) + ["brand_new_attribute"]
    for name in names:
        try:
            setattr(m, name, set())
        except AttributeError:
            pass
        else:
            fail("setattr(%s, %r) did not raise AttributeError" % (type(m).__name__, name))
        try:
            delattr(m, name)
        except AttributeError:
            pass
        else:
            fail("delattr(%s, %r) did not raise AttributeError" % (type(m).__name__, name))
    check_entry(e, "setattr/delattr attempts", check_language=False)


def check_round_trips(e):
    m = e.m
    for how, clone in (("copy()", m.copy()), ("pickle", pickle.loads(pickle.dumps(m)))):
        if clone is m:
            fail("%s returned the very same object" % how)
        if type(clone) is not type(m):
            fail("%s changed the class: %s -> %s" % (how, type(m).__name__, type(clone).__name__))
        if clone.input_parameters != m.input_parameters:
            fail("%s: input_parameters differ (==) for %s" % (how, e.origin))
        if canon(clone.input_parameters) != e.csnap:
            fail("%s: definition not identical for %s" % (how, e.origin))
        if e.lang is not None and lib_language(clone) != e.lang:
            fail("%s: language differs for %s" % (how, e.origin))
    check_entry(e, "copy()/pickle")


def check_frozen_and_detached(e, given):
    """Default configuration only: containers are immutable and detached from
    the objects handed to the constructor."""
    for name, value in e.m.input_parameters.items():
        if not deep_frozen(value):
            fail("%s.%s is not stored in immutable form: %r" % (type(e.m).__name__, name, type(value)))
    scribble(given)
    check_entry(e, "mutating the constructor arguments")


def scribble(v):
    """Mutate every mutable container reachable from v, in place."""
    if isinstance(v, dict):
        for x in list(v.values()):
            scribble(x)
        v["__scribbled__"] = {"zz": {"__nowhere__"}}
        if len(v) > 1:
            del v[next(iter(v))]
    elif isinstance(v, set):
        v.add("__scribbled__")
        if len(v) > 1:
            v.discard(next(iter(v)))
    elif isinstance(v, list):
        for x in v:
            scribble(x)
        v.append("__scribbled__")
    elif isinstance(v, tuple):
        for x in v:
            scribble(x)


# --------------------------------------------------------------------------
# public calls
# --------------------------------------------------------------------------
def consume(gen, limit=40):
    return list(itertools.islice(gen, limit))


def read_stepwise(m, w):
    try:
        return consume(m.read_input_stepwise(w))
    except RejectionException:
        return None


def read(m, w):
    try:
        return m.read_input(w)
    except RejectionException:
        return None


NFA_UNARY = [
    ("kleene_star", lambda a, r: a.kleene_star()),
    ("option", lambda a, r: a.option()),
    ("reverse", lambda a, r: a.reverse()),
    ("eliminate_lambda", lambda a, r: a.eliminate_lambda()),
    ("copy", lambda a, r: a.copy()),
    ("repr", lambda a, r: repr(a)),
    ("validate", lambda a, r: a.validate()),
    ("iter_transitions", lambda a, r: consume(a.iter_transitions(), 1000)),
    ("input_parameters", lambda a, r: a.input_parameters),
    ("accepts_input", lambda a, r: a.accepts_input(r.choice(WORDS))),
    ("contains", lambda a, r: r.choice(WORDS) in a),
    ("read_input", lambda a, r: read(a, r.choice(WORDS))),
    ("read_input_stepwise", lambda a, r: read_stepwise(a, r.choice(WORDS))),
    ("DFA.from_nfa", lambda a, r: DFA.from_nfa(a)),
    ("DFA.from_nfa(minify=False)", lambda a, r: DFA.from_nfa(a, minify=False)),
    ("GNFA.from_nfa", lambda a, r: GNFA.from_nfa(a)),
    ("GNFA.from_nfa.to_regex", lambda a, r: GNFA.from_nfa(a).to_regex()),
    ("pickle", lambda a, r: pickle.loads(pickle.dumps(a))),
    ("deepcopy", lambda a, r: copy.deepcopy(a)),
]
NFA_BINARY = [
    ("union", lambda a, b: a.union(b)),
    ("|", lambda a, b: a | b),
    ("concatenate", lambda a, b: a.concatenate(b)),
    ("+", lambda a, b: a + b),
    ("intersection", lambda a, b: a.intersection(b)),
    ("&", lambda a, b: a & b),
    ("shuffle_product", lambda a, b: a.shuffle_product(b)),
    ("left_quotient", lambda a, b: a.left_quotient(b)),
    ("right_quotient", lambda a, b: a.right_quotient(b)),
    ("==", lambda a, b: a == b),
    ("!=", lambda a, b: a != b),
]
DFA_UNARY = [
    ("complement", lambda a, r: a.complement()),
    ("complement(retain_names)", lambda a, r: a.complement(retain_names=True, minify=False)),
    ("minify", lambda a, r: a.minify()),
    ("minify(retain_names)", lambda a, r: a.minify(retain_names=True)),
    ("to_partial", lambda a, r: a.to_partial()),
    ("to_partial(no minify)", lambda a, r: a.to_partial(retain_names=True, minify=False)),
    ("to_complete", lambda a, r: a.to_complete()),
    ("copy", lambda a, r: a.copy()),
    ("repr", lambda a, r: repr(a)),
    ("validate", lambda a, r: a.validate()),
    ("iter_transitions", lambda a, r: consume(a.iter_transitions(), 1000)),
    ("input_parameters", lambda a, r: a.input_parameters),
    ("accepts_input", lambda a, r: a.accepts_input(r.choice(WORDS))),
    ("contains", lambda a, r: r.choice(WORDS) in a),
    ("read_input", lambda a, r: read(a, r.choice(WORDS))),
    ("read_input_stepwise", lambda a, r: read_stepwise(a, r.choice(WORDS))),
    ("isempty", lambda a, r: a.isempty()),
    ("isfinite", lambda a, r: a.isfinite()),
    ("cardinality", lambda a, r: a.cardinality()),
    ("len", lambda a, r: len(a)),
    ("minimum_word_length", lambda a, r: a.minimum_word_length()),
    ("maximum_word_length", lambda a, r: a.maximum_word_length()),
    ("count_words_of_length", lambda a, r: a.count_words_of_length(r.randrange(5))),
    ("words_of_length", lambda a, r: consume(a.words_of_length(r.randrange(5)))),
    ("iter", lambda a, r: consume(iter(a), 12)),
    ("successor", lambda a, r: a.successor(r.choice(WORDS), max_length=5)),
    ("predecessor", lambda a, r: a.predecessor(r.choice(WORDS), max_length=5)),
    ("successors", lambda a, r: consume(a.successors(r.choice(WORDS), max_length=5), 8)),
    ("predecessors", lambda a, r: consume(a.predecessors(r.choice(WORDS), max_length=5), 8)),
    ("random_word", lambda a, r: a.random_word(r.randrange(5), seed=r.randrange(100))),
    ("clear_cache", lambda a, r: a.clear_cache()),
    ("NFA.from_dfa", lambda a, r: NFA.from_dfa(a)),
    ("GNFA.from_dfa", lambda a, r: GNFA.from_dfa(a)),
    ("GNFA.from_dfa.to_regex", lambda a, r: GNFA.from_dfa(a).to_regex()),
    ("pickle", lambda a, r: pickle.loads(pickle.dumps(a))),
    ("deepcopy", lambda a, r: copy.deepcopy(a)),
]
DFA_BINARY = [
    ("union", lambda a, b: a.union(b)),
    ("|", lambda a, b: a | b),
    ("intersection", lambda a, b: a.intersection(b)),
    ("&", lambda a, b: a & b),
    ("difference", lambda a, b: a.difference(b)),
    ("-", lambda a, b: a - b),
    ("symmetric_difference", lambda a, b: a.symmetric_difference(b)),
    ("^", lambda a, b: a ^ b),
    ("union(no minify)", lambda a, b: a.union(b, retain_names=True, minify=False)),
    ("issubset", lambda a, b: a.issubset(b)),
    ("issuperset", lambda a, b: a.issuperset(b)),
    ("isdisjoint", lambda a, b: a.isdisjoint(b)),
    ("==", lambda a, b: a == b),
    ("<=", lambda a, b: a <= b),
    (">", lambda a, b: a > b),
]


def run_history(rng, pool, n_ops, label):
    for step in range(n_ops):
        nfas = [e for e in pool if e.kind == "nfa"]
        dfas = [e for e in pool if e.kind == "dfa"]
        side = rng.choice(["nfa", "dfa"]) if (nfas and dfas) else ("nfa" if nfas else "dfa")
        group = nfas if side == "nfa" else dfas
        unary, binary = (NFA_UNARY, NFA_BINARY) if side == "nfa" else (DFA_UNARY, DFA_BINARY)
        if rng.random() < 0.5:
            name, fn = rng.choice(unary)
            a = rng.choice(group)
            call = lambda: fn(a.m, rng)  # noqa: E731
            desc = "%s.%s on %s" % (side, name, a.origin)
        else:
            name, fn = rng.choice(binary)
            a, b = rng.choice(group), rng.choice(group)
            call = lambda: fn(a.m, b.m)  # noqa: E731
            desc = "%s.%s on %s, %s" % (side, name, a.origin, b.origin)
        stats["calls"] += 1
        result = None
        try:
            result = call()
        except Exception:  # an exception raised by a call is not a C18 matter
            stats["calls_raising"] += 1
        # no operand (nor any older automaton) may have changed
        for e in pool:
            check_entry(e, "%s [%s step %d]" % (desc, label, step), check_language=(e is a or step == n_ops - 1))
        if isinstance(result, (NFA, DFA, GNFA)):
            new = entry_from_result(result, "result of " + name)
            if new.kind == "other" or len(result.states) <= MAX_POOL_STATES:
                check_entry(new, "its own construction")
                pool.append(new)


def random_trials(rng, mutable):
    label = "mutable" if mutable else "frozen"
    for trial in range(N_TRIALS):
        pool = []
        for kind, maker, cls in (
            ("nfa", rand_nfa_def, NFA),
            ("nfa", rand_nfa_def, NFA),
            ("dfa", rand_dfa_def, DFA),
            ("dfa", rand_dfa_def, DFA),
        ):
            given = maker(rng)
            snapshot = copy.deepcopy(given)
            machine = cls(**given)
            stats["automata"] += 1
            e = Entry(kind, machine, snapshot, "%s#%d.%d" % (kind, trial, len(pool)))
            check_entry(e, "construction")
            check_attr_protection(e)
            if not mutable:
                check_frozen_and_detached(e, given)
            pool.append(e)
        run_history(rng, pool, OPS_PER_TRIAL, label)
        for e in pool:
            if e.kind != "other" or trial % 5 == 0:
                check_round_trips(e)
            if e.kind == "other":
                check_attr_protection(e)
        for e in pool:
            check_entry(e, "end of history [%s trial %d]" % (label, trial))


# --------------------------------------------------------------------------
# hand-picked inputs: every automaton class
# --------------------------------------------------------------------------
def handpicked_defs():
    out = []
    out.append(
        (
            NFA,
            dict(
                states={"q0", "q1", "q2"},
                input_symbols={"a", "b"},
                transitions={"q0": {"": {"q1"}, "a": set()}, "q1": {"": {"q0", "q2"}, "b": {"q1"}}, "q2": {"": set()}},
                initial_state="q0",
                final_states={"q2"},
            ),
        )
    )
    out.append(
        (
            NFA,
            dict(states={0}, input_symbols={"a", "b"}, transitions={}, initial_state=0, final_states={0}),
        )
    )
    out.append(
        (
            NFA,
            dict(
                states={0, 1, 2},
                input_symbols={"a", "b"},
                transitions={0: {"a": {1}}, 1: {"": {2}}, 7: {"a": {0}}},  # row keyed by a non-state
                initial_state=0,
                final_states={1},
            ),
        )
    )
    out.append(
        (
            DFA,
            dict(
                states={"s", "t"},
                input_symbols={"a", "b"},
                transitions={"s": {"a": "t", "b": "s"}, "t": {"a": "s", "b": "t"}},
                initial_state="s",
                final_states={"t"},
                allow_partial=False,
            ),
        )
    )
    out.append(
        (
            DFA,
            dict(
                states={0, 1},
                input_symbols={"a", "b"},
                transitions={0: {"a": 1}, 1: {}},
                initial_state=0,
                final_states={1},
                allow_partial=True,
            ),
        )
    )
    out.append(
        (
            GNFA,
            dict(
                states={0, 1, 2},
                input_symbols={"a", "b"},
                transitions={0: {1: "a", 2: None}, 1: {1: "b*", 2: ""}},
                initial_state=0,
                final_state=2,
            ),
        )
    )
    out.append(
        (
            DPDA,
            dict(
                states={"q0", "q1", "q2", "q3"},
                input_symbols={"a", "b"},
                stack_symbols={"0", "1"},
                transitions={
                    "q0": {"a": {"0": ("q1", ("1", "0"))}},
                    "q1": {"a": {"1": ("q1", ("1", "1"))}, "b": {"1": ("q2", "")}},
                    "q2": {"b": {"1": ("q2", "")}, "": {"0": ("q3", ("0",))}},
                },
                initial_state="q0",
                initial_stack_symbol="0",
                final_states={"q3"},
                acceptance_mode="final_state",
            ),
        )
    )
    out.append(
        (
            NPDA,
            dict(
                states={"q0", "q1", "q2"},
                input_symbols={"a", "b"},
                stack_symbols={"A", "B", "#"},
                transitions={
                    "q0": {
                        "": {"#": {("q2", "#")}},
                        "a": {"#": {("q0", ("A", "#"))}, "A": {("q0", ("A", "A")), ("q1", "")}, "B": {("q0", ("A", "B"))}},
                        "b": {"#": {("q0", ("B", "#"))}, "A": {("q0", ("B", "A"))}, "B": {("q0", ("B", "B")), ("q1", "")}},
                    },
                    "q1": {"": {"#": {("q2", "#")}}, "a": {"A": {("q1", "")}}, "b": {"B": {("q1", "")}}},
                },
                initial_state="q0",
                initial_stack_symbol="#",
                final_states={"q2"},
                acceptance_mode="final_state",
            ),
        )
    )
    out.append(
        (
            DTM,
            dict(
                states={"q0", "q1", "q2", "q3", "q4"},
                input_symbols={"a", "b"},
                tape_symbols={"a", "b", "x", "y", "."},
                transitions={
                    "q0": {"a": ("q1", "x", "R"), "y": ("q3", "y", "R")},
                    "q1": {"a": ("q1", "a", "R"), "b": ("q2", "y", "L"), "y": ("q1", "y", "R")},
                    "q2": {"a": ("q2", "a", "L"), "x": ("q0", "x", "R"), "y": ("q2", "y", "L")},
                    "q3": {"y": ("q3", "y", "R"), ".": ("q4", ".", "R")},
                },
                initial_state="q0",
                blank_symbol=".",
                final_states={"q4"},
            ),
        )
    )
    out.append(
        (
            NTM,
            dict(
                states={"q0", "q1", "q2", "q3"},
                input_symbols={"a", "b"},
                tape_symbols={"a", "b", "."},
                transitions={
                    "q0": {"a": {("q0", "a", "R")}, "b": {("q1", "b", "R"), ("q2", "b", "R")}},
                    "q1": {"b": {("q1", "b", "R")}, ".": {("q3", ".", "N")}},
                    "q2": {"a": {("q0", "a", "R")}},
                },
                initial_state="q0",
                blank_symbol=".",
                final_states={"q3"},
            ),
        )
    )
    out.append(
        (
            MNTM,
            dict(
                states={"q0", "q1"},
                input_symbols={"a", "b"},
                tape_symbols={"a", "b", "#"},
                n_tapes=2,
                transitions={
                    "q0": {
                        ("b", "#"): [("q0", (("b", "R"), ("b", "R")))],
                        ("a", "#"): [("q0", (("a", "R"), ("#", "N")))],
                        ("#", "#"): [("q1", (("#", "N"), ("#", "N")))],
                    }
                },
                initial_state="q0",
                blank_symbol="#",
                final_states={"q1"},
            ),
        )
    )
    return out


def handpicked(mutable):
    label = "mutable" if mutable else "frozen"
    rng = random.Random(SEED + 7)
    pool = []
    for cls, given in handpicked_defs():
        snapshot = copy.deepcopy(given)
        machine = cls(**given)
        stats["automata"] += 1
        kind = "nfa" if cls is NFA else "dfa" if cls is DFA else "other"
        e = Entry(kind, machine, snapshot, "handpicked %s" % cls.__name__)
        check_entry(e, "construction")
        check_attr_protection(e)
        if not mutable:
            check_frozen_and_detached(e, given)
        if cls not in (GNFA,):
            # queries on every class (GNFA does not read input)
            before = [machine.accepts_input(w) for w in WORDS[:15]]
            for w in WORDS[:15]:
                try:
                    consume(machine.read_input_stepwise(w), 60)
                except Exception:
                    pass
            after = [machine.accepts_input(w) for w in WORDS[:15]]
            if before != after:
                fail("answers of %s changed between two rounds of queries" % cls.__name__)
            if cls is MNTM:
                for w in WORDS[:7]:
                    try:
                        consume(machine.read_input_as_ntm(w), 60)
                    except Exception:
                        pass
        else:
            machine.to_regex()
        repr(machine)
        check_entry(e, "queries [%s]" % label)
        check_round_trips(e)
        pool.append(e)
    # regex-built NFAs and library-built DFAs as further operands
    for rx in ("a*b|()", "(ab)*&(a|b)*", "a?b+", "(a|b){2,3}"):
        m = NFA.from_regex(rx, input_symbols=set(ALPHABET))
        pool.append(entry_from_result(m, "NFA.from_regex(%r)" % rx))
    for m, origin in (
        (DFA.from_finite_language(set(ALPHABET), {"a", "ab", "bba"}), "from_finite_language"),
        (DFA.from_substring(set(ALPHABET), "ab"), "from_substring"),
        (DFA.of_length(set(ALPHABET), min_length=1, max_length=3), "of_length"),
        (DFA.universal_language(set(ALPHABET)), "universal"),
        (DFA.empty_language(set(ALPHABET)), "empty"),
        (NFA.edit_distance(set(ALPHABET), "ab", 1), "edit_distance"),
    ):
        pool.append(entry_from_result(m, origin))
    for e in pool:
        check_entry(e, "construction")
    # every unary / binary call once on every fitting operand
    fa_pool = [e for e in pool if e.kind in ("nfa", "dfa")]
    for e in list(fa_pool):
        unary = NFA_UNARY if e.kind == "nfa" else DFA_UNARY
        for name, fn in unary:
            stats["calls"] += 1
            try:
                fn(e.m, rng)
            except Exception:
                stats["calls_raising"] += 1
            check_entry(e, "%s [%s handpicked]" % (name, label), check_language=False)
        check_entry(e, "all unary calls [%s handpicked]" % label)
    for e1 in list(fa_pool):
        for e2 in list(fa_pool):
            if e1.kind != e2.kind:
                continue
            binary = NFA_BINARY if e1.kind == "nfa" else DFA_BINARY
            for name, fn in binary:
                stats["calls"] += 1
                try:
                    fn(e1.m, e2.m)
                except Exception:
                    stats["calls_raising"] += 1
                check_entry(e1, "%s [%s handpicked]" % (name, label), check_language=False)
                check_entry(e2, "%s [%s handpicked]" % (name, label), check_language=False)
    for e in pool:
        check_entry(e, "end of handpicked [%s]" % label)
        check_round_trips(e)


def switching_modes():
    """Automata built under one setting stay intact when used under the other."""
    rng = random.Random(SEED + 99)
    for trial in range(60):
        pool = []
        for mutable in (False, True):
            global_config.allow_mutable_automata = mutable
            for kind, maker, cls in (("nfa", rand_nfa_def, NFA), ("dfa", rand_dfa_def, DFA)):
                given = maker(rng)
                snapshot = copy.deepcopy(given)
                stats["automata"] += 1
                pool.append(Entry(kind, cls(**given), snapshot, "%s built %s" % (kind, "mutable" if mutable else "frozen")))
        for mutable in (True, False):
            global_config.allow_mutable_automata = mutable
            run_history(rng, pool, 4, "mixed")
            for e in pool:
                if e.kind != "other":
                    check_round_trips(e)


def main():
    saved = global_config.allow_mutable_automata
    try:
        for mutable in (False, True):
            global_config.allow_mutable_automata = mutable
            handpicked(mutable)
            random_trials(random.Random(SEED + int(mutable)), mutable)
        switching_modes()
    finally:
        global_config.allow_mutable_automata = saved
    print(
        "%(automata)d automata built, %(calls)d public calls (%(calls_raising)d raised), "
        "%(checks)d definition checks" % stats
    )
    if failures:
        print("property VIOLATED (%d failures)" % len(failures))
        sys.exit(1)
    print("property holds")


if __name__ == "__main__":
    main()
