"""Property C03: Turing-machine simulation is faithful step by step.

Run as:  PYTHONPATH=<tree> /venv/bin/python demo.py

The reference below is a brute-force simulator working on a tape that is
infinite in both directions (a dict from absolute cell index to symbol, every
absent cell being blank).  It is compared, step by step, with what the
library's ``read_input_stepwise`` generators yield for

  * random and hand-picked DTMs  (k-th configuration),
  * random NTMs                  (k-th *set* of configurations),
  * random multitape MNTMs       (breadth-first sequence of configurations),

together with the halting behaviour (stop right after a final state is
reached / RejectionException when every branch is stuck) and the agreement of
the DTM / NTM / one-tape MNTM verdicts for the same deterministic table.

Configurations are compared in two ways:
  canon   -- up to blank padding (state, tape trimmed to the hull of the
             non-blank cells and the head, head offset in it); this is the
             property as stated;
  strict  -- the exact finite window the library keeps (input cells plus all
             cells the head has visited), i.e. ``TMTape.tape`` and
             ``current_position`` verbatim (what ``==``/``repr`` expose).
"""

import random
import sys
from collections import deque

from automata.base.exceptions import RejectionException
from automata.tm.configuration import MTMConfiguration, TMConfiguration
from automata.tm.dtm import DTM
from automata.tm.mntm import MNTM
from automata.tm.ntm import NTM
from automata.tm.tape import TMTape

BLANK = "."
DELTA = {"L": -1, "N": 0, "R": 1}
CHECKS = {"dtm": 0, "ntm": 0, "mntm": 0, "cross": 0, "tape": 0, "hand": 0}


def fail(msg):
    print("PROPERTY VIOLATED:", msg)
    sys.exit(1)


# --------------------------------------------------------------------------
# Reference: one tape, infinite in both directions
# --------------------------------------------------------------------------
class RefTape:
    """Immutable two-way infinite tape (absolute coordinates)."""

    __slots__ = ("cells", "head", "lo", "hi")

    def __init__(self, cells, head, lo, hi):
        self.cells = cells  # frozenset of (index, symbol), symbol != BLANK
        self.head = head
        self.lo = lo  # leftmost cell of the window the library materialises
        self.hi = hi  # rightmost such cell

    @classmethod
    def from_input(cls, s):
        cells = frozenset((i, c) for i, c in enumerate(s) if c != BLANK)
        return cls(cells, 0, 0, max(len(s) - 1, 0))

    def read(self):
        return dict(self.cells).get(self.head, BLANK)

    def step(self, write, direction):
        d = dict(self.cells)
        if write == BLANK:
            d.pop(self.head, None)
        else:
            d[self.head] = write
        head = self.head + DELTA[direction]
        return RefTape(
            frozenset(d.items()), head, min(self.lo, head), max(self.hi, head)
        )

    def key(self):
        return (self.cells, self.head, self.lo, self.hi)

    def strict(self):
        d = dict(self.cells)
        return (
            tuple(d.get(i, BLANK) for i in range(self.lo, self.hi + 1)),
            self.head - self.lo,
        )

    def canon(self):
        d = dict(self.cells)
        lo = min([self.head] + list(d))
        hi = max([self.head] + list(d))
        return (tuple(d.get(i, BLANK) for i in range(lo, hi + 1)), self.head - lo)


def lib_tape_strict(t):
    if not isinstance(t, TMTape):
        fail("not a TMTape: %r" % (t,))
    if t.blank_symbol != BLANK:
        fail("blank symbol of tape changed: %r" % (t,))
    return (tuple(t.tape), t.current_position)


def lib_tape_canon(t):
    cells, pos = lib_tape_strict(t)
    if not (0 <= pos < len(cells)):
        fail("head outside the materialised tape: %r" % (t,))
    nb = [i for i, c in enumerate(cells) if c != BLANK]
    lo = min([pos] + nb)
    hi = max([pos] + nb)
    return (cells[lo : hi + 1], pos - lo)


# --------------------------------------------------------------------------
# Random machines
# --------------------------------------------------------------------------
def rand_alphabet(rng):
    input_symbols = set(rng.sample(["a", "b"], rng.randint(1, 2)))
    tape_symbols = set(input_symbols) | {BLANK}
    if rng.random() < 0.5:
        tape_symbols.add("x")
    return input_symbols, tape_symbols


def rand_dirs(rng):
    # bias some machines towards running off the left / right end or staying
    r = rng.random()
    if r < 0.25:
        return ["L", "L", "L", "N", "R"]
    if r < 0.5:
        return ["R", "R", "R", "N", "L"]
    return ["L", "N", "R"]


def rand_states(rng):
    n = rng.randint(1, 5)
    states = ["q%d" % i for i in range(n)]
    finals = {q for q in states[1:] if rng.random() < 0.3}
    return states, finals


def rand_det_table(rng):
    """Random deterministic table {state: {symbol: (state, write, dir)}}."""
    input_symbols, tape_symbols = rand_alphabet(rng)
    states, finals = rand_states(rng)
    dirs = rand_dirs(rng)
    dens = rng.choice([0.4, 0.7, 0.9, 1.0])
    syms = sorted(tape_symbols)
    table = {}
    for q in states:
        if q in finals:
            continue
        row = {}
        for a in syms:
            if rng.random() < dens:
                w = BLANK if rng.random() < 0.25 else rng.choice(syms)
                row[a] = (rng.choice(states), w, rng.choice(dirs))
        if row or q == "q0" or rng.random() < 0.3:
            table[q] = row
    return dict(
        states=set(states),
        input_symbols=input_symbols,
        tape_symbols=tape_symbols,
        initial_state="q0",
        blank_symbol=BLANK,
        final_states=finals,
    ), table


def rand_nondet_table(rng):
    """Random table {state: {symbol: set of (state, write, dir)}}."""
    input_symbols, tape_symbols = rand_alphabet(rng)
    states, finals = rand_states(rng)
    dirs = rand_dirs(rng)
    dens = rng.choice([0.5, 0.8, 1.0])
    syms = sorted(tape_symbols)
    table = {}
    for q in states:
        if q in finals:
            continue
        row = {}
        for a in syms:
            if rng.random() < dens:
                k = rng.choice([0, 1, 1, 2, 2, 3])
                row[a] = {
                    (
                        rng.choice(states),
                        BLANK if rng.random() < 0.25 else rng.choice(syms),
                        rng.choice(dirs),
                    )
                    for _ in range(k)
                }
        if row or q == "q0" or rng.random() < 0.3:
            table[q] = row
    return dict(
        states=set(states),
        input_symbols=input_symbols,
        tape_symbols=tape_symbols,
        initial_state="q0",
        blank_symbol=BLANK,
        final_states=finals,
    ), table


def rand_multitape_table(rng):
    """Random table {state: {(sym,)*n: [ (state, ((write, dir),)*n), ... ]}}."""
    input_symbols, tape_symbols = rand_alphabet(rng)
    states, finals = rand_states(rng)
    dirs = rand_dirs(rng)
    n_tapes = rng.choice([1, 1, 2, 2, 3])
    syms = sorted(tape_symbols)
    dens = rng.choice([0.5, 0.8, 1.0])
    keys = [()]
    for _ in range(n_tapes):
        keys = [k + (a,) for k in keys for a in syms]
    table = {}
    for q in states:
        if q in finals:
            continue
        row = {}
        for key in keys:
            if rng.random() < dens:
                k = rng.choice([0, 1, 1, 1, 2, 2, 3])
                row[key] = [
                    (
                        rng.choice(states),
                        tuple(
                            (
                                BLANK if rng.random() < 0.25 else rng.choice(syms),
                                rng.choice(dirs),
                            )
                            for _ in range(n_tapes)
                        ),
                    )
                    for _ in range(k)
                ]
                if row[key] and rng.random() < 0.1:
                    row[key].append(row[key][0])  # duplicated branch
        if row or q == "q0" or rng.random() < 0.3:
            table[q] = row
    return dict(
        states=set(states),
        input_symbols=input_symbols,
        tape_symbols=tape_symbols,
        initial_state="q0",
        blank_symbol=BLANK,
        final_states=finals,
        n_tapes=n_tapes,
    ), table


def rand_inputs(rng, common, count):
    syms = sorted(common["input_symbols"])
    allsyms = sorted(common["tape_symbols"])
    out = [""]
    for _ in range(count - 1):
        n = rng.randint(0, 6)
        if rng.random() < 0.15:
            # inputs are not filtered by the simulators: also try blanks /
            # work symbols inside the input
            out.append("".join(rng.choice(allsyms) for _ in range(n)))
        else:
            out.append("".join(rng.choice(syms) for _ in range(n)))
    return out


def expect_end(gen, how, ctx):
    """The generator must now stop ('accept') or raise RejectionException."""
    try:
        extra = next(gen)
    except StopIteration:
        got = "accept"
    except RejectionException:
        got = "reject"
    else:
        fail("%s: generator went on (%r) but should %s" % (ctx, extra, how))
    if got != how:
        fail("%s: expected %s, got %s" % (ctx, how, got))


# --------------------------------------------------------------------------
# DTM: k-th configuration == k applications of delta
# --------------------------------------------------------------------------
def check_dtm(common, table, word, budget):
    ctx = "DTM %r %r input %r" % (common, table, word)
    m = DTM(transitions=table, **common)
    gen = m.read_input_stepwise(word)
    state, tape = "q0", RefTape.from_input(word)
    halted = None
    last = None
    for k in range(budget + 1):
        try:
            cfg = next(gen)
        except (StopIteration, RejectionException) as e:
            fail("%s: stopped early at step %d (%r)" % (ctx, k, e))
        if not isinstance(cfg, TMConfiguration):
            fail("%s: step %d yields %r" % (ctx, k, cfg))
        if (cfg.state, lib_tape_canon(cfg.tape)) != (state, tape.canon()):
            fail("%s: step %d: %r != reference %r" % (ctx, k, cfg, tape.canon()))
        if (cfg.state, lib_tape_strict(cfg.tape)) != (state, tape.strict()):
            fail("%s: step %d: window %r != %r" % (ctx, k, cfg, tape.strict()))
        last = cfg
        CHECKS["dtm"] += 1
        if state in common["final_states"]:
            expect_end(gen, "accept", ctx)
            halted = "accept"
            break
        tr = table.get(state, {}).get(tape.read())
        if tr is None:
            expect_end(gen, "reject", ctx)
            halted = "reject"
            break
        state, tape = tr[0], tape.step(tr[1], tr[2])
    if halted is not None:
        if m.accepts_input(word) != (halted == "accept"):
            fail("%s: accepts_input disagrees with the reference" % ctx)
        if halted == "accept" and m.read_input(word) != last:
            fail("%s: read_input is not the last configuration" % ctx)
    return halted


# --------------------------------------------------------------------------
# NTM: k-th set of configurations == k-fold image of the initial one
# --------------------------------------------------------------------------
def check_ntm(common, table, word, budget, cap=1500):
    ctx = "NTM %r %r input %r" % (common, table, word)
    m = NTM(transitions=table, **common)
    gen = m.read_input_stepwise(word)
    t0 = RefTape.from_input(word)
    level = {("q0",) + t0.key(): ("q0", t0)}
    halted = None
    for k in range(budget + 1):
        try:
            got = next(gen)
        except (StopIteration, RejectionException) as e:
            fail("%s: stopped early at step %d (%r)" % (ctx, k, e))
        if not isinstance(got, (set, frozenset)):
            fail("%s: step %d yields %r" % (ctx, k, got))
        for c in got:
            if not isinstance(c, TMConfiguration):
                fail("%s: step %d yields %r" % (ctx, k, got))
        if {(c.state, lib_tape_canon(c.tape)) for c in got} != {
            (q, t.canon()) for q, t in level.values()
        }:
            fail("%s: step %d: configuration sets differ: %r" % (ctx, k, got))
        if {(c.state, lib_tape_strict(c.tape)) for c in got} != {
            (q, t.strict()) for q, t in level.values()
        }:
            fail("%s: step %d: configuration windows differ: %r" % (ctx, k, got))
        CHECKS["ntm"] += 1
        if any(q in common["final_states"] for q, _ in level.values()):
            expect_end(gen, "accept", ctx)
            halted = "accept"
            break
        if not level:
            expect_end(gen, "reject", ctx)
            halted = "reject"
            break
        nxt = {}
        for q, t in level.values():
            for q2, w, d in table.get(q, {}).get(t.read(), ()):
                t2 = t.step(w, d)
                nxt[(q2,) + t2.key()] = (q2, t2)
        level = nxt
        if len(level) > cap:
            break
    if halted is not None and m.accepts_input(word) != (halted == "accept"):
        fail("%s: accepts_input disagrees with the reference" % ctx)
    return halted


# --------------------------------------------------------------------------
# MNTM: breadth-first sequence of reachable configurations
# --------------------------------------------------------------------------
def check_mntm(common, table, word, budget):
    ctx = "MNTM %r %r input %r" % (common, table, word)
    m = MNTM(transitions=table, **common)
    n = common["n_tapes"]
    gen = m.read_input_stepwise(word)
    tapes0 = (RefTape.from_input(word),) + tuple(
        RefTape.from_input("") for _ in range(n - 1)
    )
    queue = deque([("q0", tapes0, 0)])
    halted = None
    prev_depth = 0
    last = None
    for k in range(budget + 1):
        if not queue:
            expect_end(gen, "reject", ctx)
            halted = "reject"
            break
        state, tapes, depth = queue.popleft()
        if depth < prev_depth:
            fail("%s: reference is not breadth-first?!" % ctx)
        prev_depth = depth
        try:
            got = next(gen)
        except (StopIteration, RejectionException) as e:
            fail("%s: stopped early at visit %d (%r)" % (ctx, k, e))
        if not (isinstance(got, (set, frozenset)) and len(got) == 1):
            fail("%s: visit %d yields %r" % (ctx, k, got))
        (cfg,) = tuple(got)
        if not isinstance(cfg, MTMConfiguration) or len(cfg.tapes) != n:
            fail("%s: visit %d yields %r" % (ctx, k, got))
        if (cfg.state, tuple(lib_tape_canon(t) for t in cfg.tapes)) != (
            state,
            tuple(t.canon() for t in tapes),
        ):
            fail("%s: visit %d: %r differs from the reference" % (ctx, k, cfg))
        if (cfg.state, tuple(lib_tape_strict(t) for t in cfg.tapes)) != (
            state,
            tuple(t.strict() for t in tapes),
        ):
            fail("%s: visit %d: windows of %r differ" % (ctx, k, cfg))
        last = cfg
        CHECKS["mntm"] += 1
        options = table.get(state, {}).get(tuple(t.read() for t in tapes))
        if not options:
            if state in common["final_states"]:
                expect_end(gen, "accept", ctx)
                halted = "accept"
                break
            continue  # stuck branch
        # the library enqueues the alternatives 1.. first, alternative 0 last
        for q2, moves in list(options[1:]) + [options[0]]:
            queue.append(
                (
                    q2,
                    tuple(t.step(w, d) for t, (w, d) in zip(tapes, moves)),
                    depth + 1,
                )
            )
    if halted is not None:
        if m.accepts_input(word) != (halted == "accept"):
            fail("%s: accepts_input disagrees with the reference" % ctx)
        if halted == "accept" and m.read_input(word) != {last}:
            fail("%s: read_input is not the last configuration" % ctx)
    return halted


# --------------------------------------------------------------------------
# Same deterministic table as DTM / NTM / one-tape MNTM: same verdict
# --------------------------------------------------------------------------
def lib_verdict(machine, word, limit):
    gen = machine.read_input_stepwise(word)
    try:
        for _ in range(limit):
            next(gen)
    except StopIteration:
        return "accept"
    except RejectionException:
        return "reject"
    return "running"


def ref_verdict(common, table, word, limit):
    state, tape = "q0", RefTape.from_input(word)
    for _ in range(limit):
        if state in common["final_states"]:
            return "accept"
        tr = table.get(state, {}).get(tape.read())
        if tr is None:
            return "reject"
        state, tape = tr[0], tape.step(tr[1], tr[2])
    return "running"


def check_cross(common, table, word, budget):
    ctx = "CROSS %r %r input %r" % (common, table, word)
    d = DTM(transitions=table, **common)
    nt = NTM(
        transitions={q: {a: {r} for a, r in row.items()} for q, row in table.items()},
        **common
    )
    mt = MNTM(
        transitions={
            q: {(a,): [(r[0], ((r[1], r[2]),))] for a, r in row.items()}
            for q, row in table.items()
        },
        n_tapes=1,
        **common
    )
    want = ref_verdict(common, table, word, budget)
    if want == "running":
        # halting is not assumed: nobody may have given a verdict yet
        for name, mach in (("DTM", d), ("NTM", nt), ("MNTM", mt)):
            v = lib_verdict(mach, word, budget)
            if v != "running":
                fail("%s: %s says %s within %d steps" % (ctx, name, v, budget))
    else:
        for name, mach in (("DTM", d), ("NTM", nt), ("MNTM", mt)):
            v = lib_verdict(mach, word, budget + 5)
            if v != want:
                fail("%s: %s says %s, reference %s" % (ctx, name, v, want))
            if mach.accepts_input(word) != (want == "accept"):
                fail("%s: %s.accepts_input wrong" % (ctx, name))
        # step-by-step agreement of the three simulations
        gd, gn, gm = (x.read_input_stepwise(word) for x in (d, nt, mt))
        for cd in gd.__iter__() if want == "accept" else iter_until_reject(gd):
            sn, sm = next(gn), next(gm)
            (cm,) = tuple(sm)
            if sn != {cd} or cm.state != cd.state or cm.tapes != (cd.tape,):
                fail("%s: step disagreement %r / %r / %r" % (ctx, cd, sn, sm))
    CHECKS["cross"] += 1


def iter_until_reject(gen):
    try:
        for x in gen:
            yield x
    except RejectionException:
        return


# --------------------------------------------------------------------------
# TMTape against the two-way infinite tape
# --------------------------------------------------------------------------
def check_tape(rng):
    word = "".join(rng.choice("ab.") for _ in range(rng.randint(0, 4)))
    lib = TMTape(word, blank_symbol=BLANK)
    ref = RefTape.from_input(word)
    dirs = rand_dirs(rng)
    for _ in range(rng.randint(1, 25)):
        if lib.read_symbol() != ref.read():
            fail("tape %r: read %r != %r" % (lib, lib.read_symbol(), ref.read()))
        w, d = rng.choice("ab.."), rng.choice(dirs)
        before = (lib.tape, lib.current_position)
        new = lib.write_symbol(w)
        if new.read_symbol() != w or new.current_position != lib.current_position:
            fail("tape %r: write_symbol(%r) gives %r" % (lib, w, new))
        new = new.move(d)
        if (lib.tape, lib.current_position) != before:
            fail("tape operand was mutated")
        lib, ref = new, ref.step(w, d)
        if lib_tape_canon(lib) != ref.canon() or lib_tape_strict(lib) != ref.strict():
            fail("tape %r differs from reference %r" % (lib, ref.strict()))
        if len(lib) != len(lib.tape) or tuple(lib) != lib.tape:
            fail("tape %r: __len__/__iter__ inconsistent" % (lib,))
        CHECKS["tape"] += 1


def check_tape_exhaustive():
    """Every short tape, every head position, every direction / symbol."""
    import itertools

    for n in range(0, 5):
        for cells in itertools.product("a.", repeat=n):
            for pos in range(0, n + 2):
                lib = TMTape(cells, blank_symbol=BLANK, current_position=pos)
                hi = max(n - 1, pos, 0)
                ref = RefTape(
                    frozenset((i, c) for i, c in enumerate(cells) if c != BLANK),
                    pos,
                    0,
                    hi,
                )
                if lib_tape_strict(lib) != ref.strict():
                    fail("constructor padding wrong: %r" % (lib,))
                cp = lib.copy()
                if cp is lib or cp != lib or lib_tape_strict(cp) != ref.strict():
                    fail("copy() wrong: %r -> %r" % (lib, cp))
                for w in "a.":
                    for d in "LNR":
                        new = lib.write_symbol(w).move(d)
                        want = ref.step(w, d)
                        if not isinstance(new.tape, tuple):
                            fail("tape is not a tuple: %r" % (new.tape,))
                        if (
                            lib_tape_strict(new) != want.strict()
                            or lib_tape_canon(new) != want.canon()
                        ):
                            fail("%r write %r move %r -> %r" % (lib, w, d, new))
                        if lib_tape_strict(lib) != ref.strict():
                            fail("operand mutated: %r" % (lib,))
                        if new != TMTape(want.strict()[0], BLANK, want.strict()[1]):
                            fail("== / hash of tapes broken: %r" % (new,))
                        CHECKS["tape"] += 1


# --------------------------------------------------------------------------
# Hand-picked machines
# --------------------------------------------------------------------------
def hand_picked():
    # 0^n 1^n (n >= 1), the machine of the documentation (blank '.')
    common = dict(
        states={"q0", "q1", "q2", "q3", "q4"},
        input_symbols={"0", "1"},
        tape_symbols={"0", "1", "x", "y", "."},
        initial_state="q0",
        blank_symbol=".",
        final_states={"q4"},
    )
    table = {
        "q0": {"0": ("q1", "x", "R"), "y": ("q3", "y", "R")},
        "q1": {"0": ("q1", "0", "R"), "1": ("q2", "y", "L"), "y": ("q1", "y", "R")},
        "q2": {"0": ("q2", "0", "L"), "x": ("q0", "x", "R"), "y": ("q2", "y", "L")},
        "q3": {"y": ("q3", "y", "R"), ".": ("q4", ".", "R")},
    }
    words = [""]
    for n in range(1, 7):
        words = words + [
            format(i, "b").zfill(n) for i in range(2**n) if n <= 4 or i % 7 == 3
        ]
    words += ["0" * n + "1" * n for n in range(1, 7)]
    for w in words:
        n = len(w) // 2
        want = "accept" if (n >= 1 and w == "0" * n + "1" * n) else "reject"
        if check_dtm(common, table, w, 400) != want:
            fail("0^n1^n machine wrong on %r" % w)
        check_cross(common, table, w, 400)
        CHECKS["hand"] += 1

    base = dict(
        input_symbols={"a", "b"},
        tape_symbols={"a", "b", "x", "."},
        initial_state="q0",
        blank_symbol=".",
    )
    specials = [
        # runs off the left end for ever
        (dict(states={"q0"}, final_states=set()), {"q0": {s: ("q0", "x", "L") for s in "abx."}}),
        # runs off the right end for ever, erasing
        (dict(states={"q0"}, final_states=set()), {"q0": {s: ("q0", ".", "R") for s in "abx."}}),
        # never moves
        (dict(states={"q0"}, final_states=set()), {"q0": {s: ("q0", s, "N") for s in "abx."}}),
        # single state, no transitions at all: immediately stuck
        (dict(states={"q0"}, final_states=set()), {}),
        # initial row present but empty
        (dict(states={"q0", "q1"}, final_states={"q1"}), {"q0": {}}),
        # go left twice over the edge, then come back and accept on 'a'
        (
            dict(states={"q0", "q1", "q2", "q3"}, final_states={"q3"}),
            {
                "q0": {s: ("q1", s, "L") for s in "ab."},
                "q1": {".": ("q2", ".", "L")},
                "q2": {".": ("q2", "x", "R"), "x": ("q2", ".", "R"), "a": ("q3", "a", "N")},
            },
        ),
        # accept in one step with an N move writing a blank
        (dict(states={"q0", "q1"}, final_states={"q1"}), {"q0": {s: ("q1", ".", "N") for s in "ab."}}),
        # zig-zag growing in both directions
        (
            dict(states={"q0", "q1"}, final_states=set()),
            {
                "q0": {".": ("q1", "x", "L"), "x": ("q0", "x", "R"), "a": ("q0", "x", "R"), "b": ("q0", ".", "R")},
                "q1": {".": ("q0", "x", "R"), "x": ("q1", "x", "L")},
            },
        ),
    ]
    for extra, table in specials:
        common = dict(base, **extra)
        for w in ["", "a", "b", "ab", "ba", "aab", "bbb", "a.b", "x", ".."]:
            check_dtm(common, table, w, 60)
            check_cross(common, table, w, 60)
            ntable = {q: {a: {r} for a, r in row.items()} for q, row in table.items()}
            check_ntm(common, ntable, w, 40)
            CHECKS["hand"] += 1

    # a genuinely nondeterministic NTM / MNTM: guess the middle of ww^R-like
    # input; only checks faithfulness, via the generic checkers
    common = dict(
        states={"q0", "q1", "q2"},
        input_symbols={"a", "b"},
        tape_symbols={"a", "b", "."},
        initial_state="q0",
        blank_symbol=".",
        final_states={"q2"},
    )
    ntable = {
        "q0": {
            "a": {("q0", "a", "R"), ("q1", ".", "L"), ("q0", ".", "N")},
            "b": {("q0", "b", "R"), ("q1", "b", "L")},
            ".": {("q1", ".", "L")},
        },
        "q1": {"a": {("q1", ".", "L")}, ".": {("q2", ".", "N"), ("q1", "a", "R")}},
    }
    for w in ["", "a", "ab", "ba", "abba", "bab", "aaaa"]:
        check_ntm(common, ntable, w, 9)
        mtable = {
            q: {
                (a, c): [(r[0], ((r[1], r[2]), (a, "L" if r[2] == "R" else "R"))) for r in sorted(rs)]
                for a, rs in row.items()
                for c in "ab."
            }
            for q, row in ntable.items()
        }
        check_mntm(dict(common, n_tapes=2), mtable, w, 120)
        CHECKS["hand"] += 1


def main():
    rng = random.Random(20260926)
    hand_picked()
    check_tape_exhaustive()
    for _ in range(1500):
        check_tape(rng)
    for _ in range(500):
        common, table = rand_det_table(rng)
        for w in rand_inputs(rng, common, 5):
            check_dtm(common, table, w, rng.choice([5, 20, 40]))
            check_cross(common, table, w, rng.choice([5, 20, 40]))
    for _ in range(400):
        common, table = rand_nondet_table(rng)
        for w in rand_inputs(rng, common, 4):
            check_ntm(common, table, w, rng.choice([4, 8, 11]))
    for _ in range(400):
        common, table = rand_multitape_table(rng)
        for w in rand_inputs(rng, common, 4):
            check_mntm(common, table, w, rng.choice([10, 40, 120]))
    print("checks:", CHECKS)
    print("property holds")


if __name__ == "__main__":
    main()
