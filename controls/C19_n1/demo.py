#!/usr/bin/env python
"""
Demo / property check for C19
  "Validation is sound, results are valid, global options never change answers".

Run as:  PYTHONPATH=<tree> /venv/bin/python demo.py [--seed N] [--dump FILE]

What is checked (all against brute-force references written in THIS file, which
never look at the library's validation code):

 1. single-rule corruptions of random valid definitions of DFA, NFA, GNFA, DPDA,
    NPDA, DTM, NTM and MNTM make the constructor raise exactly the documented
    exception class (reference: a rule table `violations_*` below);
 2. every valid definition is accepted under all four combinations of
    should_validate_automata / allow_mutable_automata, and can be run on strings
    with no error other than the documented RejectionException; the verdict is
    compared with a reference simulator and must not depend on the options;
 3. every automaton returned by a DFA / NFA / GNFA operation passes validate()
    and the reference rule table, has the language predicted by brute force from
    the operands, does not mutate its operands, and is the same under all four
    option combinations.

--dump FILE additionally writes one line per constructor call with the exception
class and message (used only for diffing two trees; not part of the property).
"""
import copy
import itertools
import random
import sys

import automata.base.config as cfg
import automata.base.exceptions as E
import automata.pda.exceptions as PE
import automata.tm.exceptions as TE
from automata.base.automaton import Automaton
from automata.fa.dfa import DFA
from automata.fa.gnfa import GNFA
from automata.fa.nfa import NFA
from automata.pda.dpda import DPDA
from automata.pda.npda import NPDA
from automata.tm.dtm import DTM
from automata.tm.mntm import MNTM
from automata.tm.ntm import NTM

SEED = 19
DUMP = None
args = sys.argv[1:]
while args:
    a = args.pop(0)
    if a == "--seed":
        SEED = int(args.pop(0))
    elif a == "--dump":
        DUMP = open(args.pop(0), "w")

OPTION_COMBOS = [(True, False), (True, True), (False, False), (False, True)]
COUNTS = {}


def bump(key, n=1):
    COUNTS[key] = COUNTS.get(key, 0) + n


class options:
    """Context manager setting the two global options."""

    def __init__(self, validate, mutable):
        self.new = (validate, mutable)

    def __enter__(self):
        self.old = (cfg.should_validate_automata, cfg.allow_mutable_automata)
        cfg.should_validate_automata, cfg.allow_mutable_automata = self.new

    def __exit__(self, *exc):
        cfg.should_validate_automata, cfg.allow_mutable_automata = self.old
        return False


def fail(msg):
    print("PROPERTY VIOLATED:", msg)
    sys.exit(1)


def check(cond, msg):
    if not cond:
        fail(msg() if callable(msg) else msg)


def dump(kind, defn_id, exc):
    if DUMP is not None:
        if exc is None:
            DUMP.write(f"{kind}\t{defn_id}\tOK\n")
        else:
            DUMP.write(f"{kind}\t{defn_id}\t{type(exc).__name__}\t{exc}\n")


# --------------------------------------------------------------------------
# Reference rule tables: set of documented exception classes a definition
# violates (empty set <=> well formed).
# --------------------------------------------------------------------------


def violations_dfa(d):
    v = set()
    S, A, T = d["states"], d["input_symbols"], d["transitions"]
    partial = d.get("allow_partial", False)
    if None in S or None in T:
        v.add(E.InvalidStateError)
    if "" in A:
        v.add(E.InvalidSymbolError)
    if any(s not in T for s in S):
        v.add(E.MissingStateError)
    for row in T.values():
        if not partial and any(a not in row for a in A):
            v.add(E.MissingSymbolError)
        if any(a not in A for a in row):
            v.add(E.InvalidSymbolError)
        if any(t not in S for t in row.values()):
            v.add(E.InvalidStateError)
    if d["initial_state"] not in S:
        v.add(E.InvalidStateError)
    if any(f not in S for f in d["final_states"]):
        v.add(E.InvalidStateError)
    return v


def violations_nfa(d):
    v = set()
    S, A, T = d["states"], d["input_symbols"], d["transitions"]
    if None in S or None in T:
        v.add(E.InvalidStateError)
    if "" in A:
        v.add(E.InvalidSymbolError)
    for row in T.values():
        if any(a != "" and a not in A for a in row):
            v.add(E.InvalidSymbolError)
        if any(t not in S for ts in row.values() for t in ts):
            v.add(E.InvalidStateError)
    if d["initial_state"] not in S:
        v.add(E.InvalidStateError)
    elif d["initial_state"] not in T and len(S) > 1:
        v.add(E.MissingStateError)
    if any(f not in S for f in d["final_states"]):
        v.add(E.InvalidStateError)
    return v


GOOD_LABELS = ["", "a", "b", "ab", "a|b", "a*", "(ab)*", "a?b", "(a|b)*a", "b?", None]
BAD_LABELS = ["a|*", "(a", "a)", "*", "a**|", "z", "a+", "a&b", "|"]


def label_ok(label, A):
    """Reference for GNFA labels: a table of labels whose status is known."""
    if label is None or label == "":
        return True
    if label in BAD_LABELS:
        return False
    assert label in GOOD_LABELS or set(label) <= set("ab|*()?"), label
    return all(c in A or c in "|*()?" for c in label)


def violations_gnfa(d, label_ref=label_ok):
    v = set()
    S, A, T = d["states"], d["input_symbols"], d["transitions"]
    q0, qf = d["initial_state"], d["final_state"]
    if q0 not in S or qf not in S or q0 == qf:
        v.add(E.InvalidStateError)
    if any(s != qf and s not in T for s in S):
        v.add(E.MissingStateError)
    for s, row in T.items():
        if any(not label_ref(lab, A) for lab in row.values()):
            v.add(E.InvalidRegexError)
        if s == qf:
            if row:
                v.add(E.InvalidStateError)
        elif any(t != q0 and t not in row for t in S):
            v.add(E.MissingStateError)
        if any(t not in S for t in row):
            v.add(E.InvalidStateError)
        if row.get(q0) is not None:
            v.add(E.InvalidStateError)
    return v


def violations_pda(d, deterministic):
    v = set()
    S, A, G, T = d["states"], d["input_symbols"], d["stack_symbols"], d["transitions"]
    if "" in G:
        v.add(E.InvalidSymbolError)
    for row in T.values():
        for a, by_stack in row.items():
            if a != "" and a not in A:
                v.add(E.InvalidSymbolError)
            if any(g not in G for g in by_stack):
                v.add(E.InvalidSymbolError)
        if deterministic and "" in row:
            for a, by_stack in row.items():
                if a != "" and any(g in row[""] for g in by_stack):
                    v.add(PE.NondeterminismError)
    if d["initial_state"] not in S:
        v.add(E.InvalidStateError)
    if d["initial_stack_symbol"] not in G:
        v.add(E.InvalidSymbolError)
    if any(f not in S for f in d["final_states"]):
        v.add(E.InvalidStateError)
    if d.get("acceptance_mode", "both") not in ("final_state", "empty_stack", "both"):
        v.add(PE.InvalidAcceptanceModeError)
    return v


def violations_tm(d, kind):
    """kind in 'dtm', 'ntm', 'mntm'."""
    v = set()
    S, A, G, T = d["states"], d["input_symbols"], d["tape_symbols"], d["transitions"]
    if not (set(A) <= set(G) and set(A) != set(G)):
        v.add(E.MissingSymbolError)
    if d["blank_symbol"] not in G:
        v.add(E.InvalidSymbolError)
    for s, row in T.items():
        if s not in S:
            v.add(E.InvalidStateError)
        for key, res in row.items():
            read = key if kind == "mntm" else (key,)
            if any(c not in G for c in read):
                v.add(E.InvalidSymbolError)
            results = [res] if kind == "dtm" else list(res)
            for r in results:
                if kind == "mntm":
                    t, moves = r
                    moves = list(moves)
                else:
                    t, moves = r[0], [(r[1], r[2])]
                if moves and t not in S:
                    v.add(E.InvalidStateError)
                for w, direction in moves:
                    if w not in G:
                        v.add(E.InvalidSymbolError)
                    if direction not in ("L", "N", "R"):
                        v.add(TE.InvalidDirectionError)
                if kind == "mntm" and len(moves) != d["n_tapes"]:
                    v.add(TE.InconsistentTapesException)
            if kind == "mntm" and len(key) != d["n_tapes"]:
                v.add(TE.InconsistentTapesException)
    if d["initial_state"] not in S:
        v.add(E.InvalidStateError)
    elif d["initial_state"] not in T and len(S) > 1:
        v.add(E.MissingStateError)
    if d["initial_state"] in d["final_states"]:
        v.add(E.InitialStateError)
    if any(f not in S for f in d["final_states"]):
        v.add(E.InvalidStateError)
    if any(f in T for f in d["final_states"]):
        v.add(E.FinalStateError)
    return v


# --------------------------------------------------------------------------
# Random valid definitions
# --------------------------------------------------------------------------

STATE_POOLS = [
    ["q0", "q1", "q2", "q3", "q4"],
    [0, 1, 2, 3, 4],
    ["s", "t", "u", "v", "w"],
    [("p", 0), ("p", 1), ("p", 2), ("p", 3), ("p", 4)],
]


def rand_states(rng, lo=1, hi=4):
    pool = rng.choice(STATE_POOLS)
    return list(pool[: rng.randint(lo, hi)])


def rand_subset(rng, items, p=0.5):
    return {x for x in items if rng.random() < p}


def gen_dfa(rng, partial=None, alphabet=None, lo=1):
    S = rand_states(rng, lo)
    A = alphabet if alphabet is not None else rng.choice(["a", "ab", "ab", "abc"])
    if partial is None:
        partial = rng.random() < 0.4
    T = {}
    for s in S:
        row = {}
        for a in A:
            if not partial or rng.random() < 0.7:
                row[a] = rng.choice(S)
        T[s] = row
    d = dict(
        states=set(S),
        input_symbols=set(A),
        transitions=T,
        initial_state=S[0],
        final_states=rand_subset(rng, S),
    )
    if partial:
        d["allow_partial"] = True
    return d


def gen_nfa(rng, alphabet=None, lo=1):
    S = rand_states(rng, lo)
    A = alphabet if alphabet is not None else rng.choice(["a", "ab", "ab", "abc"])
    T = {}
    for s in S:
        row = {}
        for a in list(A) + [""]:
            if rng.random() < (0.25 if a == "" else 0.6):
                row[a] = rand_subset(rng, S, 0.45)
        if row or s == S[0] or rng.random() < 0.5:
            T[s] = row
    return dict(
        states=set(S),
        input_symbols=set(A),
        transitions=T,
        initial_state=S[0],
        final_states=rand_subset(rng, S),
    )


def gen_gnfa(rng):
    S = rand_states(rng, 2, 5)
    A = rng.choice(["ab", "ab", "abc"])
    q0, qf = S[0], S[-1]
    T = {}
    for s in S:
        if s == qf:
            if rng.random() < 0.3:
                T[s] = {}
            continue
        row = {}
        for t in S:
            if t == q0:
                if rng.random() < 0.3:
                    row[t] = None
                continue
            row[t] = rng.choice(GOOD_LABELS)
        T[s] = row
    return dict(
        states=set(S),
        input_symbols=set(A),
        transitions=T,
        initial_state=q0,
        final_state=qf,
    )


def gen_pda(rng, deterministic):
    S = rand_states(rng)
    A = rng.choice(["a", "ab", "ab"])
    G = rng.choice(["Z", "ZX", "ZXY"])
    T = {}
    for s in S:
        row = {}
        lam_syms = rand_subset(rng, G, 0.35)
        for a in list(A) + [""]:
            by_stack = {}
            for g in G:
                if deterministic:
                    if (a == "") != (g in lam_syms) or rng.random() < 0.3:
                        continue
                    push = rng.choice(["", g, "X" + g if "X" in G else g, G[0]])
                    by_stack[g] = (rng.choice(S), tuple(push) if push else "")
                else:
                    if rng.random() < 0.5:
                        continue
                    by_stack[g] = {
                        (rng.choice(S), rng.choice(["", g, G[0] + g]))
                        for _ in range(rng.randint(1, 2))
                    }
            if by_stack or rng.random() < 0.15:
                row[a] = by_stack
        if row or rng.random() < 0.5:
            T[s] = row
    d = dict(
        states=set(S),
        input_symbols=set(A),
        stack_symbols=set(G),
        transitions=T,
        initial_state=S[0],
        initial_stack_symbol=G[0],
        final_states=rand_subset(rng, S),
    )
    if rng.random() < 0.8:
        d["acceptance_mode"] = rng.choice(["final_state", "empty_stack", "both"])
    return d


def gen_tm(rng, kind):
    S = rand_states(rng, 2, 5)
    A = rng.choice(["0", "01", "01"])
    G = A + rng.choice([".", ".x", ".xy"])
    n_final = rng.randint(1, min(2, len(S) - 1))
    finals = set(S[-n_final:])
    n_tapes = rng.randint(1, 3) if kind == "mntm" else 1
    T = {}
    for s in S:
        if s in finals:
            continue
        row = {}
        keys = list(itertools.product(G, repeat=n_tapes)) if kind == "mntm" else list(G)
        for key in keys:
            if rng.random() < (0.6 if n_tapes == 1 else 0.35):

                def one():
                    if kind == "mntm":
                        return (
                            rng.choice(S),
                            tuple(
                                (rng.choice(G), rng.choice("LNR")) for _ in range(n_tapes)
                            ),
                        )
                    return (rng.choice(S), rng.choice(G), rng.choice("LRRN"))

                if kind == "dtm":
                    row[key] = one()
                elif kind == "ntm":
                    row[key] = {one() for _ in range(rng.randint(1, 2))}
                else:
                    row[key] = [one() for _ in range(rng.randint(1, 2))]
        if row or s == S[0] or rng.random() < 0.5:
            T[s] = row
    d = dict(
        states=set(S),
        input_symbols=set(A),
        tape_symbols=set(G),
        transitions=T,
        initial_state=S[0],
        blank_symbol=".",
        final_states=finals,
    )
    if kind == "mntm":
        d["n_tapes"] = n_tapes
    return d


# --------------------------------------------------------------------------
# Single-rule corruptions: name -> (function(defn, rng) -> bool applied, class)
# --------------------------------------------------------------------------

BOGUS = "ZZ"


def pick_row(d, rng, nonempty=True):
    rows = [s for s, r in d["transitions"].items() if r or not nonempty]
    return rng.choice(rows) if rows else None


def c_initial_outside(d, rng):
    d["initial_state"] = BOGUS
    return True


def c_final_outside(d, rng):
    d["final_states"] = set(d["final_states"]) | {BOGUS}
    return True


def c_dfa_bad_end(d, rng):
    s = pick_row(d, rng)
    if s is None:
        return False
    a = rng.choice(sorted(d["transitions"][s]))
    d["transitions"][s][a] = BOGUS
    return True


def c_dfa_missing_row(d, rng):
    s = rng.choice(sorted(d["transitions"], key=repr))
    del d["transitions"][s]
    return True


def c_dfa_missing_symbol(d, rng):
    if d.get("allow_partial"):
        return False
    s = pick_row(d, rng)
    if s is None:
        return False
    a = rng.choice(sorted(d["transitions"][s]))
    del d["transitions"][s][a]
    return True


def c_nfa_bad_end(d, rng):
    s = pick_row(d, rng)
    if s is None:
        return False
    a = rng.choice(sorted(d["transitions"][s]))
    d["transitions"][s][a] = set(d["transitions"][s][a]) | {BOGUS}
    return True


def c_nfa_bad_symbol(d, rng):
    s = pick_row(d, rng, nonempty=False)
    if s is None:
        return False
    d["transitions"][s]["#"] = {next(iter(d["states"]))}
    return True


def c_dfa_bad_symbol(d, rng):
    s = pick_row(d, rng, nonempty=False)
    if s is None:
        return False
    d["transitions"][s]["#"] = next(iter(d["states"]))
    return True


def c_initial_no_row(d, rng):
    if len(d["states"]) < 2 or d["initial_state"] not in d["transitions"]:
        return False
    del d["transitions"][d["initial_state"]]
    return True


def c_gnfa_bad_label(d, rng):
    s = pick_row(d, rng)
    if s is None:
        return False
    targets = [t for t in d["transitions"][s] if t != d["initial_state"]]
    if not targets:
        return False
    d["transitions"][s][rng.choice(sorted(targets, key=repr))] = rng.choice(BAD_LABELS)
    return True


def c_gnfa_missing_target(d, rng):
    s = pick_row(d, rng)
    if s is None:
        return False
    targets = [t for t in d["transitions"][s] if t != d["initial_state"]]
    if not targets:
        return False
    del d["transitions"][s][rng.choice(sorted(targets, key=repr))]
    return True


def c_gnfa_unknown_target(d, rng):
    s = pick_row(d, rng)
    if s is None:
        return False
    d["transitions"][s][BOGUS] = rng.choice(["a", None, ""])
    return True


def c_gnfa_final_has_row(d, rng):
    others = [t for t in d["states"] if t != d["initial_state"]]
    d["transitions"][d["final_state"]] = {t: rng.choice(["a", None]) for t in others}
    return True


def c_gnfa_into_initial(d, rng):
    s = pick_row(d, rng)
    if s is None:
        return False
    d["transitions"][s][d["initial_state"]] = rng.choice(["a", "", "a|b"])
    return True


def c_gnfa_final_outside(d, rng):
    d["final_state"] = BOGUS
    return True


def c_gnfa_missing_row(d, rng):
    cand = [s for s in d["transitions"] if s != d["final_state"]]
    del d["transitions"][rng.choice(sorted(cand, key=repr))]
    return True


def c_pda_bad_input_symbol(d, rng):
    s = pick_row(d, rng, nonempty=False)
    if s is None:
        return False
    d["transitions"][s]["#"] = {}
    return True


def c_pda_bad_stack_symbol(d, rng):
    rows = [(s, a) for s, r in d["transitions"].items() for a in r]
    if not rows:
        return False
    s, a = rng.choice(sorted(rows, key=repr))
    q = next(iter(d["states"]))
    d["transitions"][s][a]["#"] = (q, "") if d["_det"] else {(q, "")}
    return True


def c_pda_bad_initial_stack(d, rng):
    d["initial_stack_symbol"] = "#"
    return True


def c_pda_bad_mode(d, rng):
    d["acceptance_mode"] = rng.choice(["foo", "", "final", None, "BOTH"])
    return True


def c_dpda_nondeterminism(d, rng):
    """Make a lambda transition and an input transition share a stack symbol."""
    cands = []
    for s, row in d["transitions"].items():
        for a, by_stack in row.items():
            for g in by_stack:
                cands.append((s, a, g))
    if not cands:
        return False
    s, a, g = rng.choice(sorted(cands, key=repr))
    row = d["transitions"][s]
    q = next(iter(d["states"]))
    if a == "":
        other = rng.choice(sorted(d["input_symbols"]))
        row.setdefault(other, {})[g] = (q, (g,))
    else:
        row.setdefault("", {})[g] = (q, (g,))
    return True


def tm_pick(d, rng):
    cands = [(s, k) for s, r in d["transitions"].items() for k in r]
    return rng.choice(sorted(cands, key=repr)) if cands else None


def tm_edit_result(d, rng, fn):
    """Apply fn(state, write, direction) -> triple to one result of one entry."""
    p = tm_pick(d, rng)
    if p is None:
        return False
    s, k = p
    kind = d["_kind"]
    res = d["transitions"][s][k]
    if kind == "dtm":
        d["transitions"][s][k] = fn(*res)
    elif kind == "ntm":
        res = sorted(res, key=repr)
        res[0] = fn(*res[0])
        d["transitions"][s][k] = set(res)
    else:
        res = list(res)
        t, moves = res[0]
        moves = list(moves)
        i = rng.randrange(len(moves))
        t2, w2, d2 = fn(t, moves[i][0], moves[i][1])
        moves[i] = (w2, d2)
        res[0] = (t2, tuple(moves))
        d["transitions"][s][k] = res
    return True


def c_tm_bad_write(d, rng):
    return tm_edit_result(d, rng, lambda t, w, m: (t, "#", m))


def c_tm_bad_direction(d, rng):
    bad = rng.choice(["U", "l", "", "LR", None])
    return tm_edit_result(d, rng, lambda t, w, m: (t, w, bad))


def c_tm_bad_result_state(d, rng):
    return tm_edit_result(d, rng, lambda t, w, m: (BOGUS, w, m))


def c_tm_bad_read(d, rng):
    s = pick_row(d, rng)
    if s is None:
        return False
    k = rng.choice(sorted(d["transitions"][s], key=repr))
    val = d["transitions"][s][k]
    if d["_kind"] == "mntm":
        i = rng.randrange(len(k))
        newk = k[:i] + ("#",) + k[i + 1 :]
    else:
        newk = "#"
    d["transitions"][s][newk] = val
    return True


def c_tm_row_unknown_state(d, rng):
    s = pick_row(d, rng)
    if s is None:
        return False
    d["transitions"][BOGUS] = copy.deepcopy(d["transitions"][s])
    return True


def c_tm_final_has_row(d, rng):
    s = pick_row(d, rng)
    if s is None:
        return False
    # one, several or all final states get a copy of an existing row
    finals = sorted(d["final_states"], key=repr)
    for f in finals[: rng.randint(1, len(finals))]:
        d["transitions"][f] = copy.deepcopy(d["transitions"][s])
    return True


def c_tm_initial_final(d, rng):
    # the initial state must not be final (its row also breaks the final-state rule)
    d["final_states"] = set(d["final_states"]) | {d["initial_state"]}
    return True


def c_tm_bad_blank(d, rng):
    d["blank_symbol"] = "#"
    return True


def c_tm_input_not_subset(d, rng):
    if rng.random() < 0.5:
        d["input_symbols"] = set(d["input_symbols"]) | {"#"}
    else:
        d["input_symbols"] = set(d["tape_symbols"])
    return True


def c_mntm_bad_tape_count(d, rng):
    which = rng.randrange(3)
    if which == 0:
        d["n_tapes"] = d["n_tapes"] + 1
        return any(d["transitions"].values())
    p = tm_pick(d, rng)
    if p is None:
        return False
    s, k = p
    if which == 1:
        d["transitions"][s][k + (".",)] = d["transitions"][s].pop(k)
    else:
        res = list(d["transitions"][s][k])
        t, moves = res[0]
        res[0] = (t, tuple(moves) + ((".", "N"),))
        d["transitions"][s][k] = res
    return True


FAMILIES = {
    "DFA": dict(
        cls=DFA,
        gen=lambda rng: gen_dfa(rng),
        viol=violations_dfa,
        corruptions={
            "unknown end state": (c_dfa_bad_end, E.InvalidStateError),
            "unknown transition symbol": (c_dfa_bad_symbol, E.InvalidSymbolError),
            "missing transition row": (c_dfa_missing_row, E.MissingStateError),
            "missing symbol (complete DFA)": (c_dfa_missing_symbol, E.MissingSymbolError),
            "initial state outside": (c_initial_outside, E.InvalidStateError),
            "final state outside": (c_final_outside, E.InvalidStateError),
        },
    ),
    "NFA": dict(
        cls=NFA,
        gen=lambda rng: gen_nfa(rng),
        viol=violations_nfa,
        corruptions={
            "unknown end state": (c_nfa_bad_end, E.InvalidStateError),
            "unknown transition symbol": (c_nfa_bad_symbol, E.InvalidSymbolError),
            "initial state outside": (c_initial_outside, E.InvalidStateError),
            "final state outside": (c_final_outside, E.InvalidStateError),
            "initial state without transitions": (c_initial_no_row, E.MissingStateError),
        },
    ),
    "GNFA": dict(
        cls=GNFA,
        gen=gen_gnfa,
        viol=violations_gnfa,
        corruptions={
            "malformed label": (c_gnfa_bad_label, E.InvalidRegexError),
            "missing target": (c_gnfa_missing_target, E.MissingStateError),
            "unknown target": (c_gnfa_unknown_target, E.InvalidStateError),
            "final state has transitions": (c_gnfa_final_has_row, E.InvalidStateError),
            "edge into initial state": (c_gnfa_into_initial, E.InvalidStateError),
            "initial state outside": (c_initial_outside, E.InvalidStateError),
            "final state outside": (c_gnfa_final_outside, E.InvalidStateError),
            "missing transition row": (c_gnfa_missing_row, E.MissingStateError),
        },
    ),
    "DPDA": dict(
        cls=DPDA,
        gen=lambda rng: dict(gen_pda(rng, True), _det=True),
        viol=lambda d: violations_pda(d, True),
        corruptions={
            "unknown input symbol": (c_pda_bad_input_symbol, E.InvalidSymbolError),
            "invalid stack symbol": (c_pda_bad_stack_symbol, E.InvalidSymbolError),
            "initial state outside": (c_initial_outside, E.InvalidStateError),
            "final state outside": (c_final_outside, E.InvalidStateError),
            "invalid initial stack symbol": (c_pda_bad_initial_stack, E.InvalidSymbolError),
            "invalid acceptance mode": (c_pda_bad_mode, PE.InvalidAcceptanceModeError),
            "nondeterminism": (c_dpda_nondeterminism, PE.NondeterminismError),
        },
    ),
    "NPDA": dict(
        cls=NPDA,
        gen=lambda rng: dict(gen_pda(rng, False), _det=False),
        viol=lambda d: violations_pda(d, False),
        corruptions={
            "unknown input symbol": (c_pda_bad_input_symbol, E.InvalidSymbolError),
            "invalid stack symbol": (c_pda_bad_stack_symbol, E.InvalidSymbolError),
            "initial state outside": (c_initial_outside, E.InvalidStateError),
            "final state outside": (c_final_outside, E.InvalidStateError),
            "invalid initial stack symbol": (c_pda_bad_initial_stack, E.InvalidSymbolError),
            "invalid acceptance mode": (c_pda_bad_mode, PE.InvalidAcceptanceModeError),
        },
    ),
}

TM_CORRUPTIONS = {
    "bad tape symbol (read)": (c_tm_bad_read, E.InvalidSymbolError),
    "bad tape symbol (write)": (c_tm_bad_write, E.InvalidSymbolError),
    "bad direction": (c_tm_bad_direction, TE.InvalidDirectionError),
    "unknown result state": (c_tm_bad_result_state, E.InvalidStateError),
    "row of unknown state": (c_tm_row_unknown_state, E.InvalidStateError),
    "final state with transitions": (c_tm_final_has_row, E.FinalStateError),
    "initial state outside": (c_initial_outside, E.InvalidStateError),
    "initial state is final": (c_tm_initial_final, E.InitialStateError),
    "final state outside": (c_final_outside, E.InvalidStateError),
    "blank not a tape symbol": (c_tm_bad_blank, E.InvalidSymbolError),
    "input symbols not a proper subset": (c_tm_input_not_subset, E.MissingSymbolError),
    "initial state without transitions": (c_initial_no_row, E.MissingStateError),
}
for _kind, _cls in (("dtm", DTM), ("ntm", NTM), ("mntm", MNTM)):
    _c = dict(TM_CORRUPTIONS)
    if _kind == "mntm":
        _c["bad tape count"] = (c_mntm_bad_tape_count, TE.InconsistentTapesException)
    FAMILIES[_kind.upper()] = dict(
        cls=_cls,
        gen=(lambda k: lambda rng: dict(gen_tm(rng, k), _kind=k))(_kind),
        viol=(lambda k: lambda d: violations_tm(d, k))(_kind),
        corruptions=_c,
    )


def public(d):
    return {k: v for k, v in d.items() if not k.startswith("_")}


def construct(cls, d):
    """Build with a private deep copy so the library never shares our dicts."""
    return cls(**copy.deepcopy(public(d)))


def outcome(cls, d):
    """Return the exception raised by constructor (+ explicit validate), or None."""
    try:
        obj = construct(cls, d)
        if not cfg.should_validate_automata:
            obj.validate()
    except Exception as exc:  # noqa: BLE001 - every class is inspected by caller
        return exc
    return None


# --------------------------------------------------------------------------
# Part 1 + acceptance of valid definitions
# --------------------------------------------------------------------------


def part1(rng, per_family):
    serial = 0
    for name, fam in FAMILIES.items():
        cls, viol = fam["cls"], fam["viol"]
        for _ in range(per_family):
            base = fam["gen"](rng)
            serial += 1
            check(not viol(public(base)), lambda: f"generator bug {name}: {base}")
            for validate, mutable in OPTION_COMBOS:
                with options(validate, mutable):
                    exc = outcome(cls, base)
                check(
                    exc is None,
                    lambda: f"valid {name} rejected under validate={validate} "
                    f"mutable={mutable}: {type(exc).__name__}: {exc}\n{base}",
                )
            dump(name, f"{serial}:valid", None)
            bump(f"{name} valid accepted")
            for cname, (fn, expected) in fam["corruptions"].items():
                bad = copy.deepcopy(base)
                if not fn(bad, rng):
                    continue
                v = viol(public(bad))
                check(expected in v, lambda: f"corruption bug {name}/{cname}: {v}\n{bad}")
                for validate, mutable in OPTION_COMBOS:
                    with options(validate, mutable):
                        exc = outcome(cls, bad)
                    check(
                        exc is not None,
                        lambda: f"{name}/{cname}: corrupted definition accepted "
                        f"(validate={validate}, mutable={mutable})\n{bad}",
                    )
                    ok = type(exc) is expected if v == {expected} else type(exc) in v
                    check(
                        ok,
                        lambda: f"{name}/{cname}: raised {type(exc).__name__}: {exc}; "
                        f"documented {sorted(c.__name__ for c in v)} "
                        f"(validate={validate}, mutable={mutable})\n{bad}",
                    )
                    if (validate, mutable) == (True, False):
                        dump(name, f"{serial}:{cname}", exc)
                bump(f"{name} corruption -> {expected.__name__}")
            # two corruptions at once: still one of the documented classes
            names = sorted(fam["corruptions"])
            bad = copy.deepcopy(base)
            applied = [c for c in rng.sample(names, 2) if fam["corruptions"][c][0](bad, rng)]
            v = viol(public(bad))
            if applied and v:
                exc = outcome(cls, bad)
                check(
                    exc is not None and type(exc) in v,
                    lambda: f"{name}/{applied}: raised {exc!r}, documented {v}\n{bad}",
                )
                dump(name, f"{serial}:double:{'+'.join(applied)}", exc)
                bump(f"{name} double corruption")


def hand_picked():
    """Mirrors of the well-formedness examples of the documentation / tests."""
    dfa = dict(
        states={"q0", "q1", "q2"},
        input_symbols={"0", "1"},
        transitions={
            "q0": {"0": "q0", "1": "q1"},
            "q1": {"0": "q0", "1": "q2"},
            "q2": {"0": "q2", "1": "q1"},
        },
        initial_state="q0",
        final_states={"q1"},
    )
    DFA(**copy.deepcopy(dfa))
    cases = []
    bad = copy.deepcopy(dfa)
    bad["transitions"]["q1"]["1"] = "q3"
    cases.append((DFA, bad, E.InvalidStateError))
    bad = copy.deepcopy(dfa)
    bad["transitions"]["q1"]["2"] = "q2"
    cases.append((DFA, bad, E.InvalidSymbolError))
    bad = copy.deepcopy(dfa)
    del bad["transitions"]["q1"]
    cases.append((DFA, bad, E.MissingStateError))
    bad = copy.deepcopy(dfa)
    del bad["transitions"]["q1"]["1"]
    cases.append((DFA, bad, E.MissingSymbolError))
    bad = copy.deepcopy(dfa)
    bad["initial_state"] = "q3"
    cases.append((DFA, bad, E.InvalidStateError))
    bad = copy.deepcopy(dfa)
    bad["final_states"] = {"q3"}
    cases.append((DFA, bad, E.InvalidStateError))

    nfa = dict(
        states={"q0", "q1", "q2"},
        input_symbols={"a", "b"},
        transitions={"q0": {"a": {"q1"}}, "q1": {"a": {"q1"}, "": {"q2"}}, "q2": {"b": {"q0"}}},
        initial_state="q0",
        final_states={"q1"},
    )
    NFA(**copy.deepcopy(nfa))
    bad = copy.deepcopy(nfa)
    del bad["transitions"]["q0"]
    cases.append((NFA, bad, E.MissingStateError))
    bad = copy.deepcopy(nfa)
    bad["transitions"]["q1"]["c"] = {"q2"}
    cases.append((NFA, bad, E.InvalidSymbolError))
    bad = copy.deepcopy(nfa)
    bad["transitions"]["q1"]["a"] = {"q3"}
    cases.append((NFA, bad, E.InvalidStateError))

    gnfa = dict(
        states={"q_in", "q_f", "q0", "q1", "q2"},
        input_symbols={"a", "b"},
        transitions={
            "q0": {"q1": "a", "q_f": None, "q2": None, "q0": None},
            "q1": {"q1": "a", "q2": "", "q_f": "", "q0": None},
            "q2": {"q0": "b", "q_f": None, "q2": None, "q1": None},
            "q_in": {"q0": "", "q_f": None, "q2": None, "q1": None},
        },
        initial_state="q_in",
        final_state="q_f",
    )
    GNFA(**copy.deepcopy(gnfa))
    bad = copy.deepcopy(gnfa)
    del bad["transitions"]["q_in"]["q2"]  # initial-state row incomplete
    cases.append((GNFA, bad, E.MissingStateError))
    bad = copy.deepcopy(gnfa)
    del bad["transitions"]["q1"]["q_f"]  # ordinary row incomplete
    cases.append((GNFA, bad, E.MissingStateError))
    bad = copy.deepcopy(gnfa)
    bad["transitions"]["q_f"] = {"q0": "a", "q1": None, "q2": None, "q_f": None}
    cases.append((GNFA, bad, E.InvalidStateError))
    bad = copy.deepcopy(gnfa)
    bad["transitions"]["q1"]["q3"] = "a"
    cases.append((GNFA, bad, E.InvalidStateError))
    bad = copy.deepcopy(gnfa)
    bad["transitions"]["q1"]["q2"] = "a|*"
    cases.append((GNFA, bad, E.InvalidRegexError))
    bad = copy.deepcopy(gnfa)
    bad["transitions"]["q1"]["q2"] = "c"
    cases.append((GNFA, bad, E.InvalidRegexError))
    bad = copy.deepcopy(gnfa)
    bad["transitions"]["q1"]["q_in"] = "a"
    cases.append((GNFA, bad, E.InvalidStateError))
    bad = copy.deepcopy(gnfa)
    bad["final_state"] = "q_in"
    cases.append((GNFA, bad, E.InvalidStateError))

    dpda = dict(
        states={"q0", "q1", "q2", "q3"},
        input_symbols={"a", "b"},
        stack_symbols={"0", "1"},
        transitions={
            "q0": {"a": {"0": ("q1", ("1", "0"))}},
            "q1": {"a": {"1": ("q1", ("1", "1"))}, "b": {"1": ("q2", "")}},
            "q2": {"b": {"1": ("q2", "")}, "": {"0": ("q3", ("0",))}},
        },
        initial_state="q0",
        initial_stack_symbol="0",
        final_states={"q3"},
        acceptance_mode="final_state",
    )
    DPDA(**copy.deepcopy(dpda))
    bad = copy.deepcopy(dpda)
    bad["transitions"]["q2"]["b"]["0"] = ("q2", "0")  # clashes with lambda on "0"
    cases.append((DPDA, bad, PE.NondeterminismError))
    bad = copy.deepcopy(dpda)
    bad["transitions"]["q2"][""]["1"] = ("q3", ("1",))  # second lambda symbol clashes
    cases.append((DPDA, bad, PE.NondeterminismError))
    bad = copy.deepcopy(dpda)
    bad["transitions"]["q1"]["c"] = {"1": ("q1", "")}
    cases.append((DPDA, bad, E.InvalidSymbolError))
    bad = copy.deepcopy(dpda)
    bad["transitions"]["q1"]["a"]["2"] = ("q1", "")
    cases.append((DPDA, bad, E.InvalidSymbolError))
    bad = copy.deepcopy(dpda)
    bad["acceptance_mode"] = "foo"
    cases.append((DPDA, bad, PE.InvalidAcceptanceModeError))
    bad = copy.deepcopy(dpda)
    bad["initial_stack_symbol"] = "2"
    cases.append((DPDA, bad, E.InvalidSymbolError))
    ok = copy.deepcopy(dpda)  # lambda and input transitions on different stack symbols
    ok["transitions"]["q2"][""]["0"] = ("q3", ("0",))
    ok["transitions"]["q0"][""] = {"1": ("q0", ("1",))}
    DPDA(**ok)

    dtm = dict(
        states={"q0", "q1", "q2", "q3", "q4"},
        input_symbols={"0", "1"},
        tape_symbols={"0", "1", "x", "y", "."},
        transitions={
            "q0": {"0": ("q1", "x", "R"), "y": ("q3", "y", "R")},
            "q1": {"0": ("q1", "0", "R"), "1": ("q2", "y", "L"), "y": ("q1", "y", "R")},
            "q2": {"0": ("q2", "0", "L"), "x": ("q0", "x", "R"), "y": ("q2", "y", "L")},
            "q3": {"y": ("q3", "y", "R"), ".": ("q4", ".", "R")},
        },
        initial_state="q0",
        blank_symbol=".",
        final_states={"q4"},
    )
    DTM(**copy.deepcopy(dtm))
    bad = copy.deepcopy(dtm)
    bad["transitions"]["q4"] = {"0": ("q4", "0", "L")}
    cases.append((DTM, bad, E.FinalStateError))
    bad = copy.deepcopy(dtm)
    bad["final_states"] = {"q4", "q3"}  # q3 has a row; q4 has not
    cases.append((DTM, bad, E.FinalStateError))
    bad = copy.deepcopy(dtm)
    bad["transitions"]["q0"]["0"] = ("q1", "x", "U")
    cases.append((DTM, bad, TE.InvalidDirectionError))
    bad = copy.deepcopy(dtm)
    bad["transitions"]["q0"]["2"] = ("q1", "x", "R")
    cases.append((DTM, bad, E.InvalidSymbolError))
    bad = copy.deepcopy(dtm)
    bad["final_states"] = {"q4", "q0"}
    cases.append((DTM, bad, E.InitialStateError))
    ntm = copy.deepcopy(dtm)
    ntm["transitions"] = {
        s: {k: {r} for k, r in row.items()} for s, row in dtm["transitions"].items()
    }
    NTM(**copy.deepcopy(ntm))
    bad = copy.deepcopy(ntm)
    bad["transitions"]["q4"] = {"0": {("q4", "0", "L")}}
    cases.append((NTM, bad, E.FinalStateError))
    mntm = dict(
        states={"q0", "q1"},
        input_symbols={"0", "1"},
        tape_symbols={"0", "1", "#"},
        n_tapes=2,
        transitions={
            "q0": {
                ("1", "#"): [("q0", (("1", "R"), ("1", "R")))],
                ("0", "#"): [("q0", (("0", "R"), ("#", "N")))],
                ("#", "#"): [("q1", (("#", "N"), ("#", "N")))],
            }
        },
        initial_state="q0",
        blank_symbol="#",
        final_states={"q1"},
    )
    MNTM(**copy.deepcopy(mntm))
    bad = copy.deepcopy(mntm)
    bad["n_tapes"] = 3
    cases.append((MNTM, bad, TE.InconsistentTapesException))
    bad = copy.deepcopy(mntm)
    bad["transitions"]["q1"] = {("#", "#"): [("q1", (("#", "N"), ("#", "N")))]}
    cases.append((MNTM, bad, E.FinalStateError))

    for i, (cls, bad, expected) in enumerate(cases):
        for validate, mutable in OPTION_COMBOS:
            with options(validate, mutable):
                exc = outcome(cls, bad)
            check(
                type(exc) is expected,
                lambda: f"hand-picked #{i} {cls.__name__}: got {exc!r}, "
                f"documented {expected.__name__}",
            )
        with options(True, False):
            dump("hand", str(i), outcome(cls, bad))
        bump("hand-picked corruption")


# --------------------------------------------------------------------------
# Reference simulators
# --------------------------------------------------------------------------


def ref_dfa_accepts(d, w):
    q = d["initial_state"]
    for c in w:
        row = d["transitions"].get(q, {})
        if c not in row:
            return False
        q = row[c]
    return q in d["final_states"]


def ref_closure(d, qs):
    seen, todo = set(qs), list(qs)
    while todo:
        q = todo.pop()
        for t in d["transitions"].get(q, {}).get("", ()):
            if t not in seen:
                seen.add(t)
                todo.append(t)
    return seen


def ref_nfa_accepts(d, w):
    cur = ref_closure(d, {d["initial_state"]})
    for c in w:
        if c == "":
            return False
        nxt = set()
        for q in cur:
            nxt |= set(d["transitions"].get(q, {}).get(c, ()))
        cur = ref_closure(d, nxt)
    return bool(cur & set(d["final_states"]))


def ref_dtm(d, w, cap):
    tape, head, q = dict(enumerate(w)), 0, d["initial_state"]
    for _ in range(cap):
        if q in d["final_states"]:
            return True
        tr = d["transitions"].get(q, {}).get(tape.get(head, d["blank_symbol"]))
        if tr is None:
            return False
        q, tape[head], move = tr
        head += {"L": -1, "N": 0, "R": 1}[move]
    return None


def ref_ntm(d, w, cap, multi):
    """BFS over configurations; True / False / None (undecided within cap)."""
    n = d.get("n_tapes", 1)
    blank = d["blank_symbol"]

    def norm(tape):
        return tuple(sorted((i, c) for i, c in tape.items() if c != blank))

    tapes0 = [dict(enumerate(w))] + [dict() for _ in range(n - 1)]
    frontier = [(d["initial_state"], tapes0, [0] * n)]
    for _ in range(cap):
        if not frontier:
            return False
        nxt, seen = [], set()
        for q, tapes, heads in frontier:
            if q in d["final_states"]:
                return True
            read = tuple(t.get(h, blank) for t, h in zip(tapes, heads))
            key = read if multi else read[0]
            for res in d["transitions"].get(q, {}).get(key, ()):
                if multi:
                    t2, moves = res
                else:
                    t2, moves = res[0], [(res[1], res[2])]
                nt = [dict(t) for t in tapes]
                nh = list(heads)
                for i, (wsym, mv) in enumerate(moves):
                    nt[i][nh[i]] = wsym
                    nh[i] += {"L": -1, "N": 0, "R": 1}[mv]
                sig = (t2, tuple(norm(t) for t in nt), tuple(nh))
                if sig not in seen:
                    seen.add(sig)
                    nxt.append((t2, nt, nh))
        frontier = nxt
        if len(frontier) > 300:
            return None
    return None


def ref_dpda(d, w, cap):
    mode = d.get("acceptance_mode", "both")
    q, rest, stack = d["initial_state"], w, [d["initial_stack_symbol"]]
    for _ in range(cap):
        if not rest:
            if mode in ("empty_stack", "both") and not stack:
                return True
            if mode in ("final_state", "both") and q in d["final_states"]:
                return True
        top = stack[-1] if stack else ""
        row = d["transitions"].get(q, {})
        tr, consume = None, False
        if rest and top in row.get(rest[0], {}):
            tr, consume = row[rest[0]][top], True
        elif top in row.get("", {}):
            tr = row[""][top]
        if tr is None:
            return False
        q, push = tr
        stack = stack[:-1] + list(reversed(push))
        if consume:
            rest = rest[1:]
    return None


def lib_run(obj, w, max_yields):
    """True / False / None using read_input_stepwise with a step budget."""
    gen = obj.read_input_stepwise(w)
    try:
        for i, _ in enumerate(gen):
            if i >= max_yields:
                gen.close()
                return None
    except E.RejectionException:
        return False
    return True


def words(alphabet, max_len):
    for n in range(max_len + 1):
        for tup in itertools.product(sorted(alphabet), repeat=n):
            yield "".join(tup)


def part2(rng, per_family):
    for _ in range(per_family):
        # finite automata: exact comparison with the reference on every word
        for name, gen, ref, cls in (
            ("DFA", gen_dfa, ref_dfa_accepts, DFA),
            ("NFA", gen_nfa, ref_nfa_accepts, NFA),
        ):
            d = gen(rng)
            ws = list(words(d["input_symbols"], 3)) + ["#", "a#", "ba#b"]
            expected = [ref(d, w) for w in ws]
            for validate, mutable in OPTION_COMBOS:
                with options(validate, mutable):
                    obj = construct(cls, d)
                    got = [obj.accepts_input(w) for w in ws]
                    check(
                        got == expected,
                        lambda: f"{name} verdicts differ from reference under "
                        f"validate={validate} mutable={mutable}\n{d}",
                    )
                    for w in ws[:8]:
                        try:
                            obj.read_input(w)
                            check(ref(d, w), f"{name}.read_input accepted {w!r}\n{d}")
                        except E.RejectionException:
                            check(not ref(d, w), f"{name}.read_input rejected {w!r}\n{d}")
                        check((w in obj) == ref(d, w), f"{name}.__contains__ {w!r}")
            bump(f"{name} runs", len(ws) * 4)
        # machines with possibly unbounded runs: step budget
        for name, gen, ref, cls, cap in (
            ("DPDA", lambda r: gen_pda(r, True), ref_dpda, DPDA, 40),
            ("DTM", lambda r: gen_tm(r, "dtm"), ref_dtm, DTM, 40),
            ("NTM", lambda r: gen_tm(r, "ntm"), lambda d, w, c: ref_ntm(d, w, c, False), NTM, 12),
            ("MNTM", lambda r: gen_tm(r, "mntm"), lambda d, w, c: ref_ntm(d, w, c, True), MNTM, 10),
        ):
            d = gen(rng)
            ws = [w for w in words(d["input_symbols"], 3)][:10] + ["#"]
            verdicts = []
            for validate, mutable in OPTION_COMBOS:
                with options(validate, mutable):
                    obj = construct(cls, d)
                    row = []
                    for w in ws:
                        expected = ref(d, w, cap)
                        budget = cap + 3 if name != "MNTM" else 400
                        try:
                            got = lib_run(obj, w, budget)
                        except Exception as exc:  # noqa: BLE001
                            fail(f"{name} run on {w!r} raised undocumented {exc!r}\n{d}")
                        if expected is not None and got is not None:
                            check(
                                got == expected,
                                lambda: f"{name} on {w!r}: library {got}, reference "
                                f"{expected} (validate={validate} mutable={mutable})\n{d}",
                            )
                        row.append(got)
                    verdicts.append(row)
            check(all(r == verdicts[0] for r in verdicts), f"{name} verdict depends on options\n{d}")
            bump(f"{name} runs", len(ws) * 4)
        # NPDA: no undocumented error, verdict independent of options
        d = gen_pda(rng, False)
        ws = [w for w in words(d["input_symbols"], 3)][:8]
        verdicts = []
        for validate, mutable in OPTION_COMBOS:
            with options(validate, mutable):
                obj = construct(NPDA, d)
                try:
                    verdicts.append([lib_run(obj, w, 12) for w in ws])
                except Exception as exc:  # noqa: BLE001
                    fail(f"NPDA run raised undocumented {exc!r}\n{d}")
        check(all(r == verdicts[0] for r in verdicts), f"NPDA verdict depends on options\n{d}")
        bump("NPDA runs", len(ws) * 4)


# --------------------------------------------------------------------------
# Part 3: operations
# --------------------------------------------------------------------------


def lang_of(obj, ws):
    return [obj.accepts_input(w) for w in ws]


def ref_pairs(a, b):
    """Reachable pairs of the (partial) product of two DFA definitions."""
    start = (a["initial_state"], b["initial_state"])
    seen, todo = {start}, [start]
    while todo:
        p, q = todo.pop()
        for c in a["input_symbols"]:
            p2 = a["transitions"].get(p, {}).get(c) if p is not None else None
            q2 = b["transitions"].get(q, {}).get(c) if q is not None else None
            if (p2, q2) not in seen and (p2 is not None or q2 is not None):
                seen.add((p2, q2))
                todo.append((p2, q2))
    return seen


def shuffle_member(A, B, w):
    """w in shuffle(L(A), L(B)) by brute force over all splits into subsequences."""
    n = len(w)
    for mask in range(1 << n):
        u = "".join(w[i] for i in range(n) if mask >> i & 1)
        v = "".join(w[i] for i in range(n) if not mask >> i & 1)
        if A(u) and B(v):
            return True
    return False


def star_member(A, w):
    if w == "":
        return True
    ok = [True] + [False] * len(w)
    for i in range(1, len(w) + 1):
        ok[i] = any(ok[j] and A(w[j:i]) for j in range(i))
    return ok[len(w)]


def params_snapshot(obj):
    return canon(obj.input_parameters)


def canon(x):
    if isinstance(x, (set, frozenset)):
        return ("S", frozenset(canon(e) for e in x))
    if isinstance(x, dict):
        return ("D", frozenset((canon(k), canon(v)) for k, v in x.items()))
    if hasattr(x, "items") and hasattr(x, "keys"):
        return ("D", frozenset((canon(k), canon(v)) for k, v in x.items()))
    if isinstance(x, (list, tuple)):
        return ("T", tuple(canon(e) for e in x))
    return x


def check_result(label, res, ws, expected_lang, defs):
    """A result automaton validates, satisfies the rule table, has the language."""
    check(isinstance(res, Automaton), f"{label}: not an automaton")
    try:
        res.validate()
    except Exception as exc:  # noqa: BLE001
        fail(f"{label}: result fails validate(): {exc!r}\noperands {defs}")
    p = dict(res.input_parameters)
    if isinstance(res, GNFA):
        v = violations_gnfa(p, label_ref=lambda lab, A: True)
    elif isinstance(res, DFA):
        v = violations_dfa(p)
    else:
        v = violations_nfa(p)
    check(not v, lambda: f"{label}: result violates {v}\n{p}\noperands {defs}")
    if expected_lang is not None:
        got = lang_of(res, ws)
        check(
            got == expected_lang,
            lambda: f"{label}: language differs from brute force on "
            f"{[w for w, g, e in zip(ws, got, expected_lang) if g != e][:5]}\noperands {defs}",
        )


def part3(rng, rounds):
    for _ in range(rounds):
        alphabet = rng.choice(["ab", "ab", "abc"])
        da, db = gen_dfa(rng, alphabet=alphabet), gen_dfa(rng, alphabet=alphabet)
        na, nb = gen_nfa(rng, alphabet=alphabet), gen_nfa(rng, alphabet=alphabet)
        ws = list(words(alphabet, 4 if len(alphabet) == 2 else 3))
        A = lambda w: ref_dfa_accepts(da, w)  # noqa: E731
        B = lambda w: ref_dfa_accepts(db, w)  # noqa: E731
        NA = lambda w: ref_nfa_accepts(na, w)  # noqa: E731
        NB = lambda w: ref_nfa_accepts(nb, w)  # noqa: E731
        pairs = ref_pairs(da, db)
        fa, fb = da["final_states"], db["final_states"]
        a_empty = not any(p in fa for p, _ in ref_pairs(da, da))
        predicates_expected = {
            "issubset": not any(p in fa and q not in fb for p, q in pairs),
            "issuperset": not any(q in fb and p not in fa for p, q in pairs),
            "isdisjoint": not any(p in fa and q in fb for p, q in pairs),
            "eq": not any((p in fa) != (q in fb) for p, q in pairs),
            "isempty": a_empty,
        }
        summaries = []
        for validate, mutable in OPTION_COMBOS:
            with options(validate, mutable):
                a, b = construct(DFA, da), construct(DFA, db)
                n1, n2 = construct(NFA, na), construct(NFA, nb)
                before = [params_snapshot(x) for x in (a, b, n1, n2)]
                tag = f"[validate={validate} mutable={mutable}]"
                results = {}

                def run(label, thunk, expected):
                    try:
                        res = thunk()
                    except Exception as exc:  # noqa: BLE001
                        fail(f"{label} {tag}: undocumented {exc!r}\n{da}\n{db}\n{na}\n{nb}")
                    exp = None if expected is None else [expected(w) for w in ws]
                    check_result(f"{label} {tag}", res, ws, exp, (da, db, na, nb))
                    results[label] = (
                        type(res).__name__,
                        canon(res.input_symbols),
                        lang_of(res, ws) if not isinstance(res, GNFA) else None,
                    )
                    return res

                for minify in (True, False):
                    m = f" minify={minify}"
                    run("DFA.union" + m, lambda: a.union(b, minify=minify), lambda w: A(w) or B(w))
                    run("DFA.intersection" + m, lambda: a.intersection(b, minify=minify), lambda w: A(w) and B(w))
                    run("DFA.difference" + m, lambda: a.difference(b, minify=minify), lambda w: A(w) and not B(w))
                    run("DFA.symmetric_difference" + m, lambda: a.symmetric_difference(b, minify=minify), lambda w: A(w) != B(w))
                    run("DFA.complement" + m, lambda: a.complement(minify=minify), lambda w: not A(w))
                    run("DFA.to_partial" + m, lambda: a.to_partial(minify=minify), A)
                    run("DFA.from_nfa" + m, lambda: DFA.from_nfa(n1, minify=minify), NA)
                for retain in (True, False):
                    run(f"DFA.minify retain={retain}", lambda: a.minify(retain_names=retain), A)
                run("DFA.to_complete", lambda: a.to_complete(), A)
                run("DFA.copy", lambda: a.copy(), A)
                run("NFA.from_dfa", lambda: NFA.from_dfa(a), A)
                run("NFA.copy", lambda: n1.copy(), NA)
                run("NFA.union", lambda: n1.union(n2), lambda w: NA(w) or NB(w))
                run("NFA.intersection", lambda: n1.intersection(n2), lambda w: NA(w) and NB(w))
                run(
                    "NFA.concatenate",
                    lambda: n1.concatenate(n2),
                    lambda w: any(NA(w[:i]) and NB(w[i:]) for i in range(len(w) + 1)),
                )
                run("NFA.kleene_star", lambda: n1.kleene_star(), lambda w: star_member(NA, w))
                run("NFA.option", lambda: n1.option(), lambda w: w == "" or NA(w))
                run("NFA.reverse", lambda: n1.reverse(), lambda w: NA(w[::-1]))
                run("NFA.eliminate_lambda", lambda: n1.eliminate_lambda(), NA)
                run("NFA.shuffle_product", lambda: n1.shuffle_product(n2), lambda w: shuffle_member(NA, NB, w))
                run("NFA.left_quotient", lambda: n1.left_quotient(n2), None)
                run("NFA.right_quotient", lambda: n1.right_quotient(n2), None)
                g1 = run("GNFA.from_dfa", lambda: GNFA.from_dfa(a), None)
                g2 = run("GNFA.from_nfa", lambda: GNFA.from_nfa(n1), None)
                run("GNFA.copy", lambda: g1.copy(), None)
                for label, g, ref in (("dfa", g1, A), ("nfa", g2, NA)):
                    try:
                        regex = g.to_regex()
                        if regex is None:
                            # no path from the initial to the final state: the
                            # library has no regex for the empty language
                            check(not any(ref(w) for w in ws), f"to_regex None {tag}")
                            continue
                        back = NFA.from_regex(regex, input_symbols=set(alphabet))
                    except Exception as exc:  # noqa: BLE001
                        fail(f"GNFA.to_regex ({label}) {tag}: undocumented {exc!r}\n{da}\n{na}")
                    check_result(f"to_regex/from_regex ({label}) {tag}", back, ws, [ref(w) for w in ws], (da, na))
                    results["regex " + label] = lang_of(back, ws)
                preds = {
                    "issubset": a.issubset(b),
                    "issuperset": a.issuperset(b),
                    "isdisjoint": a.isdisjoint(b),
                    "eq": a == b,
                    "isempty": a.isempty(),
                }
                check(
                    preds == predicates_expected,
                    lambda: f"predicates {tag}: {preds} vs reference {predicates_expected}\n{da}\n{db}",
                )
                k = rng.randint(0, 3)
                check(
                    sorted(a.words_of_length(k)) == sorted(w for w in ws if len(w) == k and A(w)),
                    f"words_of_length {tag}\n{da}",
                )
                check(
                    a.count_words_of_length(k) == sum(1 for w in ws if len(w) == k and A(w)),
                    f"count_words_of_length {tag}\n{da}",
                )
                check((n1 == n2) == (NFA.from_dfa(DFA.from_nfa(n1)) == n2), f"NFA == {tag}")
                after = [params_snapshot(x) for x in (a, b, n1, n2)]
                check(before == after, f"an operand was mutated {tag}\n{da}\n{db}\n{na}\n{nb}")
                summaries.append((results, preds))
                bump("operations checked", len(results) + len(preds) + 3)
        check(
            all(s == summaries[0] for s in summaries),
            lambda: f"results depend on the global options\n{da}\n{db}\n{na}\n{nb}",
        )


def main():
    rng = random.Random(SEED)
    # the label table used by the GNFA reference must itself be right
    import automata.regex.regex as rx

    for lab in GOOD_LABELS:
        if lab is not None:
            check(rx._validate(lab), f"label table: {lab!r} should be a valid regex")
    hand_picked()
    part1(rng, per_family=260)
    part2(rng, per_family=120)
    part3(rng, rounds=60)
    check(
        (cfg.should_validate_automata, cfg.allow_mutable_automata) == (True, False),
        "global options were not restored",
    )
    total = sum(COUNTS.values())
    for key in sorted(COUNTS):
        print(f"  {COUNTS[key]:6d}  {key}")
    print(f"property holds ({total} checks, seed {SEED})")


if __name__ == "__main__":
    main()
