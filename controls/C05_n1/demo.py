"""
Property C05 -- minimisation preserves the language and reaches the minimum
state count.

For random and hand-picked valid DFAs (complete and partial, with unreachable
states, dead states reached by explicit transitions, non-final / dead initial
state, empty / universal language, odd state names such as -1, extra
transition rows keyed by non-states) the result R of

    minify(), minify(retain_names=True), to_partial(minify=True),
    complement(minify=True), union / intersection / difference /
    symmetric_difference (minify=True), DFA.from_nfa(minify=True)

is compared against a brute-force reference written here (explicit product /
subset construction, Moore partition refinement, pairwise BFS equivalence):

  * R validates,
  * L(R) is exactly the expected language,
  * |R.states| is the Myhill-Nerode index if R is complete, and
    max(1, number of non-dead residual classes) if R is partial,
  * minifying R again does not change its size,
  * with retain_names=True every state of R is a frozenset of original
    states, the names are pairwise disjoint, every member has exactly the
    residual language of the result state, and every original state that has
    to be represented is a member of some name,
  * the operands are not mutated.

Run as:  PYTHONPATH=<tree> /venv/bin/python demo.py
"""

import copy
import random
import sys
from collections import deque

import automata.base.config as global_config
from automata.fa.dfa import DFA
from automata.fa.nfa import NFA

DEAD = ("<dead sink of the reference>",)


# --------------------------------------------------------------------------
# Reference machinery: total "implicit" automata (init, step, fin)
# --------------------------------------------------------------------------
class Imp:
    def __init__(self, init, step, fin, alphabet):
        self.init = init
        self.step = step
        self.fin = fin
        self.alphabet = sorted(alphabet)

    def at(self, state):
        return Imp(state, self.step, self.fin, self.alphabet)


def imp_of_dfa(d):
    states = set(d.states)
    trans = {q: dict(row) for q, row in d.transitions.items()}
    finals = set(d.final_states)

    def step(q, a):
        if q not in states:
            return DEAD
        return trans[q].get(a, DEAD)

    def fin(q):
        return q in finals

    return Imp(d.initial_state, step, fin, d.input_symbols)


def imp_product(x, y, op):
    def step(pq, a):
        return (x.step(pq[0], a), y.step(pq[1], a))

    def fin(pq):
        return op(x.fin(pq[0]), y.fin(pq[1]))

    return Imp((x.init, y.init), step, fin, x.alphabet)


def imp_complement(x):
    return Imp(x.init, x.step, lambda q: not x.fin(q), x.alphabet)


def imp_of_nfa(n):
    trans = {q: {a: set(t) for a, t in row.items()} for q, row in n.transitions.items()}
    finals = set(n.final_states)

    def closure(qs):
        seen = set(qs)
        todo = list(qs)
        while todo:
            q = todo.pop()
            for r in trans.get(q, {}).get("", ()):
                if r not in seen:
                    seen.add(r)
                    todo.append(r)
        return frozenset(seen)

    def step(qs, a):
        nxt = set()
        for q in qs:
            nxt |= trans.get(q, {}).get(a, set())
        return closure(nxt)

    def fin(qs):
        return bool(qs & finals)

    return Imp(closure({n.initial_state}), step, fin, n.input_symbols)


def explore(x):
    """Explicit table of the reachable part of a total implicit automaton."""
    index = {x.init: 0}
    order = [x.init]
    delta = []
    todo = deque([x.init])
    while todo:
        q = todo.popleft()
        row = []
        for a in x.alphabet:
            r = x.step(q, a)
            if r not in index:
                index[r] = len(order)
                order.append(r)
                todo.append(r)
            row.append(index[r])
        delta.append(row)
    final = [bool(x.fin(q)) for q in order]
    return order, delta, final


def nerode_numbers(x):
    """(Myhill-Nerode index, number of non-dead residual classes) of L(x)."""
    order, delta, final = explore(x)
    n = len(order)
    cls = [1 if f else 0 for f in final]
    while True:
        sig = {}
        new = []
        for i in range(n):
            s = (cls[i], tuple(cls[j] for j in delta[i]))
            new.append(sig.setdefault(s, len(sig)))
        if len(set(new)) == len(set(cls)):
            break
        cls = new
    # states from which a final state can be reached
    alive = {i for i in range(n) if final[i]}
    changed = True
    while changed:
        changed = False
        for i in range(n):
            if i not in alive and any(j in alive for j in delta[i]):
                alive.add(i)
                changed = True
    return len(set(cls)), len({cls[i] for i in alive})


def equivalent(x, y):
    seen = {(x.init, y.init)}
    todo = deque(seen)
    while todo:
        p, q = todo.popleft()
        if bool(x.fin(p)) != bool(y.fin(q)):
            return False
        for a in x.alphabet:
            nxt = (x.step(p, a), y.step(q, a))
            if nxt not in seen:
                seen.add(nxt)
                todo.append(nxt)
    return True


def accepts_by_hand(d, word):
    """Completely independent acceptance test (used as a sanity cross-check)."""
    q = d.initial_state
    for a in word:
        row = d.transitions[q]
        if a not in row:
            return False
        q = row[a]
    return q in d.final_states


# --------------------------------------------------------------------------
# The property
# --------------------------------------------------------------------------
class Failure(Exception):
    pass


def require(cond, *msg):
    if not cond:
        raise Failure(" ".join(str(m) for m in msg))


def is_complete(r):
    symbols = set(r.input_symbols)
    return all(set(r.transitions[q].keys()) == symbols for q in r.states)


def check_result(r, expected, what, rng):
    """r: library result; expected: reference Imp for the language wanted."""
    require(isinstance(r, DFA), what, "result is not a DFA")
    r.validate()
    require(set(r.input_symbols) == set(expected.alphabet), what, "alphabet changed")
    require(r.allow_partial or is_complete(r), what, "flag says complete, rows partial")
    rimp = imp_of_dfa(r)
    require(equivalent(rimp, expected), what, "language differs")
    # independent spot check with explicit words
    alphabet = expected.alphabet
    for _ in range(6):
        word = [rng.choice(alphabet) for _ in range(rng.randint(0, 7))] if alphabet else []
        q = expected.init
        for a in word:
            q = expected.step(q, a)
        require(accepts_by_hand(r, word) == bool(expected.fin(q)), what, "word", word)
    index, non_dead = nerode_numbers(expected)
    if is_complete(r):
        require(len(r.states) == index, what, "complete result has", len(r.states),
                "states, Myhill-Nerode index is", index)
    else:
        require(len(r.states) == max(1, non_dead), what, "partial result has",
                len(r.states), "states, non-dead classes:", non_dead)
        # a partial result never keeps a dead state
        if non_dead >= 1:
            for q in r.states:
                _, nd = nerode_numbers(rimp.at(q))
                require(nd >= 1, what, "dead state kept:", q)
    # already minimal => size unchanged
    for rn in (False, True):
        again = r.minify(retain_names=rn)
        again.validate()
        require(len(again.states) == len(r.states), what, "re-minify changed size")
        require(equivalent(imp_of_dfa(again), expected), what, "re-minify language")


def check_names(r, origin, must_cover, member_ok, what):
    """
    retain_names=True: every state of r is a frozenset of original states
    (states of the reference automaton `origin`), names are disjoint, every
    member has the residual of the result state, must_cover is covered.
    """
    rimp = imp_of_dfa(r)
    if set(r.states) == {0} and nerode_numbers(rimp)[1] == 0:
        # Known corner, present in the untouched tree as well: when every kept
        # state is dead and a trap state was needed, the library returns
        # DFA.empty_language(...), whose single state is called 0 whatever
        # retain_names says.  Nothing is merged into it, so there is nothing
        # to check for this result.
        return
    seen = set()
    for name in r.states:
        require(isinstance(name, frozenset) and name, what, "name is not a set:", name)
        for member in name:
            require(member_ok(member), what, "member is not an original state", member)
            require(member not in seen, what, "names overlap on", member)
            seen.add(member)
            require(equivalent(origin.at(member), rimp.at(name)), what,
                    "member", member, "has another residual than", name)
    require(must_cover <= seen, what, "states not represented:", must_cover - seen)


def snapshot(d):
    return (
        set(d.states),
        set(d.input_symbols),
        {q: dict(row) for q, row in d.transitions.items()},
        d.initial_state,
        set(d.final_states),
        d.allow_partial,
    )


def reachable_states(d):
    seen = {d.initial_state}
    todo = [d.initial_state]
    while todo:
        q = todo.pop()
        for r in d.transitions[q].values():
            if r not in seen:
                seen.add(r)
                todo.append(r)
    return seen


def check_single(d, rng):
    before = snapshot(d)
    dimp = imp_of_dfa(d)
    _, non_dead_total = nerode_numbers(dimp)
    reach = reachable_states(d)
    alive = {q for q in reach if nerode_numbers(dimp.at(q))[1] >= 1}

    for rn in (False, True):
        r = d.minify(retain_names=rn)
        check_result(r, dimp, f"minify(retain_names={rn})", rng)
        if not d.allow_partial:
            require(is_complete(r), "minify of a complete DFA must be complete")
        if rn:
            cover = alive if r.allow_partial or d.allow_partial else reach
            check_names(r, dimp, cover, lambda m: m in before[0], "minify names")

        r = d.to_partial(retain_names=rn, minify=True)
        check_result(r, dimp, f"to_partial(retain_names={rn})", rng)
        if rn:
            check_names(r, dimp, alive, lambda m: m in before[0], "to_partial names")

        r = d.complement(retain_names=rn, minify=True)
        check_result(r, imp_complement(dimp), f"complement(retain_names={rn})", rng)
        if rn:
            # members are states of the completed operand: original states or
            # the fresh trap state added by to_complete()
            def norm(q):
                return q if q in before[0] else DEAD

            origin = Imp(
                None,
                lambda q, a: dimp.step(norm(q), a),
                lambda q: not dimp.fin(norm(q)),
                dimp.alphabet,
            )
            require(is_complete(r), "complement result must be complete")
            check_names(r, origin, set(reach), lambda m: True, "complement names")

    require(snapshot(d) == before, "operand mutated by minify/to_partial/complement")


OPS = {
    "union": lambda a, b: a or b,
    "intersection": lambda a, b: a and b,
    "difference": lambda a, b: a and not b,
    "symmetric_difference": lambda a, b: a != b,
}


def check_binary(d1, d2, rng):
    b1, b2 = snapshot(d1), snapshot(d2)
    i1, i2 = imp_of_dfa(d1), imp_of_dfa(d2)
    for opname, op in OPS.items():
        expected = imp_product(i1, i2, op)
        for rn in (False, True):
            r = getattr(d1, opname)(d2, retain_names=rn, minify=True)
            what = f"{opname}(retain_names={rn})"
            check_result(r, expected, what, rng)
            if rn:
                # names are sets of pairs; a component that is not a state of
                # its operand is that operand's (internal) trap state
                def norm(pq):
                    p, q = pq
                    return (p if p in b1[0] else DEAD, q if q in b2[0] else DEAD)

                origin = Imp(
                    None,
                    lambda pq, a: expected.step(norm(pq), a),
                    lambda pq: expected.fin(norm(pq)),
                    expected.alphabet,
                )
                check_names(
                    r, origin, set(),
                    lambda m: isinstance(m, tuple) and len(m) == 2,
                    what + " names",
                )
    require(snapshot(d1) == b1 and snapshot(d2) == b2, "operand mutated by binary op")


def check_nfa(n, rng):
    expected = imp_of_nfa(n)
    before = copy.deepcopy(
        (set(n.states), {q: {a: set(t) for a, t in row.items()}
                         for q, row in n.transitions.items()},
         n.initial_state, set(n.final_states))
    )
    for rn in (False, True):
        r = DFA.from_nfa(n, retain_names=rn, minify=True)
        what = f"from_nfa(retain_names={rn})"
        check_result(r, expected, what, rng)
        if rn:
            check_names(
                r, expected, set(),
                lambda m: isinstance(m, frozenset) and m <= before[0],
                what + " names",
            )
    after = (set(n.states), {q: {a: set(t) for a, t in row.items()}
                            for q, row in n.transitions.items()},
             n.initial_state, set(n.final_states))
    require(after == before, "NFA operand mutated")


# --------------------------------------------------------------------------
# Inputs
# --------------------------------------------------------------------------
NAME_POOLS = [
    lambda n: list(range(n)),
    lambda n: [f"q{i}" for i in range(n)],
    lambda n: [-(i + 1) for i in range(n)],  # collide with trap-state ids
    lambda n: [(i, "x") for i in range(n)],
    lambda n: [-1, 0, "s", (1, 2), frozenset({1}), -2, "t", 7][:n],
]


def random_dfa(rng, alphabet=None):
    n = rng.randint(1, 7)
    names = rng.choice(NAME_POOLS)(n)
    rng.shuffle(names)
    if alphabet is None:
        alphabet = rng.choice(["a", "ab", "ab", "abc"])
    partial = rng.random() < 0.6
    density = rng.choice([0.3, 0.6, 0.9, 1.0])
    # bias targets towards a subset, to get unreachable states
    targets = names if rng.random() < 0.5 else names[: rng.randint(1, n)]
    transitions = {}
    for q in names:
        row = {}
        for a in alphabet:
            if not partial or rng.random() < density:
                row[a] = rng.choice(targets)
        transitions[q] = row
    mode = rng.random()
    if mode < 0.1:
        finals = set()
    elif mode < 0.2:
        finals = set(names)
    else:
        finals = {q for q in names if rng.random() < rng.choice([0.2, 0.5])}
    if partial and rng.random() < 0.15:
        # extra row keyed by a non-state (the library accepts this)
        extra = rng.choice([-1, -2, "ghost"])
        if extra not in names:
            transitions[extra] = {a: rng.choice(names) for a in alphabet}
    return DFA(
        states=set(names),
        input_symbols=set(alphabet),
        transitions=transitions,
        initial_state=rng.choice(names),
        final_states=finals,
        allow_partial=partial,
    )


def random_nfa(rng):
    n = rng.randint(1, 5)
    names = list(range(n))
    alphabet = rng.choice(["a", "ab"])
    transitions = {}
    for q in names:
        row = {}
        for a in list(alphabet) + [""]:
            if rng.random() < (0.25 if a == "" else 0.6):
                row[a] = set(rng.sample(names, rng.randint(1, min(2, n))))
        transitions[q] = row
    return NFA(
        states=set(names),
        input_symbols=set(alphabet),
        transitions=transitions,
        initial_state=rng.choice(names),
        final_states={q for q in names if rng.random() < 0.35},
    )


def hand_picked():
    ab = {"a", "b"}
    yield DFA.empty_language(ab)
    yield DFA.universal_language(ab)
    yield DFA.empty_language(set())
    yield DFA.universal_language(set())
    # partial, dead initial state without any transition
    yield DFA(states={0}, input_symbols=ab, transitions={0: {}}, initial_state=0,
              final_states=set(), allow_partial=True)
    # partial, dead initial state with self loops on every / on one symbol
    yield DFA(states={0}, input_symbols=ab, transitions={0: {"a": 0, "b": 0}},
              initial_state=0, final_states=set(), allow_partial=True)
    yield DFA(states={0}, input_symbols=ab, transitions={0: {"a": 0}},
              initial_state=0, final_states=set(), allow_partial=True)
    # partial flag but complete rows, universal
    yield DFA(states={0, 1}, input_symbols=ab,
              transitions={0: {"a": 1, "b": 0}, 1: {"a": 0, "b": 1}},
              initial_state=0, final_states={0, 1}, allow_partial=True)
    # only the empty word
    yield DFA(states={0}, input_symbols=ab, transitions={0: {}}, initial_state=0,
              final_states={0}, allow_partial=True)
    yield DFA(states={0, 1}, input_symbols=ab,
              transitions={0: {"a": 1, "b": 1}, 1: {"a": 1, "b": 1}},
              initial_state=0, final_states={0})
    # dead states reached by explicit transitions, named like trap ids
    yield DFA(states={0, 1, -1, -2}, input_symbols=ab,
              transitions={0: {"a": 1, "b": -1}, 1: {"a": 0, "b": -2},
                           -1: {"a": -2, "b": -1}, -2: {"a": -1}},
              initial_state=0, final_states={1}, allow_partial=True)
    # the same, complete
    yield DFA(states={0, 1, -1, -2}, input_symbols=ab,
              transitions={0: {"a": 1, "b": -1}, 1: {"a": 0, "b": -2},
                           -1: {"a": -2, "b": -1}, -2: {"a": -1, "b": -2}},
              initial_state=0, final_states={1})
    # unreachable states, some final, some equivalent to reachable ones
    yield DFA(states={"i", "u", "v", "w"}, input_symbols=ab,
              transitions={"i": {"a": "i", "b": "i"}, "u": {"a": "i", "b": "v"},
                           "v": {"a": "v", "b": "u"}, "w": {"a": "w", "b": "w"}},
              initial_state="i", final_states={"i", "v"})
    # equivalent states to merge, partial, with a row keyed by a non-state
    yield DFA(states={0, 1, 2, 3}, input_symbols=ab,
              transitions={0: {"a": 1, "b": 2}, 1: {"a": 3}, 2: {"a": 3}, 3: {},
                           -1: {"a": 0}},
              initial_state=0, final_states={3}, allow_partial=True)
    # textbook example with several mergeable states
    yield DFA(states={"q0", "q1", "q2", "q3", "q4", "q5"}, input_symbols={"0", "1"},
              transitions={"q0": {"0": "q3", "1": "q1"}, "q1": {"0": "q2", "1": "q5"},
                           "q2": {"0": "q2", "1": "q5"}, "q3": {"0": "q0", "1": "q4"},
                           "q4": {"0": "q2", "1": "q5"}, "q5": {"0": "q5", "1": "q5"}},
              initial_state="q0", final_states={"q1", "q2", "q4"})
    # constructions shipped with the library
    yield DFA.from_finite_language(ab, {"", "ab", "abb", "ba", "bab"})
    yield DFA.from_substring(ab, "abab")
    yield DFA.of_length(ab, min_length=2, max_length=4)
    yield DFA.nth_from_end(ab, "a", 3)
    yield DFA.count_mod(ab, 3, remainders={1})


def main():
    rng = random.Random(int(sys.argv[1]) if len(sys.argv) > 1 else 20260926)
    counts = {"single": 0, "binary": 0, "nfa": 0}

    def run(label, fn, *args):
        try:
            fn(*args, rng)
        except Failure as exc:
            print("PROPERTY VIOLATED:", exc)
            for arg in args:
                print("  input:", repr(arg))
            sys.exit(1)
        counts[label] += 1

    hand = list(hand_picked())
    for d in hand:
        run("single", check_single, d)
    for d1 in hand:
        for d2 in hand:
            if d1.input_symbols == d2.input_symbols:
                run("binary", check_binary, d1, d2)

    for _ in range(2500):
        run("single", check_single, random_dfa(rng))
    for _ in range(700):
        alphabet = rng.choice(["a", "ab", "abc"])
        run("binary", check_binary, random_dfa(rng, alphabet), random_dfa(rng, alphabet))
    for _ in range(600):
        run("nfa", check_nfa, random_nfa(rng))

    # a smaller batch with unfrozen automata: operands must still be untouched
    global_config.allow_mutable_automata = True
    try:
        for _ in range(300):
            run("single", check_single, random_dfa(rng))
        for _ in range(100):
            alphabet = rng.choice(["a", "ab"])
            run("binary", check_binary, random_dfa(rng, alphabet),
                random_dfa(rng, alphabet))
    finally:
        global_config.allow_mutable_automata = False

    print(f"checked {counts['single']} DFAs, {counts['binary']} pairs, "
          f"{counts['nfa']} NFAs")
    print("property holds")


if __name__ == "__main__":
    main()
