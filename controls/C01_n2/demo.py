"""
Demo for property C01 -- finite-automaton acceptance follows the formal definition.

Run as:  PYTHONPATH=<tree> /venv/bin/python demo.py

For a few thousand random and hand-picked DFAs (complete and partial) and NFAs
(with and without lambda transitions, with lambda cycles, with missing rows and
empty target sets) and random strings (including strings using symbols outside
the alphabet) this program compares

  * accepts_input(w), `w in automaton`, read_input(w),
  * the full list of configurations yielded by read_input_stepwise(w),
  * the way rejection is signalled (RejectionException and nothing else, raised
    only after the last configuration has been yielded)

against a brute-force textbook run written here, and checks that running the
automaton does not mutate it.  Exception *messages* are deliberately not
compared (they are not part of the property).

This copy adds cases aimed at the lambda-closure computation (long lambda
chains and cycles, dense random lambda graphs, every state used as initial
state).

Prints "property holds" and exits 0 on success.
"""

import itertools
import random
import sys

from automata.base.exceptions import RejectionException
from automata.fa.dfa import DFA
from automata.fa.nfa import NFA

SEED = 20260926
CHECKS = 0


def fail(msg):
    print("PROPERTY VIOLATED:", msg)
    sys.exit(1)


# --------------------------------------------------------------------------
# brute-force references
# --------------------------------------------------------------------------


def ref_dfa_run(transitions, initial, word):
    """Textbook run of a (partial) DFA; None is the 'no state' configuration."""
    configs = [initial]
    state = initial
    for symbol in word:
        if state is not None and symbol in transitions[state]:
            state = transitions[state][symbol]
        else:
            state = None
        configs.append(state)
    return configs


def ref_closure(transitions, states):
    """Lambda closure of a set of states by naive fixpoint iteration."""
    closure = set(states)
    changed = True
    while changed:
        changed = False
        for state in list(closure):
            for target in transitions.get(state, {}).get("", ()):
                if target not in closure:
                    closure.add(target)
                    changed = True
    return frozenset(closure)


def ref_nfa_run(transitions, initial, word):
    configs = [ref_closure(transitions, {initial})]
    for symbol in word:
        moved = set()
        for state in configs[-1]:
            moved.update(transitions.get(state, {}).get(symbol, ()))
        configs.append(ref_closure(transitions, moved))
    return configs


# --------------------------------------------------------------------------
# observation of the library
# --------------------------------------------------------------------------


def observe_stepwise(automaton, word, **kwargs):
    """Return (list of yielded configurations, rejected?)."""
    yielded = []
    gen = automaton.read_input_stepwise(word, **kwargs)
    try:
        for config in gen:
            yielded.append(config)
    except RejectionException as exc:
        if type(exc) is not RejectionException:
            fail(f"rejection signalled by {type(exc)!r}")
        return yielded, True
    except Exception as exc:  # noqa: BLE001 - anything else is a crash
        fail(f"{automaton!r} crashed on {word!r}: {type(exc).__name__}: {exc}")
    return yielded, False


def check_automaton(automaton, word, ref_configs, ref_accepted):
    global CHECKS
    CHECKS += 1
    snapshot = (
        automaton.states,
        automaton.input_symbols,
        automaton.transitions,
        automaton.initial_state,
        automaton.final_states,
    )
    snapshot_repr = repr(automaton)

    # verdict
    try:
        verdict = automaton.accepts_input(word)
    except Exception as exc:  # noqa: BLE001
        fail(f"accepts_input crashed: {automaton!r} {word!r} {exc!r}")
    if verdict is not ref_accepted:
        fail(f"accepts_input({word!r}) = {verdict!r}, expected {ref_accepted} "
             f"for {automaton!r}")

    # membership operator
    try:
        member = word in automaton
    except Exception as exc:  # noqa: BLE001
        fail(f"`in` crashed: {automaton!r} {word!r} {exc!r}")
    if member is not ref_accepted:
        fail(f"({word!r} in A) = {member!r}, expected {ref_accepted} for "
             f"{automaton!r}")

    # final configuration / rejection exception
    try:
        final = automaton.read_input(word)
        if not ref_accepted:
            fail(f"read_input({word!r}) returned {final!r} but the word must be "
                 f"rejected by {automaton!r}")
        if final != ref_configs[-1]:
            fail(f"read_input({word!r}) = {final!r}, expected {ref_configs[-1]!r} "
                 f"for {automaton!r}")
    except RejectionException as exc:
        if type(exc) is not RejectionException:
            fail(f"rejection signalled by {type(exc)!r}")
        if ref_accepted:
            fail(f"read_input({word!r}) rejected but the word must be accepted "
                 f"by {automaton!r}")
    except Exception as exc:  # noqa: BLE001
        fail(f"read_input crashed: {automaton!r} {word!r} "
             f"{type(exc).__name__}: {exc}")

    # step-by-step reading
    yielded, rejected = observe_stepwise(automaton, word)
    if len(yielded) != len(word) + 1:
        fail(f"stepwise({word!r}) yielded {len(yielded)} configurations, expected "
             f"{len(word) + 1} for {automaton!r}")
    if yielded != ref_configs:
        fail(f"stepwise({word!r}) = {yielded!r}, expected {ref_configs!r} for "
             f"{automaton!r}")
    if rejected is ref_accepted:
        fail(f"stepwise({word!r}) rejected={rejected}, expected "
             f"{not ref_accepted} for {automaton!r}")

    # a partially consumed generator never raises before the end
    gen = automaton.read_input_stepwise(word)
    for expected in ref_configs:
        try:
            got = next(gen)
        except Exception as exc:  # noqa: BLE001
            fail(f"stepwise raised {exc!r} before all configurations were "
                 f"yielded ({automaton!r}, {word!r})")
        if got != expected:
            fail("stepwise prefix mismatch")
    gen.close()

    # operands are not mutated
    after = (
        automaton.states,
        automaton.input_symbols,
        automaton.transitions,
        automaton.initial_state,
        automaton.final_states,
    )
    if after != snapshot or repr(automaton) != snapshot_repr:
        fail(f"automaton was mutated while reading {word!r}")


def check_dfa(dfa, raw_transitions, word):
    ref_configs = ref_dfa_run(raw_transitions, dfa.initial_state, word)
    ref_accepted = ref_configs[-1] in dfa.final_states
    check_automaton(dfa, word, ref_configs, ref_accepted)
    # ignore_rejection=True: same configurations, never an exception
    yielded, rejected = observe_stepwise(dfa, word, ignore_rejection=True)
    if rejected or yielded != ref_configs:
        fail(f"stepwise(ignore_rejection=True) wrong for {dfa!r} on {word!r}")


def check_nfa(nfa, raw_transitions, word):
    ref_configs = ref_nfa_run(raw_transitions, nfa.initial_state, word)
    ref_accepted = bool(ref_configs[-1] & nfa.final_states)
    check_automaton(nfa, word, ref_configs, ref_accepted)


# --------------------------------------------------------------------------
# random generation
# --------------------------------------------------------------------------

ALPHABETS = [
    ["a"],
    ["a", "b"],
    ["0", "1"],
    ["a", "b", "c"],
    ["x", "y", "z", "w"],
    ["λ", "é"],
    [" ", "\n"],
]
FOREIGN = ["#", "Q", "2", "ß", "\t"]


def make_state_names(rng, n):
    style = rng.randrange(6)
    if style == 0:
        return [f"q{i}" for i in range(n)]
    if style == 1:
        return list(range(n))
    if style == 2:
        return [(i, f"s{i}") for i in range(n)]
    if style == 3:
        return [frozenset({i, i + 100}) for i in range(n)]
    if style == 4:
        # mixed types, including the empty string and 0 / False-like names
        pool = ["", 0, "0", (), frozenset(), ("a",), 7, "q", (1, 2), -1]
        return pool[:n]
    return [chr(ord("A") + i) * (1 + i % 3) for i in range(n)]


def random_word(rng, alphabet, max_len=8, foreign_prob=0.15):
    length = rng.randrange(max_len + 1)
    use_foreign = rng.random() < foreign_prob
    chars = []
    for _ in range(length):
        if use_foreign and rng.random() < 0.3:
            chars.append(rng.choice(FOREIGN))
        else:
            chars.append(rng.choice(alphabet))
    return "".join(chars)


def random_dfa(rng):
    alphabet = rng.choice(ALPHABETS)
    n = rng.randrange(1, 7)
    states = make_state_names(rng, n)
    partial = rng.random() < 0.6
    density = rng.choice([0.0, 0.3, 0.6, 0.9]) if partial else 1.0
    transitions = {}
    for state in states:
        row = {}
        for symbol in alphabet:
            if rng.random() < density:
                row[symbol] = rng.choice(states)
        transitions[state] = row
    final_states = {s for s in states if rng.random() < 0.4}
    dfa = DFA(
        states=set(states),
        input_symbols=set(alphabet),
        transitions=transitions,
        initial_state=rng.choice(states),
        final_states=final_states,
        allow_partial=partial,
    )
    return dfa, transitions, alphabet


def random_nfa(rng):
    alphabet = rng.choice(ALPHABETS)
    n = rng.randrange(1, 7)
    states = make_state_names(rng, n)
    initial = rng.choice(states)
    lambda_prob = rng.choice([0.0, 0.0, 0.2, 0.5, 0.9])
    density = rng.choice([0.2, 0.5, 0.8])
    transitions = {}
    for state in states:
        # rows may be missing altogether (but not the initial state's one)
        if state != initial and rng.random() < 0.2:
            continue
        row = {}
        for symbol in alphabet:
            if rng.random() < density:
                k = rng.randrange(0, min(3, n) + 1)  # possibly the empty set
                row[symbol] = set(rng.sample(states, k))
        if rng.random() < lambda_prob:
            k = rng.randrange(0, min(3, n) + 1)
            row[""] = set(rng.sample(states, k))  # may contain `state` itself
        transitions[state] = row
    final_states = {s for s in states if rng.random() < 0.35}
    nfa = NFA(
        states=set(states),
        input_symbols=set(alphabet),
        transitions=transitions,
        initial_state=initial,
        final_states=final_states,
    )
    return nfa, transitions, alphabet


# --------------------------------------------------------------------------
# hand-picked cases
# --------------------------------------------------------------------------


def all_words(alphabet, max_len):
    for length in range(max_len + 1):
        for letters in itertools.product(alphabet, repeat=length):
            yield "".join(letters)


def hand_picked():
    # complete DFA from the library's README (strings ending in an odd number
    # of '1')
    t = {
        "q0": {"0": "q0", "1": "q1"},
        "q1": {"0": "q0", "1": "q2"},
        "q2": {"0": "q2", "1": "q1"},
    }
    dfa = DFA(states={"q0", "q1", "q2"}, input_symbols={"0", "1"}, transitions=t,
              initial_state="q0", final_states={"q1"})
    for w in list(all_words("01", 6)) + ["2", "012", "0111", "01112", "1" * 200]:
        check_dfa(dfa, t, w)

    # partial DFA with no transitions at all
    t = {0: {}}
    for finals in (set(), {0}):
        dfa = DFA(states={0}, input_symbols={"a"}, transitions=t, initial_state=0,
                  final_states=finals, allow_partial=True)
        for w in ["", "a", "aa", "b", "ab"]:
            check_dfa(dfa, t, w)

    # partial DFA: falls off the table in the middle of the word and the rest
    # of the word would be readable again from other states
    t = {"s": {"a": "t"}, "t": {"b": "s"}, "u": {"a": "u", "b": "u"}}
    dfa = DFA(states={"s", "t", "u"}, input_symbols={"a", "b"}, transitions=t,
              initial_state="s", final_states={"s", "u"}, allow_partial=True)
    for w in all_words("ab", 6):
        check_dfa(dfa, t, w)
    for w in ["abc", "cab", "ab" * 50, "ab" * 50 + "b" + "ab" * 50]:
        check_dfa(dfa, t, w)

    # DFA whose state names are falsy / odd objects
    t = {0: {"a": ""}, "": {"a": ()}, (): {"a": 0}}
    dfa = DFA(states={0, "", ()}, input_symbols={"a"}, transitions=t,
              initial_state=0, final_states={""})
    for w in ["", "a", "aa", "aaa", "aaaa", "ab", "ba"]:
        check_dfa(dfa, t, w)

    # NFA from the README: lambda transition q1 -> q2
    t = {
        "q0": {"a": {"q1"}},
        "q1": {"a": {"q1"}, "": {"q2"}},
        "q2": {"b": {"q0"}},
    }
    nfa = NFA(states={"q0", "q1", "q2"}, input_symbols={"a", "b"}, transitions=t,
              initial_state="q0", final_states={"q1"})
    for w in list(all_words("ab", 6)) + ["abc", "c", "aba", "abba"]:
        check_nfa(nfa, t, w)

    # lambda cycle through every state, including a self loop
    t = {
        0: {"": {1}, "a": {3}},
        1: {"": {2, 1}},
        2: {"": {0}, "b": {2}},
        3: {"": {3}, "b": set()},
    }
    nfa = NFA(states={0, 1, 2, 3}, input_symbols={"a", "b"}, transitions=t,
              initial_state=0, final_states={3})
    for w in all_words("ab", 5):
        check_nfa(nfa, t, w)

    # two disjoint lambda cycles joined by a one-way lambda bridge, missing rows
    t = {
        "a0": {"": {"a1"}},
        "a1": {"": {"a0", "b0"}},
        "b0": {"": {"b1"}, "x": {"dead"}},
        "b1": {"": {"b0"}, "y": {"a0", "lonely"}},
    }
    nfa = NFA(states={"a0", "a1", "b0", "b1", "dead", "lonely"},
              input_symbols={"x", "y"}, transitions=t, initial_state="a0",
              final_states={"lonely", "b1"})
    for w in all_words("xy", 5):
        check_nfa(nfa, t, w)
    # the closure of *every* state is what the textbook says (observed through
    # the public API by moving the initial state around)
    for q in t:
        moved = NFA(states=nfa.states, input_symbols=nfa.input_symbols,
                    transitions=t, initial_state=q, final_states=nfa.final_states)
        for w in ["", "x", "y", "yx", "yy", "z"]:
            check_nfa(moved, t, w)

    # NFA without lambda transitions, dies early on a long word
    t = {"p": {"a": {"p", "q"}}, "q": {"b": {"r"}}, "r": {}}
    nfa = NFA(states={"p", "q", "r"}, input_symbols={"a", "b"}, transitions=t,
              initial_state="p", final_states={"r"})
    for w in list(all_words("ab", 6)) + ["aab" + "ab" * 40, "a" * 100 + "b", "a#b"]:
        check_nfa(nfa, t, w)

    # single-state NFA without any row
    t = {}
    for finals in (set(), {"only"}):
        nfa = NFA(states={"only"}, input_symbols={"a"}, transitions=t,
                  initial_state="only", final_states=finals)
        for w in ["", "a", "aa", "b"]:
            check_nfa(nfa, t, w)

    # non-string items are never members, and do not crash
    for item in (None, 0, ("a",), ["a"], b"a", frozenset()):
        if (item in dfa) is not False or (item in nfa) is not False:
            fail(f"non-string item {item!r} reported as a member")


def extra_closure_cases(rng):
    """Cases aimed at the lambda-closure computation (change n2)."""
    # a long lambda chain closed into a cycle: every closure is the whole set
    n = 400
    t = {i: {"": {(i + 1) % n}} for i in range(n)}
    t[n - 1]["a"] = {0}
    nfa = NFA(states=set(range(n)), input_symbols={"a"}, transitions=t,
              initial_state=17, final_states={n - 1})
    for w in ["", "a", "aa", "b"]:
        check_nfa(nfa, t, w)
    # the same chain left open: closure(i) = {i, ..., n-1}
    t = {i: {"": {i + 1}} for i in range(n - 1)}
    t[n - 1] = {"a": {n // 2}}
    nfa = NFA(states=set(range(n)), input_symbols={"a"}, transitions=t,
              initial_state=0, final_states={n - 1})
    for w in ["", "a", "aa", "aaa", "ab"]:
        check_nfa(nfa, t, w)
    # dense random lambda graphs on 12 states, every state tried as initial state
    for _ in range(60):
        states = make_state_names(rng, 10) if rng.random() < 0.5 else list(range(12))
        t = {}
        for q in states:
            row = {}
            if rng.random() < 0.7:
                row[""] = set(rng.sample(states, rng.randrange(0, 4)))
            for symbol in "ab":
                if rng.random() < 0.4:
                    row[symbol] = set(rng.sample(states, rng.randrange(0, 3)))
            t[q] = row
        finals = {q for q in states if rng.random() < 0.3}
        for q in states:
            nfa = NFA(states=set(states), input_symbols={"a", "b"}, transitions=t,
                      initial_state=q, final_states=finals)
            for w in ["", "a", "b", "ab", "ba", "abc"]:
                check_nfa(nfa, t, w)


def main():
    rng = random.Random(SEED)
    hand_picked()
    extra_closure_cases(rng)
    for _ in range(700):
        dfa, transitions, alphabet = random_dfa(rng)
        for _ in range(5):
            check_dfa(dfa, transitions, random_word(rng, alphabet))
        check_dfa(dfa, transitions, "")
    for _ in range(900):
        nfa, transitions, alphabet = random_nfa(rng)
        for _ in range(5):
            check_nfa(nfa, transitions, random_word(rng, alphabet))
        check_nfa(nfa, transitions, "")
        # closure of every state that may serve as initial state
        for q in transitions:
            moved = NFA(states=nfa.states, input_symbols=nfa.input_symbols,
                        transitions=transitions, initial_state=q,
                        final_states=nfa.final_states)
            check_nfa(moved, transitions, random_word(rng, alphabet, max_len=3))
    print(f"{CHECKS} automaton/word pairs checked")
    print("property holds")


if __name__ == "__main__":
    main()
