"""
Demo for property C10: NFA.from_regex(r) accepts exactly the language denoted by r.

Run as:  PYTHONPATH=<tree> /venv/bin/python demo.py [seed]

A random regular-expression AST is generated, its language (truncated to words
of length <= MAXLEN) is computed by a brute-force set-of-strings evaluator
written here, the AST is rendered to concrete syntax twice (once minimally
parenthesised, once with redundant parentheses and blanks sprinkled in), and
both renderings are compiled with NFA.from_regex and compared with the
reference on EVERY word of length <= MAXLEN over the alphabet.
"""

import itertools
import random
import sys

from automata.fa.nfa import NFA
from automata.regex import regex as re_mod

# Bias of the random generator, so that each demo stresses the code touched by
# the accompanying patch a bit more (all operators are always generated).
FOCUS = "postfix"

N_RANDOM = 2000  # ASTs; each is rendered twice -> 4000 compiled regexes


# --------------------------------------------------------------------------
# AST
#   ("lit", c) | ("any",) | ("eps",) | ("cat", [n1, n2, ...]) |
#   ("bin", op, left, right)  with op in "|&^" | ("rep", child, lo, hi)
# --------------------------------------------------------------------------


def rand_ast(rng, alphabet, depth):
    weights = {
        "lit": 5,
        "any": 1,
        "eps": 1,
        "cat": 4,
        "|": 2,
        "&": 2,
        "^": 2,
        "rep": 4,
    }
    if FOCUS == "postfix":
        weights.update({"rep": 6, "cat": 5, "|": 3})
    elif FOCUS == "literal":
        weights.update({"lit": 7, "cat": 7, "eps": 2})
    elif FOCUS == "repeat":
        weights.update({"rep": 9})
    elif FOCUS == "intersection":
        weights.update({"&": 7, "any": 2})
    if depth <= 0:
        kinds = ["lit", "any", "eps"]
    else:
        kinds = list(weights)
    kind = rng.choices(kinds, [weights[k] for k in kinds])[0]
    if kind == "lit":
        return ("lit", rng.choice(alphabet))
    if kind == "any":
        return ("any",)
    if kind == "eps":
        return ("eps",)
    if kind == "cat":
        n = rng.choice([2, 2, 2, 3, 3, 4])
        return ("cat", [rand_ast(rng, alphabet, depth - 1) for _ in range(n)])
    if kind in "|&^":
        return (
            "bin",
            kind,
            rand_ast(rng, alphabet, depth - 1),
            rand_ast(rng, alphabet, depth - 1),
        )
    # repetition
    shape = rng.choice(["*", "+", "?", "mn", "mn", "m,", ",n"])
    if shape == "*":
        lo, hi = 0, None
    elif shape == "+":
        lo, hi = 1, None
    elif shape == "?":
        lo, hi = 0, 1
    elif shape == "mn":
        lo = rng.randint(0, 3)
        hi = rng.randint(lo, 3)
    elif shape == "m,":
        lo, hi = rng.randint(0, 3), None
    else:
        lo, hi = 0, rng.randint(0, 3)
    return ("rep", rand_ast(rng, alphabet, depth - 1), lo, hi)


def size(node):
    kind = node[0]
    if kind in ("lit", "any", "eps"):
        return 1
    if kind == "cat":
        return 1 + sum(size(c) for c in node[1])
    if kind == "bin":
        return 1 + size(node[2]) + size(node[3])
    return 1 + size(node[1])


def literals(node):
    kind = node[0]
    if kind == "lit":
        return {node[1]}
    if kind in ("any", "eps"):
        return set()
    if kind == "cat":
        return set().union(*(literals(c) for c in node[1]))
    if kind == "bin":
        return literals(node[2]) | literals(node[3])
    return literals(node[1])


# --------------------------------------------------------------------------
# Brute-force reference: the language truncated to words of length <= maxlen.
# Truncation commutes with every operator used here, so the evaluation is
# exact on the words that are kept.
# --------------------------------------------------------------------------


def cat_lang(A, B, maxlen):
    return frozenset(x + y for x in A for y in B if len(x) + len(y) <= maxlen)


_shuffle_cache = {}


def shuffle_words(x, y):
    key = (x, y)
    res = _shuffle_cache.get(key)
    if res is None:
        if not x:
            res = frozenset([y])
        elif not y:
            res = frozenset([x])
        else:
            res = frozenset(
                [x[0] + w for w in shuffle_words(x[1:], y)]
                + [y[0] + w for w in shuffle_words(x, y[1:])]
            )
        _shuffle_cache[key] = res
    return res


def shuffle_lang(A, B, maxlen):
    out = set()
    for x in A:
        for y in B:
            if len(x) + len(y) <= maxlen:
                out |= shuffle_words(x, y)
    return frozenset(out)


def rep_lang(A, lo, hi, maxlen):
    eps = frozenset([""])
    power = eps
    for _ in range(lo):
        power = cat_lang(power, A, maxlen)
    # power == A^lo
    result = set(power)
    if hi is None:
        # A^lo . A*  -- iterate to a fixpoint (truncated, hence finite)
        frontier = power
        while True:
            frontier = cat_lang(frontier, A, maxlen) - result
            if not frontier:
                break
            result |= frontier
    else:
        for _ in range(hi - lo):
            power = cat_lang(power, A, maxlen)
            result |= power
    return frozenset(result)


def lang(node, alphabet, maxlen):
    kind = node[0]
    if kind == "lit":
        return frozenset([node[1]]) if maxlen >= 1 else frozenset()
    if kind == "any":
        return frozenset(alphabet) if maxlen >= 1 else frozenset()
    if kind == "eps":
        return frozenset([""])
    if kind == "cat":
        res = frozenset([""])
        for child in node[1]:
            res = cat_lang(res, lang(child, alphabet, maxlen), maxlen)
        return res
    if kind == "bin":
        A = lang(node[2], alphabet, maxlen)
        B = lang(node[3], alphabet, maxlen)
        if node[1] == "|":
            return A | B
        if node[1] == "&":
            return A & B
        return shuffle_lang(A, B, maxlen)
    return rep_lang(lang(node[1], alphabet, maxlen), node[2], node[3], maxlen)


# --------------------------------------------------------------------------
# Rendering to concrete syntax (a list of tokens).  Binding levels:
#   0 binary operator, 1 concatenation, 2 postfix, 3 atom
# --------------------------------------------------------------------------


def quantifier_token(rng, lo, hi, fancy):
    options = []
    if (lo, hi) == (0, None):
        options.append("*")
    if (lo, hi) == (1, None):
        options.append("+")
    if (lo, hi) == (0, 1):
        options.append("?")
    if not options or fancy:
        if hi is None:
            options.append("{%d,}" % lo)
            if lo == 0:
                options.append("{,}")
        else:
            options.append("{%d,%d}" % (lo, hi))
            if lo == 0:
                options.append("{,%d}" % hi)
    return rng.choice(options) if fancy else options[0]


def render(node, rng, redundant):
    """Return (tokens, level)."""
    kind = node[0]
    if kind == "lit":
        toks, level = [node[1]], 3
    elif kind == "any":
        toks, level = ["."], 3
    elif kind == "eps":
        toks, level = ["(", ")"], 3
    elif kind == "cat":
        toks = []
        for child in node[1]:
            ctoks, clevel = render(child, rng, redundant)
            # a nested concatenation may stay unparenthesised (associativity)
            if clevel < 1:
                ctoks = ["("] + ctoks + [")"]
            toks += ctoks
        level = 1
    elif kind == "bin":
        op = node[1]
        parts = []
        for child in (node[2], node[3]):
            ctoks, clevel = render(child, rng, redundant)
            if clevel == 0:
                # A binary child: the property only fixes precedence relative to
                # concatenation/postfix, so a child with ANOTHER binary
                # operator is always parenthesised; one with the SAME operator
                # may be left bare since | & ^ are associative.
                same = child[0] == "bin" and child[1] == op
                if not same or (redundant and rng.random() < 0.5):
                    ctoks = ["("] + ctoks + [")"]
            parts.append(ctoks)
        toks, level = parts[0] + [op] + parts[1], 0
    else:
        ctoks, clevel = render(node[1], rng, redundant)
        if clevel < 2:
            ctoks = ["("] + ctoks + [")"]
        toks = ctoks + [quantifier_token(rng, node[2], node[3], redundant)]
        level = 2
    if redundant and rng.random() < 0.3:
        for _ in range(rng.choice([1, 1, 2])):
            toks = ["("] + toks + [")"]
        level = 3
    return toks, level


def join_tokens(toks, rng, redundant):
    if not redundant:
        return "".join(toks)
    out = []
    for tok in [""] + toks:
        out.append(tok)
        r = rng.random()
        if r < 0.25:
            out.append(" ")
        elif r < 0.32:
            out.append("\t")
        elif r < 0.36:
            out.append("  \t ")
    return "".join(out)


# --------------------------------------------------------------------------
# Checking
# --------------------------------------------------------------------------


def all_words(alphabet, maxlen):
    for n in range(maxlen + 1):
        for tup in itertools.product(alphabet, repeat=n):
            yield "".join(tup)


def check_regex(regex, input_symbols, alphabet, expected, maxlen, label):
    nfa = NFA.from_regex(regex, input_symbols=input_symbols)
    assert nfa.input_symbols == frozenset(alphabet), (label, regex, nfa.input_symbols)
    nfa.validate()
    for word in all_words(alphabet, maxlen):
        got = nfa.accepts_input(word)
        if got != (word in expected):
            print(
                "PROPERTY VIOLATED (%s): regex %r over %r: word %r accepted=%r, "
                "reference says %r" % (label, regex, alphabet, word, got, word in expected)
            )
            sys.exit(1)
    return nfa


RESERVED = set("*|()? \t&+.^{}")


def check_ast(ast, alphabet, rng, use_default_symbols, label):
    """
    alphabet: the explicit input symbols; ignored when use_default_symbols is
    set, in which case input_symbols=None is passed and the alphabet is, as
    documented, every non-reserved character occurring in the regex (this
    includes the digits and the comma of a {m,n} quantifier).
    """
    plain = join_tokens(render(ast, rng, False)[0], rng, False)
    fancy = join_tokens(render(ast, rng, True)[0], rng, True)
    for regex, sublabel in ((plain, "/plain"), (fancy, "/redundant")):
        if use_default_symbols:
            symbols = sorted(set(regex) - RESERVED)
            input_symbols = None
        else:
            symbols = sorted(alphabet)
            input_symbols = frozenset(alphabet)
        maxlen = {0: 2, 1: 7, 2: 6, 3: 4, 4: 4}.get(len(symbols), 3)
        expected = lang(ast, symbols, maxlen)
        check_regex(regex, input_symbols, symbols, expected, maxlen, label + sublabel)
    # the two spellings must also be recognised as equal by the library
    if not use_default_symbols and rng.random() < 0.1:
        assert re_mod.isequal(plain, fancy, input_symbols=frozenset(alphabet)), (
            plain,
            fancy,
        )
    return plain, fancy


L, A_, E = (lambda c: ("lit", c)), ("any",), ("eps",)


def cat(*xs):
    return ("cat", list(xs))


def bin_(op, x, y):
    return ("bin", op, x, y)


def rep(x, lo, hi):
    return ("rep", x, lo, hi)


HAND_PICKED = [
    E,
    L("a"),
    A_,
    rep(E, 0, None),
    rep(E, 2, 3),
    rep(L("a"), 0, 0),
    rep(L("a"), 0, None),
    rep(L("a"), 1, None),
    rep(L("a"), 0, 1),
    rep(L("a"), 2, 2),
    rep(L("a"), 3, None),
    rep(L("a"), 0, 3),
    rep(L("a"), 1, 3),
    rep(rep(L("a"), 0, None), 0, None),
    rep(rep(L("a"), 1, None), 0, 1),
    rep(rep(L("a"), 2, 2), 2, None),
    rep(rep(rep(L("a"), 0, 1), 1, None), 2, 3),
    cat(L("a"), rep(L("b"), 0, None)),  # ab* is a(b*)
    rep(cat(L("a"), L("b")), 0, None),  # (ab)*
    bin_("|", cat(L("a"), L("b")), L("c")),  # ab|c is (ab)|c
    bin_("|", L("a"), cat(L("b"), rep(L("c"), 1, None))),  # a|bc+
    bin_("&", cat(L("a"), A_), cat(A_, L("b"))),
    bin_("&", rep(A_, 0, None), rep(cat(L("a"), L("b")), 1, 2)),
    bin_("&", rep(bin_("|", L("a"), L("b")), 0, None), rep(cat(A_, A_), 0, None)),
    bin_("&", L("a"), L("b")),  # empty language
    bin_("&", rep(L("a"), 0, None), rep(L("b"), 0, None)),  # only ""
    bin_("^", cat(L("a"), L("b")), cat(L("b"), L("a"))),
    bin_("^", rep(L("a"), 0, None), L("b")),
    bin_("^", E, cat(L("a"), L("b"))),
    bin_("^", rep(L("a"), 1, 2), rep(L("b"), 0, 2)),
    bin_("|", bin_("|", L("a"), L("b")), L("c")),
    bin_("|", L("a"), bin_("|", L("b"), L("c"))),
    bin_("&", bin_("&", rep(A_, 1, 2), rep(A_, 2, 3)), cat(L("a"), A_)),
    bin_("^", bin_("^", L("a"), L("b")), L("c")),
    cat(E, E),
    cat(E, L("a"), E),
    cat(rep(L("a"), 0, 1), rep(L("b"), 0, 1), rep(L("c"), 0, 1)),
    cat(rep(A_, 0, None), L("a"), rep(A_, 0, None)),
    rep(bin_("|", L("a"), E), 2, 2),
    rep(bin_("&", rep(L("a"), 0, None), rep(cat(L("a"), L("a")), 0, None)), 1, None),
    rep(bin_("^", L("a"), L("b")), 0, 2),
    cat(bin_("|", L("a"), L("b")), bin_("&", A_, L("c")), rep(A_, 0, 1)),
    bin_("&", rep(cat(L("a"), L("b")), 0, None), rep(cat(L("a"), L("b"), L("a"), L("b")), 0, None)),
    bin_("&", bin_("^", L("a"), L("b")), cat(A_, L("a"))),
    bin_("^", bin_("&", rep(L("a"), 0, None), rep(L("a"), 1, 2)), rep(L("b"), 1, None)),
]


def main():
    seed = int(sys.argv[1]) if len(sys.argv) > 1 else 20240610
    rng = random.Random(seed)
    n_checked = 0

    # degenerate spellings of the empty string
    for regex in ["", " ", "\t  ", "()", " ( ) ", "(())", "()()", "()*", "(()|())"]:
        for symbols in (None, frozenset("ab")):
            alphabet = sorted(symbols or ())
            check_regex(regex, symbols, alphabet, {""}, 4 if alphabet else 1, "empty")
            n_checked += 1

    # hand-picked shapes, over two alphabets, default and explicit symbols
    for i, ast in enumerate(HAND_PICKED):
        lits = literals(ast)
        for alphabet in ("abc", "ab", None):
            if alphabet is None:
                check_ast(ast, lits, rng, True, "hand%d/default" % i)
            elif lits <= set(alphabet):
                check_ast(ast, set(alphabet), rng, False, "hand%d/%s" % (i, alphabet))
            else:
                continue
            n_checked += 2

    # random expressions
    done = 0
    while done < N_RANDOM:
        alphabet = rng.choice(["ab", "ab", "abc", "a", "xy"])
        ast = rand_ast(rng, alphabet, rng.choice([1, 2, 2, 3, 3, 4]))
        if size(ast) > 14:
            continue
        use_default = rng.random() < 0.2
        symbols = literals(ast) if use_default else set(alphabet)
        check_ast(ast, symbols, rng, use_default, "random%d" % done)
        done += 1
        n_checked += 2

    print("checked %d regular expressions (seed %d, focus %s)" % (n_checked, seed, FOCUS))
    print("property holds")


if __name__ == "__main__":
    main()
