"""Demo for property C17.

C17: for every valid multitape Turing machine (1, 2 or 3 tapes, deterministic
or not) and every input on which the native multitape run
(`MNTM.read_input_stepwise`) halts, the single-tape simulation
(`MNTM.read_input_as_ntm`) gives the same accept/reject verdict, and it signals
rejection only through `automata.base.exceptions.RejectionException`.  This
includes machines whose heads move left from the leftmost cell of a tape or
right past its end (tapes are blank-extended in both directions).

The script compares, on hand-picked and on a few thousand random
(machine, input) pairs,
  * the native run of the library,
  * the single-tape simulation of the library,
  * a brute-force reference simulator written below (two-way infinite tapes
    stored as dicts, level-by-level exploration of the configuration tree),
and prints "property holds" (exit status 0) if they always agree.

Run as:  PYTHONPATH=<tree> /venv/bin/python demo.py
"""

import itertools
import random
import sys

from automata.base.exceptions import RejectionException
from automata.tm.mntm import MNTM

NATIVE_BUDGET = 250  # number of configurations the native run may visit


# --------------------------------------------------------------------------
# brute-force reference
# --------------------------------------------------------------------------
def reference_verdict(spec, input_str, budget):
    """True (accept) / False (reject) / None (budget exhausted).

    Also returns whether some head left the initially written part of its
    tape on the left / on the right (for coverage statistics only)."""
    blank = spec["blank_symbol"]
    finals = spec["final_states"]
    transitions = spec["transitions"]
    n = spec["n_tapes"]
    first = {i: c for i, c in enumerate(input_str)}
    tapes0 = [(first, 0)] + [({}, 0) for _ in range(n - 1)]
    widths = [max(len(input_str), 1)] + [1] * (n - 1)
    frontier = [(spec["initial_state"], tapes0)]
    visited = 0
    went_left = went_right = False
    while frontier:
        next_frontier = []
        for state, tapes in frontier:
            visited += 1
            if visited > budget:
                return None, went_left, went_right
            if state in finals:
                return True, went_left, went_right
            read = tuple(cells.get(head, blank) for cells, head in tapes)
            for next_state, moves in transitions.get(state, {}).get(read, ()):
                new_tapes = []
                for k, ((cells, head), (symbol, direction)) in enumerate(
                    zip(tapes, moves)
                ):
                    cells = dict(cells)
                    cells[head] = symbol
                    head += {"L": -1, "N": 0, "R": 1}[direction]
                    if head < 0:
                        went_left = True
                    if head >= widths[k]:
                        went_right = True
                    new_tapes.append((cells, head))
                next_frontier.append((next_state, new_tapes))
        frontier = next_frontier
    return False, went_left, went_right


# --------------------------------------------------------------------------
# running the library
# --------------------------------------------------------------------------
def run_generator(generator, budget):
    """('accept' | 'reject' | 'budget' | 'error:<class>', steps)."""
    steps = 0
    try:
        for _ in generator:
            steps += 1
            if steps > budget:
                return "budget", steps
    except RejectionException:
        return "reject", steps
    except Exception as error:  # any other exception is a property violation
        return "error:" + type(error).__name__, steps
    return "accept", steps


def build(spec):
    return MNTM(
        states=set(spec["states"]),
        input_symbols=set(spec["input_symbols"]),
        tape_symbols=set(spec["tape_symbols"]),
        n_tapes=spec["n_tapes"],
        transitions=spec["transitions"],
        initial_state=spec["initial_state"],
        blank_symbol=spec["blank_symbol"],
        final_states=set(spec["final_states"]),
    )


def max_branching(spec):
    return max(
        [
            len(results)
            for paths in spec["transitions"].values()
            for results in paths.values()
        ]
        + [1]
    )


class Stats:
    checked = accepted = rejected = skipped = 0
    left = right = nondeterministic = 0
    by_tapes = {1: 0, 2: 0, 3: 0}


def check(spec, machine, input_str, expected=None):
    """Check C17 for one (machine, input) pair; return an error text or None."""
    native, native_steps = run_generator(
        machine.read_input_stepwise(input_str), NATIVE_BUDGET
    )
    if native == "budget":
        if expected is not None:
            return "hand-picked case did not halt natively"
        Stats.skipped += 1
        return None  # the property only speaks about halting native runs
    if native.startswith("error"):
        return "native run raised {}".format(native)
    # Both runs explore the same finitely branching configuration tree level
    # by level, so the simulation needs at most (b + 1) * steps + 1 steps.
    bound = (max_branching(spec) + 1) * native_steps + 10
    simulated, _ = run_generator(machine.read_input_as_ntm(input_str), bound)
    reference, left, right = reference_verdict(spec, input_str, bound)
    reference = {True: "accept", False: "reject", None: "budget"}[reference]
    if simulated != native:
        return "native run says {}, single-tape simulation says {}".format(
            native, simulated
        )
    if reference != native:
        return "native run says {}, brute-force reference says {}".format(
            native, reference
        )
    if expected is not None and native != expected:
        return "expected {}, got {}".format(expected, native)
    # the convenience wrappers of the public API must agree as well
    if machine.accepts_input(input_str) != (native == "accept"):
        return "accepts_input disagrees with the stepwise native run"
    Stats.checked += 1
    Stats.accepted += native == "accept"
    Stats.rejected += native == "reject"
    Stats.left += left
    Stats.right += right
    Stats.nondeterministic += max_branching(spec) > 1
    Stats.by_tapes[spec["n_tapes"]] += 1
    return None


# --------------------------------------------------------------------------
# hand-picked machines
# --------------------------------------------------------------------------
def hand_picked():
    cases = []

    # the machine of the class docstring: copies the 1s to the second tape
    doc = dict(
        states=["q0", "q1"],
        input_symbols=["0", "1"],
        tape_symbols=["0", "1", "#"],
        n_tapes=2,
        transitions={
            "q0": {
                ("1", "#"): [("q0", (("1", "R"), ("1", "R")))],
                ("0", "#"): [("q0", (("0", "R"), ("#", "N")))],
                ("#", "#"): [("q1", (("#", "N"), ("#", "N")))],
            }
        },
        initial_state="q0",
        blank_symbol="#",
        final_states=["q1"],
    )
    for word in ["", "0", "1", "0110", "111", "0101101011", "01#1", "0#"]:
        cases.append((doc, word, "accept"))
    for word in ["2", "012", "1012"]:
        cases.append((doc, word, "reject"))

    # one tape, walks left from the leftmost cell twice, then comes back
    left1 = dict(
        states=["a", "b", "c", "d", "f"],
        input_symbols=["0"],
        tape_symbols=["0", "x", "#"],
        n_tapes=1,
        transitions={
            "a": {("0",): [("b", (("0", "L"),))]},
            "b": {("#",): [("c", (("x", "L"),))]},
            "c": {("#",): [("d", (("x", "R"),))]},
            "d": {("x",): [("d", (("x", "R"),))], ("0",): [("f", (("0", "N"),))]},
        },
        initial_state="a",
        blank_symbol="#",
        final_states=["f"],
    )
    cases.append((left1, "0", "accept"))
    cases.append((left1, "00", "accept"))
    cases.append((left1, "", "reject"))
    cases.append((left1, "x", "reject"))

    # one tape, walks left from the leftmost cell and finds no transition
    left_reject = dict(
        states=["a", "b", "f"],
        input_symbols=["0"],
        tape_symbols=["0", "#"],
        n_tapes=1,
        transitions={
            "a": {("0",): [("b", (("0", "L"),))]},
            "b": {("0",): [("f", (("0", "N"),))]},
        },
        initial_state="a",
        blank_symbol="#",
        final_states=["f"],
    )
    cases.append((left_reject, "0", "reject"))
    cases.append((left_reject, "00", "reject"))

    # two tapes: the word is copied to the second (blank) tape while that head
    # walks left from its leftmost cell, the first head is rewound (stepping
    # left from its leftmost cell), then both tapes are compared rightwards
    left2 = dict(
        states=["a", "r", "b", "f"],
        input_symbols=["0", "1"],
        tape_symbols=["0", "1", "x", "."],
        n_tapes=2,
        transitions={
            "a": {
                ("0", "."): [("a", (("0", "R"), ("x", "L")))],
                ("1", "."): [("a", (("1", "R"), ("1", "L")))],
                (".", "."): [("r", ((".", "L"), (".", "N")))],
            },
            "r": {
                ("0", "."): [("r", (("0", "L"), (".", "N")))],
                ("1", "."): [("r", (("1", "L"), (".", "N")))],
                (".", "."): [("b", ((".", "R"), (".", "R")))],
            },
            "b": {
                ("0", "x"): [("b", (("0", "R"), ("x", "R")))],
                ("1", "1"): [("b", (("1", "R"), ("1", "R")))],
                (".", "."): [("f", ((".", "N"), (".", "N")))],
            },
        },
        initial_state="a",
        blank_symbol=".",
        final_states=["f"],
    )
    # accepts exactly the palindromes over {0, 1}
    for word in ["", "0", "1", "00", "010", "0110", "10101", "111"]:
        cases.append((left2, word, "accept"))
    for word in ["01", "10", "011", "0010", "1x1"]:
        cases.append((left2, word, "reject"))

    # three tapes: every head runs right past the end of its tape, the third
    # one runs left past its beginning
    three = dict(
        states=["a", "b", "f"],
        input_symbols=["0"],
        tape_symbols=["0", "y", "#"],
        n_tapes=3,
        transitions={
            "a": {
                ("0", "#", "#"): [("a", (("0", "R"), ("y", "R"), ("y", "L")))],
                ("#", "#", "#"): [("b", (("#", "R"), ("#", "R"), ("#", "R")))],
            },
            "b": {
                ("#", "#", "y"): [("b", (("#", "R"), ("#", "R"), ("y", "R")))],
                ("#", "#", "#"): [("f", (("#", "N"), ("#", "N"), ("#", "N")))],
            },
        },
        initial_state="a",
        blank_symbol="#",
        final_states=["f"],
    )
    for word in ["", "0", "00", "0000"]:
        cases.append((three, word, "accept"))
    cases.append((three, "0y", "reject"))

    # nondeterministic, two tapes: guesses the position of a 1, the accepting
    # branch is never the first alternative
    guess = dict(
        states=["a", "b", "f"],
        input_symbols=["0", "1"],
        tape_symbols=["0", "1", "#"],
        n_tapes=2,
        transitions={
            "a": {
                ("0", "#"): [("a", (("0", "R"), ("0", "L")))],
                ("1", "#"): [
                    ("a", (("1", "R"), ("1", "L"))),
                    ("a", (("1", "N"), ("#", "L"))),
                    ("b", (("1", "L"), ("#", "R"))),
                ],
            },
            "b": {
                ("0", "0"): [("f", (("0", "N"), ("0", "N")))],
                ("#", "#"): [("f", (("#", "N"), ("#", "N")))],
            },
        },
        initial_state="a",
        blank_symbol="#",
        final_states=["f"],
    )
    for word in ["1", "01", "001", "0101", "11"]:
        cases.append((guess, word, "accept"))
    for word in ["", "0", "000", "0x1"]:
        cases.append((guess, word, "reject"))

    # no final state at all / single state without transitions
    nofinal = dict(
        states=["a"],
        input_symbols=["0"],
        tape_symbols=["0", "#"],
        n_tapes=2,
        transitions={},
        initial_state="a",
        blank_symbol="#",
        final_states=[],
    )
    cases.append((nofinal, "", "reject"))
    cases.append((nofinal, "00", "reject"))
    return cases


# --------------------------------------------------------------------------
# random machines
# --------------------------------------------------------------------------
ALPHABETS = [
    (["0", "1"], [], "#"),
    (["0", "1"], ["x"], "#"),
    (["a"], [], "."),
    (["a", "b"], ["X"], "B"),
    (["0"], ["1"], " "),
]


def random_spec(rng):
    n_tapes = rng.choice([1, 2, 2, 3, 3])
    input_symbols, extra, blank = rng.choice(ALPHABETS)
    tape_symbols = input_symbols + extra + [blank]
    n_states = rng.randint(2, 4)
    states = ["q{}".format(i) for i in range(n_states)]
    n_final = rng.choice([0, 1, 1, 1, 2])
    final_states = rng.sample(states[1:], min(n_final, n_states - 1))
    deterministic = rng.random() < 0.5
    all_reads = list(itertools.product(tape_symbols, repeat=n_tapes))
    transitions = {}
    for state in states:
        if state in final_states:
            continue
        if state != "q0" and rng.random() < 0.15:
            continue  # non-final state without any transition
        density = rng.choice([0.3, 0.6, 0.9])
        paths = {}
        for read in all_reads:
            # the all-blank reading is what happens off the written part
            keep = density if any(s != blank for s in read) else 0.85
            if rng.random() > keep:
                continue
            n_results = 1 if deterministic else rng.choice([1, 1, 2, 3])
            results = []
            for _ in range(n_results):
                moves = tuple(
                    (rng.choice(tape_symbols), rng.choice("LLRRN"))
                    for _ in range(n_tapes)
                )
                results.append((rng.choice(states), moves))
            paths[read] = results
        if not paths and state == "q0":
            read = rng.choice(all_reads)
            moves = tuple((blank, "L") for _ in range(n_tapes))
            paths[read] = [(rng.choice(states), moves)]
        if paths:
            transitions[state] = paths
    return dict(
        states=states,
        input_symbols=input_symbols,
        tape_symbols=tape_symbols,
        n_tapes=n_tapes,
        transitions=transitions,
        initial_state="q0",
        blank_symbol=blank,
        final_states=final_states,
    )


def random_inputs(rng, spec, count):
    words = [""]
    while len(words) < count:
        length = rng.randint(1, 5)
        pool = spec["input_symbols"]
        if rng.random() < 0.2:  # inputs are not restricted to input symbols
            pool = spec["tape_symbols"]
        words.append("".join(rng.choice(pool) for _ in range(length)))
    return words


def main():
    failures = []

    for spec, word, expected in hand_picked():
        error = check(spec, build(spec), word, expected)
        if error:
            failures.append(("hand-picked", spec, word, error))
    hand_checked = Stats.checked

    rng = random.Random(170017)
    for _ in range(700):
        spec = random_spec(rng)
        machine = build(spec)  # validates: only valid machines are used
        for word in random_inputs(rng, spec, 6):
            error = check(spec, machine, word)
            if error:
                failures.append(("random", spec, word, error))

    print(
        "checked {} pairs ({} hand-picked): {} accepted, {} rejected; "
        "{} skipped (native run exceeded the step budget)".format(
            Stats.checked, hand_checked, Stats.accepted, Stats.rejected, Stats.skipped
        )
    )
    print(
        "coverage: tapes {}, nondeterministic {}, head left of leftmost cell {}, "
        "head right past the end {}".format(
            Stats.by_tapes, Stats.nondeterministic, Stats.left, Stats.right
        )
    )
    if failures:
        for kind, spec, word, error in failures[:10]:
            print("VIOLATION ({}): input {!r}: {}\n  {}".format(kind, word, error, spec))
        print("property VIOLATED in {} cases".format(len(failures)))
        sys.exit(1)
    # make sure the run was not vacuous
    assert Stats.checked >= 3000, Stats.checked
    assert Stats.accepted >= 300 and Stats.rejected >= 300
    assert Stats.left >= 300 and Stats.right >= 300
    assert all(count >= 300 for count in Stats.by_tapes.values())
    print("property holds")


if __name__ == "__main__":
    main()
