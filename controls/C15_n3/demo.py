"""
Demo for property C15: the DFA language constructors build exactly the
specified language (and its complement when asked for), in partial and in
complete form, and the result is minimal where the documentation promises the
minimal DFA (non-empty patterns over alphabets of at least two symbols).

Run as:  PYTHONPATH=<tree> /venv/bin/python demo.py
Prints "property holds" and exits 0 on success; prints the first
counterexample and exits 1 otherwise.

Everything the library result is compared with is written here by brute force:
  * the predicates are plain Python string predicates,
  * acceptance is decided by our own walk over dfa.transitions (and spot
    checked through the public accepts_input),
  * the number of states of the minimal DFA is computed by our own Moore
    partition refinement.
"""

import random
import sys
from itertools import product

from automata.base import exceptions
from automata.fa.dfa import DFA

RNG = random.Random(15)
CHECKS = 0


def fail(msg):
    print("PROPERTY VIOLATED:", msg)
    sys.exit(1)


# --------------------------------------------------------------------------
# brute-force helpers
# --------------------------------------------------------------------------
_WORDS_CACHE = {}


def all_words(alphabet, max_len):
    key = (tuple(sorted(alphabet)), max_len)
    if key not in _WORDS_CACHE:
        syms = sorted(alphabet)
        words = []
        for n in range(max_len + 1):
            words.extend("".join(t) for t in product(syms, repeat=n))
        _WORDS_CACHE[key] = words
    return _WORDS_CACHE[key]


def accepts(dfa, word):
    """Our own run of the (possibly partial) DFA over its transition table."""
    state = dfa.initial_state
    for ch in word:
        row = dfa.transitions[state]
        if ch not in row:
            return False
        state = row[ch]
    return state in dfa.final_states


def well_formed(dfa, alphabet, want_complete):
    if set(dfa.input_symbols) != set(alphabet):
        return "input symbols changed"
    if dfa.initial_state not in dfa.states:
        return "initial state not a state"
    if not set(dfa.final_states) <= set(dfa.states):
        return "final states not states"
    if set(dfa.transitions.keys()) != set(dfa.states):
        return "transition table keys differ from state set"
    for state, row in dfa.transitions.items():
        if not set(row.keys()) <= set(alphabet):
            return "row with foreign symbol"
        if not set(row.values()) <= set(dfa.states):
            return "row with foreign target"
        if want_complete and set(row.keys()) != set(alphabet):
            return "complete DFA requested but row of %r is incomplete" % (state,)
    return None


def minimal_state_count(dfa, alphabet):
    """
    Number of states of the minimal DFA of the same kind (partial if some row
    is incomplete, else complete) for the language of dfa. Brute force: add a
    trap, keep reachable states, Moore refinement, count classes; a partial
    DFA need not spend a state on the dead class.
    """
    syms = sorted(alphabet)
    trap = object()
    is_partial = any(len(row) != len(syms) for row in dfa.transitions.values())

    def step(state, ch):
        if state is trap:
            return trap
        return dfa.transitions[state].get(ch, trap)

    reachable = [dfa.initial_state]
    seen = {dfa.initial_state}
    for state in reachable:
        for ch in syms:
            nxt = step(state, ch)
            if nxt not in seen:
                seen.add(nxt)
                reachable.append(nxt)

    block = {s: (s is not trap and s in dfa.final_states) for s in reachable}
    while True:
        signature = {s: (block[s], tuple(block[step(s, ch)] for ch in syms)) for s in reachable}
        ids = {}
        new_block = {s: ids.setdefault(signature[s], len(ids)) for s in reachable}
        if len(set(new_block.values())) == len(set(block.values())):
            block = new_block
            break
        block = new_block
    classes = set(block.values())

    if not is_partial:
        return len(classes)
    # dead class: non-final and closed under all symbols
    dead = 0
    for c in classes:
        members = [s for s in reachable if block[s] == c]
        rep = members[0]
        if (rep is trap or rep not in dfa.final_states) and all(
            block[step(rep, ch)] == c for ch in syms
        ):
            dead = 1
    return max(len(classes) - dead, 1)


def check_language(name, args, dfa, alphabet, predicate, max_len, want_complete=False, minimal=False):
    global CHECKS
    CHECKS += 1
    problem = well_formed(dfa, alphabet, want_complete)
    if problem:
        fail("%s%r: %s" % (name, args, problem))
    words = all_words(alphabet, max_len)
    for word in words:
        if accepts(dfa, word) != bool(predicate(word)):
            fail(
                "%s%r: word %r accepted=%r expected=%r"
                % (name, args, word, accepts(dfa, word), bool(predicate(word)))
            )
    # spot check through the public API as well
    for word in RNG.sample(words, min(12, len(words))):
        if dfa.accepts_input(word) != bool(predicate(word)):
            fail("%s%r: accepts_input(%r) wrong" % (name, args, word))
    if minimal:
        best = minimal_state_count(dfa, alphabet)
        if len(dfa.states) != best:
            fail(
                "%s%r: %d states but the minimal DFA of this kind has %d"
                % (name, args, len(dfa.states), best)
            )


def expect_raises(name, args, exc_class, thunk):
    global CHECKS
    CHECKS += 1
    try:
        thunk()
    except exc_class as exc:
        if type(exc) is not exc_class and not isinstance(exc, exc_class):
            fail("%s%r raised %r" % (name, args, exc))
        return
    except Exception as exc:  # noqa: BLE001
        fail("%s%r raised %r instead of %s" % (name, args, exc, exc_class.__name__))
    fail("%s%r did not raise %s" % (name, args, exc_class.__name__))


def is_subsequence(pattern, word):
    it = iter(word)
    return all(ch in it for ch in pattern)


# --------------------------------------------------------------------------
# inputs
# --------------------------------------------------------------------------
ALPHABETS = [frozenset("a"), frozenset("ab"), frozenset("abc")]
MAX_LEN = {1: 12, 2: 9, 3: 6}

HAND_PATTERNS = [
    "", "a", "b", "aa", "ab", "ba", "aaa", "aab", "aba", "abb", "abab", "aabaa",
    "abaab", "aabaab", "ababab", "abcab", "abcabc", "aaaa", "abba", "abaaba",
    "ababa", "bab", "cabca", "aabaaab", "abacaba",
]


def patterns_for(alphabet, n_random, max_pattern_len):
    syms = sorted(alphabet)
    result = [p for p in HAND_PATTERNS if set(p) <= alphabet]
    for _ in range(n_random):
        n = RNG.randint(0, max_pattern_len)
        # bias towards few distinct symbols: more self-overlap
        pool = syms if RNG.random() < 0.5 else syms[: max(1, len(syms) - 1)]
        result.append("".join(RNG.choice(pool) for _ in range(n)))
    return result


def random_subset(alphabet):
    return {s for s in alphabet if RNG.random() < 0.5}


def copy_of(value):
    return set(value)


# --------------------------------------------------------------------------
# the checks, constructor by constructor
# --------------------------------------------------------------------------
def check_prefix():
    for alphabet in ALPHABETS:
        L = MAX_LEN[len(alphabet)]
        for pat in patterns_for(alphabet, 60, 6):
            for contains in (True, False):
                for as_partial in (True, False):
                    dfa = DFA.from_prefix(set(alphabet), pat, contains=contains, as_partial=as_partial)
                    check_language(
                        "from_prefix", (sorted(alphabet), pat, contains, as_partial), dfa, alphabet,
                        lambda w: w.startswith(pat) == contains, min(L, len(pat) + 4),
                        want_complete=not as_partial,
                        minimal=bool(pat) and len(alphabet) >= 2,
                    )
    # a pattern symbol outside the alphabet is refused
    for contains in (True, False):
        for as_partial in (True, False):
            expect_raises(
                "from_prefix", ("ab", "axb", contains, as_partial), exceptions.InvalidSymbolError,
                lambda: DFA.from_prefix({"a", "b"}, "axb", contains=contains, as_partial=as_partial),
            )


def check_suffix_and_substring():
    for alphabet in ALPHABETS:
        L = MAX_LEN[len(alphabet)]
        for pat in patterns_for(alphabet, 80, 6):
            for contains in (True, False):
                minimal = bool(pat) and len(alphabet) >= 2
                dfa = DFA.from_suffix(set(alphabet), pat, contains=contains)
                check_language(
                    "from_suffix", (sorted(alphabet), pat, contains), dfa, alphabet,
                    lambda w: w.endswith(pat) == contains, L, want_complete=True, minimal=minimal,
                )
                dfa = DFA.from_substring(set(alphabet), pat, contains=contains)
                check_language(
                    "from_substring", (sorted(alphabet), pat, contains), dfa, alphabet,
                    lambda w: (pat in w) == contains, L, want_complete=True, minimal=minimal,
                )
                dfa = DFA.from_substring(set(alphabet), pat, contains=contains, must_be_suffix=True)
                check_language(
                    "from_substring/suffix", (sorted(alphabet), pat, contains), dfa, alphabet,
                    lambda w: w.endswith(pat) == contains, L, want_complete=True, minimal=minimal,
                )
    # long, heavily self-overlapping patterns: long chains of fallbacks
    ab = frozenset("ab")
    long_patterns = [
        "aaaaaaab", "aabaabaaab", "abababab", "abaababaab", "aabaaabaaaab", "bbbbbbbb",
        "abababb", "aabaabaabb", "abaabaaabaaba",
    ] + ["".join(RNG.choice("aab") for _ in range(RNG.randint(7, 10))) for _ in range(12)]
    for pat in long_patterns:
        for contains in (True, False):
            dfa = DFA.from_substring(set(ab), pat, contains=contains)
            check_language(
                "from_substring/long", (pat, contains), dfa, ab,
                lambda w: (pat in w) == contains, len(pat) + 2, want_complete=True, minimal=True,
            )
            dfa = DFA.from_suffix(set(ab), pat, contains=contains)
            check_language(
                "from_suffix/long", (pat, contains), dfa, ab,
                lambda w: w.endswith(pat) == contains, len(pat) + 2, want_complete=True, minimal=True,
            )
            dfa = DFA.from_prefix(set(ab), pat, contains=contains, as_partial=contains)
            check_language(
                "from_prefix/long", (pat, contains), dfa, ab,
                lambda w: w.startswith(pat) == contains, len(pat) + 2, minimal=True,
            )

    # pattern symbols outside the alphabet: no string over the alphabet matches
    for pat in ("x", "ax", "xa", "axa", "aaxaa", "abxab"):
        for contains in (True, False):
            for must_be_suffix in (True, False):
                dfa = DFA.from_substring({"a", "b"}, pat, contains=contains, must_be_suffix=must_be_suffix)
                check_language(
                    "from_substring/foreign", (pat, contains, must_be_suffix), dfa, frozenset("ab"),
                    lambda w: not contains, 7, want_complete=True,
                )


def check_substrings():
    for alphabet in ALPHABETS:
        L = MAX_LEN[len(alphabet)] - 1
        syms = sorted(alphabet)
        pattern_sets = [
            set(), {""}, {"a"}, {"a", "aa"}, {"ab", "b"}, {"aba", "bab"}, {"abab", "ba"},
            {"aab", "aba", "baa"}, {"abc", "bc", "c"}, {"abcab", "cab", "bca"}, {"a", ""},
            {"aaaa", "aa"}, {"abab", "abb", "bb"},
        ]
        pattern_sets = [ps for ps in pattern_sets if all(set(p) <= alphabet for p in ps)]
        for _ in range(70):
            k = RNG.randint(1, 4)
            pattern_sets.append(
                {"".join(RNG.choice(syms) for _ in range(RNG.randint(1, 4))) for _ in range(k)}
            )
        for pats in pattern_sets:
            for contains in (True, False):
                before = copy_of(pats)
                dfa = DFA.from_substrings(set(alphabet), pats, contains=contains)
                check_language(
                    "from_substrings", (syms, sorted(pats), contains), dfa, alphabet,
                    lambda w: any(p in w for p in pats) == contains, L, want_complete=True,
                )
                dfa = DFA.from_substrings(set(alphabet), pats, contains=contains, must_be_suffix=True)
                check_language(
                    "from_substrings/suffix", (syms, sorted(pats), contains), dfa, alphabet,
                    lambda w: any(w.endswith(p) for p in pats) == contains, L, want_complete=True,
                )
                if pats != before:
                    fail("from_substrings mutated its pattern set")
    # deeper tries over a binary alphabet: many shared prefixes, patterns that
    # are suffixes / infixes of each other, long failure chains
    ab = frozenset("ab")
    deep_sets = [
        {"aaaaab", "aaab", "ab", "baaaa"},
        {"abababa", "babab", "bab", "aa"},
        {"aabaab", "abaaba", "baabaa", "aabb"},
        {"aaaaaaa", "aaaaaab", "baaaaaa"},
        {"abbabba", "bbabb", "babbab", "abba", "bbb"},
    ]
    for _ in range(45):
        deep_sets.append(
            {"".join(RNG.choice("ab") for _ in range(RNG.randint(2, 7))) for _ in range(RNG.randint(2, 8))}
        )
    for pats in deep_sets:
        for contains in (True, False):
            dfa = DFA.from_substrings(set(ab), pats, contains=contains)
            check_language(
                "from_substrings/deep", (sorted(pats), contains), dfa, ab,
                lambda w: any(p in w for p in pats) == contains, 10, want_complete=True,
            )
            dfa = DFA.from_substrings(set(ab), pats, contains=contains, must_be_suffix=True)
            check_language(
                "from_substrings/deep/suffix", (sorted(pats), contains), dfa, ab,
                lambda w: any(w.endswith(p) for p in pats) == contains, 10, want_complete=True,
            )

    # patterns with symbols outside the alphabet never match
    for pats in ({"ax", "b"}, {"xa"}, {"axb", "ab", "x"}, {"abx", "ba"}):
        for contains in (True, False):
            for must_be_suffix in (True, False):
                usable = {p for p in pats if set(p) <= {"a", "b"}}
                dfa = DFA.from_substrings({"a", "b"}, pats, contains=contains, must_be_suffix=must_be_suffix)
                check_language(
                    "from_substrings/foreign", (sorted(pats), contains, must_be_suffix), dfa,
                    frozenset("ab"),
                    (lambda w: any(w.endswith(p) for p in usable) == contains)
                    if must_be_suffix
                    else (lambda w: any(p in w for p in usable) == contains),
                    7, want_complete=True,
                )


def check_subsequence():
    for alphabet in ALPHABETS:
        L = MAX_LEN[len(alphabet)]
        for pat in patterns_for(alphabet, 60, 6):
            for contains in (True, False):
                dfa = DFA.from_subsequence(set(alphabet), pat, contains=contains)
                check_language(
                    "from_subsequence", (sorted(alphabet), pat, contains), dfa, alphabet,
                    lambda w: is_subsequence(pat, w) == contains, L, want_complete=True,
                    minimal=bool(pat) and len(alphabet) >= 2,
                )
    expect_raises(
        "from_subsequence", ("ab", "axb"), exceptions.InvalidSymbolError,
        lambda: DFA.from_subsequence({"a", "b"}, "axb"),
    )


def check_of_length():
    for alphabet in ALPHABETS:
        L = MAX_LEN[len(alphabet)]
        cases = []
        for lo in range(0, 6):
            for hi in [None] + list(range(0, 7)):
                cases.append((lo, hi, None))
        for _ in range(120):
            lo = RNG.randint(0, 5)
            hi = RNG.choice([None] + list(range(0, 7)))
            cases.append((lo, hi, random_subset(alphabet)))
        cases.append((0, None, set()))
        cases.append((1, None, set()))
        cases.append((0, 0, set()))
        cases.append((2, 1, set(alphabet)))
        cases.append((0, None, {"z"}))
        cases.append((1, 3, {"a", "z"}))
        cases.append((-2, None, None))
        for lo, hi, counted in cases:
            before = None if counted is None else copy_of(counted)
            dfa = DFA.of_length(set(alphabet), min_length=lo, max_length=hi, symbols_to_count=counted)
            eff = alphabet if counted is None else counted

            def pred(w, lo=lo, hi=hi, eff=eff):
                n = sum(1 for ch in w if ch in eff)
                return lo <= n and (hi is None or n <= hi)

            check_language(
                "of_length", (sorted(alphabet), lo, hi, counted and sorted(counted)), dfa, alphabet,
                pred, L, want_complete=True, minimal=True,
            )
            if counted is not None and counted != before:
                fail("of_length mutated symbols_to_count")


def check_count_mod():
    for alphabet in ALPHABETS:
        L = MAX_LEN[len(alphabet)]
        for k in range(1, 6):
            cases = [(None, None), ({0}, None), (set(), None), (set(range(k)), None)]
            for _ in range(25):
                cases.append(({r for r in range(k) if RNG.random() < 0.5}, random_subset(alphabet)))
            cases.append(({0}, set()))
            cases.append(({k - 1}, {"a", "z"}))
            for rems, counted in cases:
                rems_before = None if rems is None else copy_of(rems)
                counted_before = None if counted is None else copy_of(counted)
                dfa = DFA.count_mod(set(alphabet), k, remainders=rems, symbols_to_count=counted)
                eff = alphabet if counted is None else counted
                effr = {0} if rems is None else rems

                def pred(w, k=k, eff=eff, effr=effr):
                    return sum(1 for ch in w if ch in eff) % k in effr

                check_language(
                    "count_mod", (sorted(alphabet), k, rems, counted and sorted(counted)), dfa,
                    alphabet, pred, L, want_complete=True,
                )
                if len(dfa.states) != k:
                    fail("count_mod(%d) has %d states" % (k, len(dfa.states)))
                if rems != rems_before or counted != counted_before:
                    fail("count_mod mutated an argument")
    for k in (0, -1, -7):
        expect_raises("count_mod", (k,), ValueError, lambda: DFA.count_mod({"a", "b"}, k))


def check_universal_and_empty():
    for alphabet in ALPHABETS + [frozenset("abcd")]:
        L = MAX_LEN.get(len(alphabet), 5)
        dfa = DFA.universal_language(set(alphabet))
        check_language("universal_language", (sorted(alphabet),), dfa, alphabet, lambda w: True, L,
                       want_complete=True, minimal=True)
        dfa = DFA.empty_language(set(alphabet))
        check_language("empty_language", (sorted(alphabet),), dfa, alphabet, lambda w: False, L,
                       want_complete=True, minimal=True)


def check_nth():
    for alphabet in ALPHABETS:
        L = MAX_LEN[len(alphabet)]
        for symbol in sorted(alphabet):
            for n in range(1, 6):
                dfa = DFA.nth_from_start(set(alphabet), symbol, n)
                check_language(
                    "nth_from_start", (sorted(alphabet), symbol, n), dfa, alphabet,
                    lambda w: len(w) >= n and w[n - 1] == symbol, max(L, n + 2) if len(alphabet) < 3 else L,
                    want_complete=True, minimal=True,
                )
                dfa = DFA.nth_from_end(set(alphabet), symbol, n)
                check_language(
                    "nth_from_end", (sorted(alphabet), symbol, n), dfa, alphabet,
                    lambda w: len(w) >= n and w[-n] == symbol, L,
                    want_complete=True, minimal=True,
                )
        for n in (0, -1, -5):
            expect_raises("nth_from_start", (n,), ValueError,
                          lambda: DFA.nth_from_start(set(alphabet), "a", n))
            expect_raises("nth_from_end", (n,), ValueError,
                          lambda: DFA.nth_from_end(set(alphabet), "a", n))
        expect_raises("nth_from_start", ("z",), exceptions.InvalidSymbolError,
                      lambda: DFA.nth_from_start(set(alphabet), "z", 2))
        expect_raises("nth_from_end", ("z",), exceptions.InvalidSymbolError,
                      lambda: DFA.nth_from_end(set(alphabet), "z", 2))


def check_finite_language():
    for alphabet in ALPHABETS:
        L = MAX_LEN[len(alphabet)]
        syms = sorted(alphabet)
        languages = [set(), {""}, {"a"}, {"", "a"}, {"a", "aa", "aaa"}, {"aa"}]
        if len(alphabet) >= 2:
            languages += [
                {"ab", "ba"}, {"aab", "bab", "ab"}, {"a", "b", "aa", "ab", "ba", "bb"},
                {"abab", "ab", ""}, {"aaa", "aab", "aba", "abb", "baa", "bab", "bba", "bbb"},
                {"ab", "abab", "ababab"}, {"b", "ab", "aab", "aaab"},
            ]
        for _ in range(150):
            k = RNG.randint(1, 8)
            languages.append(
                {"".join(RNG.choice(syms) for _ in range(RNG.randint(0, 5))) for _ in range(k)}
            )
        for lang in languages:
            for as_partial in (True, False):
                before = copy_of(lang)
                dfa = DFA.from_finite_language(set(alphabet), lang, as_partial)
                check_language(
                    "from_finite_language", (syms, sorted(lang), as_partial), dfa, alphabet,
                    lambda w: w in lang, max(L, 6) if len(alphabet) < 3 else L,
                    want_complete=not as_partial,
                    minimal=bool(lang) and lang != {""} and len(alphabet) >= 2,
                )
                if lang != before:
                    fail("from_finite_language mutated the language")


def main():
    check_universal_and_empty()
    check_prefix()
    check_suffix_and_substring()
    check_substrings()
    check_subsequence()
    check_of_length()
    check_count_mod()
    check_nth()
    check_finite_language()
    print("%d constructor calls checked" % CHECKS)
    print("property holds")


if __name__ == "__main__":
    main()
