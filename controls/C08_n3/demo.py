#!/usr/bin/env python3
"""
Property C08 -- NFA regular operations are total and compute the textbook
language operations.

For valid NFAs (with lambda transitions, empty / universal languages,
overlapping state names, missing transition rows, results of earlier
operations ...) the operations

    union, concatenate, kleene_star, option, reverse, intersection,
    shuffle_product, left_quotient, right_quotient   and   + | &

must never raise, must return a valid NFA, must not modify their operands, and
the language of the result must be exactly the corresponding operation applied
to the operand languages.

How it is checked
-----------------
* ``Ref`` is an independent simulator that reads only the public tables of an
  NFA (states / transitions / initial_state / final_states).
* For every single operation application ``R = op(X[, Y])`` the language of
  ``R`` (through ``Ref`` *and* through the library's ``accepts_input``) is
  compared, for every word up to a length bound over the joint alphabet (plus
  a few longer random words), with a brute-force definition of the operation
  evaluated on the languages of ``X`` and ``Y``  (all splits for concatenation
  and star, all 2^|w| interleavings for shuffle, ...).
* Results are put back into the pool of operands, so arbitrary finite
  compositions are covered step by step.
* The quotient references need a witness of unbounded length; they use an
  exhaustive search over pairs of operand states, and that search is itself
  validated against plain enumeration of all witnesses on small operands.

Run:  PYTHONPATH=<tree> /venv/bin/python demo.py [seed]
"""

import itertools
import random
import sys

import automata.base.config as global_config
from automata.fa.nfa import NFA

SEED = int(sys.argv[1]) if len(sys.argv) > 1 else 8
RNG = random.Random(SEED)

MAX_POOL_STATES = 30  # results bigger than this are checked but not re-used


# --------------------------------------------------------------------------- #
# Independent reference simulator
# --------------------------------------------------------------------------- #
class Ref:
    """Language of an NFA, computed from its public tables only."""

    def __init__(self, nfa):
        self.states = set(nfa.states)
        self.symbols = set(nfa.input_symbols)
        self.initial = nfa.initial_state
        self.finals = set(nfa.final_states)
        self.delta = {}
        for src, row in nfa.transitions.items():
            for sym, dsts in row.items():
                for dst in dsts:
                    self.delta.setdefault((src, sym), set()).add(dst)
        self._acc = {}

    def closure(self, states):
        seen = set(states)
        todo = list(states)
        while todo:
            q = todo.pop()
            for r in self.delta.get((q, ""), ()):
                if r not in seen:
                    seen.add(r)
                    todo.append(r)
        return seen

    def run(self, start_states, word):
        cur = self.closure(start_states)
        for ch in word:
            nxt = set()
            for q in cur:
                nxt |= self.delta.get((q, ch), set())
            cur = self.closure(nxt)
        return cur

    def accepts_from(self, start_states, word):
        return bool(self.run(start_states, word) & self.finals)

    def accepts(self, word):
        if word not in self._acc:
            self._acc[word] = self.accepts_from({self.initial}, word)
        return self._acc[word]


def snapshot(nfa):
    """A deep, order-insensitive copy of the public tables of an NFA."""
    return (
        frozenset(nfa.states),
        frozenset(nfa.input_symbols),
        frozenset(
            (src, sym, frozenset(dsts))
            for src, row in nfa.transitions.items()
            for sym, dsts in row.items()
        ),
        frozenset(nfa.transitions.keys()),
        nfa.initial_state,
        frozenset(nfa.final_states),
    )


# --------------------------------------------------------------------------- #
# Brute-force definitions of the language operations
# --------------------------------------------------------------------------- #
def ref_union(a, b, w):
    return a.accepts(w) or b.accepts(w)


def ref_intersection(a, b, w):
    return a.accepts(w) and b.accepts(w)


def ref_concat(a, b, w):
    return any(a.accepts(w[:i]) and b.accepts(w[i:]) for i in range(len(w) + 1))


def ref_star(a, w):
    # ok[i]  <=>  w[:i] in L*
    ok = [False] * (len(w) + 1)
    ok[0] = True
    for i in range(1, len(w) + 1):
        ok[i] = any(ok[j] and a.accepts(w[j:i]) for j in range(i))
    return ok[len(w)]


def ref_option(a, w):
    return w == "" or a.accepts(w)


def ref_reverse(a, w):
    return a.accepts(w[::-1])


def ref_shuffle(a, b, w):
    n = len(w)
    for mask in range(1 << n):
        u = "".join(w[i] for i in range(n) if mask >> i & 1)
        v = "".join(w[i] for i in range(n) if not mask >> i & 1)
        if a.accepts(u) and b.accepts(v):
            return True
    return False


def _pair_edges(a, b):
    """Edges of the synchronised product of a and b (lambda moves are free)."""
    symbols = a.symbols | b.symbols
    edges = {}
    for q in a.states:
        for p in b.states:
            out = set()
            for q2 in a.delta.get((q, ""), ()):
                out.add((q2, p))
            for p2 in b.delta.get((p, ""), ()):
                out.add((q, p2))
            for s in symbols:
                for q2 in a.delta.get((q, s), ()):
                    for p2 in b.delta.get((p, s), ()):
                        out.add((q2, p2))
            edges[(q, p)] = out
    return edges


class RightQuotientRef:
    """L(a) / L(b) = { w : exists x in L(b) with wx in L(a) }."""

    def __init__(self, a, b):
        self.a = a
        edges = _pair_edges(a, b)
        rev = {}
        for src, outs in edges.items():
            for dst in outs:
                rev.setdefault(dst, set()).add(src)
        good = {(q, p) for q in a.finals for p in b.finals}
        todo = list(good)
        while todo:
            node = todo.pop()
            for prev in rev.get(node, ()):
                if prev not in good:
                    good.add(prev)
                    todo.append(prev)
        # states of a from which some x in L(b) leads to a final state of a
        self.good_states = {q for q in a.states if (q, b.initial) in good}

    def accepts(self, w):
        return bool(self.a.run({self.a.initial}, w) & self.good_states)


class LeftQuotientRef:
    """L(b) \\ L(a) = { w : exists x in L(b) with xw in L(a) }."""

    def __init__(self, a, b):
        self.a = a
        edges = _pair_edges(a, b)
        seen = {(a.initial, b.initial)}
        todo = list(seen)
        while todo:
            node = todo.pop()
            for nxt in edges.get(node, ()):
                if nxt not in seen:
                    seen.add(nxt)
                    todo.append(nxt)
        # states of a that can be reached by reading some x in L(b)
        self.start_states = {q for (q, p) in seen if p in b.finals}

    def accepts(self, w):
        return self.a.accepts_from(self.start_states, w)


def all_words(symbols, max_len):
    symbols = sorted(symbols)
    for n in range(max_len + 1):
        for tup in itertools.product(symbols, repeat=n):
            yield "".join(tup)


def self_check_quotient_reference(rng, rounds=25):
    """Validate the two quotient references by enumerating every witness."""
    done = 0
    while done < rounds:
        x = random_nfa(rng, max_states=3, symbols=("a", "b"))
        y = random_nfa(rng, max_states=2, symbols=("a", "b"))
        a, b = Ref(x), Ref(y)
        bound = len(a.states) * len(b.states)  # a shortest witness is shorter
        witnesses = [v for v in all_words("ab", bound) if b.accepts(v)]
        rq, lq = RightQuotientRef(a, b), LeftQuotientRef(a, b)
        for w in all_words("ab", 3):
            brute_r = any(a.accepts(w + v) for v in witnesses)
            brute_l = any(a.accepts(v + w) for v in witnesses)
            assert rq.accepts(w) == brute_r, ("right-quotient reference", w)
            assert lq.accepts(w) == brute_l, ("left-quotient reference", w)
        done += 1


# --------------------------------------------------------------------------- #
# Input generation
# --------------------------------------------------------------------------- #
NAME_POOL = [0, 1, 2, 3, 4, "0", "1", "q0", "q1", (0, 1), (0, 0), ("q0", "q1", True)]


def random_nfa(rng, max_states=4, symbols=None):
    if symbols is None:
        symbols = rng.choice([("a",), ("a", "b"), ("a", "b"), ("b",), ("a", "b", "c")])
    n = rng.randint(1, max_states)
    states = rng.sample(NAME_POOL, n)
    initial = rng.choice(states)
    finals = {q for q in states if rng.random() < 0.4}
    density = rng.choice([0.15, 0.3, 0.5])
    transitions = {}
    for q in states:
        # Some states have no row at all (allowed, except for the initial state)
        if q != initial and rng.random() < 0.15:
            continue
        row = {}
        for sym in list(symbols) + [""]:
            if rng.random() < 0.6:
                dsts = {r for r in states if rng.random() < density}
                if dsts or rng.random() < 0.3:  # empty target sets are allowed too
                    row[sym] = dsts
        transitions[q] = row
    if rng.random() < 0.08:
        # A row keyed by a name that is not a state: accepted by the constructor
        ghost = rng.choice([n_ for n_ in NAME_POOL + [5, 6, "ghost"] if n_ not in states])
        transitions[ghost] = {rng.choice(symbols): {rng.choice(states)}, "": {initial}}
    return NFA(
        states=set(states),
        input_symbols=set(symbols),
        transitions=transitions,
        initial_state=initial,
        final_states=finals,
    )


def hand_picked():
    ab = {"a", "b"}
    return [
        # empty language: no final state
        NFA(states={0}, input_symbols=ab, transitions={0: {"a": {0}}},
            initial_state=0, final_states=set()),
        # empty language: final state unreachable, no row for it
        NFA(states={0, 1}, input_symbols=ab, transitions={0: {"a": {0}}},
            initial_state=0, final_states={1}),
        # universal language
        NFA(states={0}, input_symbols=ab, transitions={0: {"a": {0}, "b": {0}}},
            initial_state=0, final_states={0}),
        # only the empty word; no transition rows at all
        NFA(states={0}, input_symbols=ab, transitions={},
            initial_state=0, final_states={0}),
        # single state, nothing accepted, no rows
        NFA(states={"q0"}, input_symbols={"a"}, transitions={},
            initial_state="q0", final_states=set()),
        # lambda cycle, names 0,1,2 collide with names the operations invent
        NFA(states={0, 1, 2}, input_symbols=ab,
            transitions={0: {"": {1}}, 1: {"": {2}, "a": {1}}, 2: {"": {0}, "b": {2}}},
            initial_state=0, final_states={2}),
        # lambda self loop and empty target set
        NFA(states={1, 2}, input_symbols=ab,
            transitions={1: {"": {1}, "a": {2}, "b": set()}, 2: {"": set(), "b": {1}}},
            initial_state=1, final_states={1}),
        # final state reached only through lambda
        NFA(states={"0", "1", 0}, input_symbols={"a"},
            transitions={"0": {"a": {"1"}}, "1": {"": {0}}, 0: {}},
            initial_state="0", final_states={0}),
        # tuple state names like the ones products create
        NFA(states={(0, 0), (0, 1), (0, 0, True)}, input_symbols=ab,
            transitions={(0, 0): {"a": {(0, 1)}, "": {(0, 0, True)}},
                         (0, 1): {"b": {(0, 0)}},
                         (0, 0, True): {"b": {(0, 0, True)}}},
            initial_state=(0, 0), final_states={(0, 1), (0, 0, True)}),
        # a row keyed by something that is not a state (and that equals the
        # fresh name kleene_star / option / reverse would pick)
        NFA(states={1, 2}, input_symbols=ab,
            transitions={1: {"a": {2}}, 2: {"b": {1}}, 0: {"a": {1}}, 3: {"": {2}}},
            initial_state=1, final_states={2}),
        # different alphabet
        NFA(states={0, 1}, input_symbols={"c"}, transitions={0: {"c": {1}}, 1: {"": {0}}},
            initial_state=0, final_states={1}),
        NFA.from_regex("a(b|a)*b?"),
        NFA.from_regex("(ab)*|b", input_symbols=ab),
        NFA.from_regex("", input_symbols=ab),
    ]


# --------------------------------------------------------------------------- #
# The operations under test
# --------------------------------------------------------------------------- #
UNARY = {
    "kleene_star": (lambda x: x.kleene_star(), ref_star),
    "option": (lambda x: x.option(), ref_option),
    "reverse": (lambda x: x.reverse(), ref_reverse),
}
BINARY = {
    "union": (lambda x, y: x.union(y), ref_union),
    "|": (lambda x, y: x | y, ref_union),
    "concatenate": (lambda x, y: x.concatenate(y), ref_concat),
    "+": (lambda x, y: x + y, ref_concat),
    "intersection": (lambda x, y: x.intersection(y), ref_intersection),
    "&": (lambda x, y: x & y, ref_intersection),
    "shuffle_product": (lambda x, y: x.shuffle_product(y), ref_shuffle),
    "right_quotient": (lambda x, y: x.right_quotient(y), None),
    "left_quotient": (lambda x, y: x.left_quotient(y), None),
}

COUNTS = {}
REFS = {}


def ref_of(nfa):
    key = id(nfa)
    if key not in REFS:
        REFS[key] = (nfa, Ref(nfa))  # keep nfa alive so that id() stays unique
    return REFS[key][1]


def words_for(symbols, rng):
    symbols = sorted(symbols)
    max_len = {1: 6, 2: 4, 3: 3}.get(len(symbols), 2)
    words = list(all_words(symbols, max_len))
    for _ in range(4):
        n = rng.randint(max_len + 1, max_len + 3)
        words.append("".join(rng.choice(symbols) for _ in range(n)))
    return words


def check(op_name, operands, rng):
    """Apply one operation, verify everything the property states."""
    before = [snapshot(x) for x in operands]
    desc = (op_name, [x.input_parameters for x in operands])
    if op_name in UNARY:
        fn, ref_fn = UNARY[op_name]
    else:
        fn, ref_fn = BINARY[op_name]
    try:
        result = fn(*operands)
    except Exception as exc:  # the operations are total
        raise AssertionError(f"{op_name} raised {exc!r} on {desc}")
    assert isinstance(result, NFA), (type(result), desc)
    try:
        result.validate()
    except Exception as exc:
        raise AssertionError(f"{op_name} returned an invalid NFA ({exc!r}) on {desc}")
    for x, snap in zip(operands, before):
        assert snapshot(x) == snap, f"{op_name} modified an operand: {desc}"

    refs = [ref_of(x) for x in operands]
    symbols = set().union(*(x.input_symbols for x in operands))
    assert set(result.input_symbols) == symbols, (op_name, result.input_symbols, desc)

    if op_name == "right_quotient":
        oracle = RightQuotientRef(*refs).accepts
    elif op_name == "left_quotient":
        oracle = LeftQuotientRef(*refs).accepts
    else:
        oracle = lambda w: ref_fn(*refs, w)  # noqa: E731

    res_ref = ref_of(result)
    for w in words_for(symbols, rng):
        expected = oracle(w)
        got_tables = res_ref.accepts(w)
        got_lib = result.accepts_input(w)
        assert got_tables == expected and got_lib == expected, (
            f"{op_name}: word {w!r} expected {expected}, tables say {got_tables}, "
            f"accepts_input says {got_lib}; operands {desc}; "
            f"result {result.input_parameters}"
        )
    COUNTS[op_name] = COUNTS.get(op_name, 0) + 1
    return result


def check_eliminate_lambda(nfa, rng):
    """
    Extra, beyond C08 proper: both quotients are built on the lambda
    elimination, so also check it directly (language kept, no lambda left,
    operand untouched).
    """
    before = snapshot(nfa)
    result = nfa.eliminate_lambda()
    assert isinstance(result, NFA)
    result.validate()
    assert snapshot(nfa) == before, "eliminate_lambda modified its operand"
    assert all("" not in row for row in result.transitions.values())
    a, r = ref_of(nfa), Ref(result)
    for w in words_for(nfa.input_symbols, rng):
        assert a.accepts(w) == r.accepts(w) == result.accepts_input(w), (
            "eliminate_lambda", w, nfa.input_parameters)
    COUNTS["(eliminate_lambda)"] = COUNTS.get("(eliminate_lambda)", 0) + 1


def pick(pool, rng, limit):
    small = [x for x in pool if len(x.states) <= limit]
    return rng.choice(small)


def random_compositions(rng, rounds, steps):
    """Random chains: results are fed into further operations."""
    op_names = list(UNARY) + list(BINARY)
    for _ in range(rounds):
        pool = [random_nfa(rng) for _ in range(3)]
        if rng.random() < 0.3:
            pool.append(rng.choice(HAND))
        for _ in range(steps):
            op_name = rng.choice(op_names)
            if op_name in UNARY:
                operands = [pick(pool, rng, MAX_POOL_STATES)]
            else:
                # products multiply the sizes; keep the operands moderate
                limit = 8 if op_name in ("shuffle_product", "right_quotient",
                                         "left_quotient") else 14
                operands = [pick(pool, rng, limit), pick(pool, rng, limit)]
                if rng.random() < 0.1:
                    operands[1] = operands[0]  # the very same object twice
            result = check(op_name, operands, rng)
            if len(result.states) <= MAX_POOL_STATES:
                pool.append(result)
        REFS.clear()


def main():
    global HAND
    self_check_quotient_reference(random.Random(SEED + 1))

    # 1. hand-picked operands: every unary op on each, every binary op on all pairs
    HAND = hand_picked()
    for x in HAND:
        check_eliminate_lambda(x, RNG)
        for op_name in UNARY:
            check(op_name, [x], RNG)
    for x in HAND:
        for y in HAND:
            for op_name in BINARY:
                check(op_name, [x, y], RNG)
    REFS.clear()

    # 2. random operands, single operations
    for _ in range(250):
        x, y = random_nfa(RNG), random_nfa(RNG)
        check_eliminate_lambda(x, RNG)
        check_eliminate_lambda(y, RNG)
        for op_name in UNARY:
            check(op_name, [x], RNG)
        for op_name in BINARY:
            check(op_name, [x, y], RNG)
        REFS.clear()

    # 3. random finite compositions
    random_compositions(RNG, rounds=120, steps=8)

    # 4. the same with mutable automata (operands are plain dicts / sets then,
    #    so an operation that wrote into its operand would be caught)
    global_config.allow_mutable_automata = True
    try:
        HAND = hand_picked()
        for _ in range(60):
            x, y = random_nfa(RNG), random_nfa(RNG)
            for op_name in UNARY:
                check(op_name, [x], RNG)
            for op_name in BINARY:
                check(op_name, [x, y], RNG)
            REFS.clear()
        random_compositions(RNG, rounds=30, steps=6)
    finally:
        global_config.allow_mutable_automata = False

    total = sum(COUNTS.values())
    print(f"checked {total} operation applications (seed {SEED}):")
    print("  " + ", ".join(f"{k}={v}" for k, v in sorted(COUNTS.items())))
    print("property holds")


if __name__ == "__main__":
    try:
        main()
    except AssertionError as exc:
        print("PROPERTY VIOLATED:", exc)
        sys.exit(1)
