"""
Demo for property C16: NFA.edit_distance accepts exactly the strings that can be
obtained from the reference string by at most k edits of the enabled kinds
(insertion / deletion / substitution); a negative bound or no enabled edit kind
is refused with ValueError.

Run as:  PYTHONPATH=<tree> /venv/bin/python demo.py

Two independent references are written here (nothing of the library is used to
compute the expected answer):
  * neighbourhood(): the literal definition - breadth-first closure of the
    reference string under single edits, k rounds;
  * restricted_distance(): a dynamic programme over alignments, used for the
    larger random cases (and cross-checked against neighbourhood()).
"""

import itertools
import random
import sys

from automata.fa.nfa import NFA

KINDS = [
    dict(insertion=i, deletion=d, substitution=s)
    for i, d, s in itertools.product([True, False], repeat=3)
    if i or d or s
]
assert len(KINDS) == 7

checks = 0
failures = []


def fail(msg):
    failures.append(msg)
    if len(failures) > 20:
        report()


def report():
    if failures:
        print("PROPERTY VIOLATED (%d failures, %d checks)" % (len(failures), checks))
        for f in failures[:20]:
            print("  ", f)
        sys.exit(1)
    print("property holds (%d checks)" % checks)
    sys.exit(0)


# --------------------------------------------------------------------------
# reference 1: literal definition
# --------------------------------------------------------------------------
def one_edit(word, alphabet, insertion, deletion, substitution):
    out = set()
    n = len(word)
    if insertion:
        for p in range(n + 1):
            for c in alphabet:
                out.add(word[:p] + c + word[p:])
    if deletion:
        for p in range(n):
            out.add(word[:p] + word[p + 1 :])
    if substitution:
        for p in range(n):
            for c in alphabet:
                out.add(word[:p] + c + word[p + 1 :])
    return out


def neighbourhood(ref, alphabet, k, insertion, deletion, substitution):
    seen = {ref}
    frontier = {ref}
    for _ in range(k):
        nxt = set()
        for w in frontier:
            nxt |= one_edit(w, alphabet, insertion, deletion, substitution)
        frontier = nxt - seen
        seen |= nxt
        if not frontier:
            break
    return seen


# --------------------------------------------------------------------------
# reference 2: alignment DP with only the enabled operations
# --------------------------------------------------------------------------
INF = float("inf")


def restricted_distance(ref, word, insertion, deletion, substitution):
    n, m = len(ref), len(word)
    d = [[INF] * (m + 1) for _ in range(n + 1)]
    d[0][0] = 0
    for i in range(n + 1):
        for j in range(m + 1):
            if i == 0 and j == 0:
                continue
            best = INF
            if i > 0 and j > 0:
                if ref[i - 1] == word[j - 1]:
                    best = min(best, d[i - 1][j - 1])
                if substitution:
                    best = min(best, d[i - 1][j - 1] + 1)
            if deletion and i > 0:
                best = min(best, d[i - 1][j] + 1)
            if insertion and j > 0:
                best = min(best, d[i][j - 1] + 1)
            d[i][j] = best
    return d[n][m]


def all_words(alphabet, max_len):
    letters = sorted(alphabet)
    for length in range(max_len + 1):
        for tup in itertools.product(letters, repeat=length):
            yield "".join(tup)


def accepts(nfa, word):
    a = nfa.accepts_input(word)
    # `in` is documented as the same question
    b = word in nfa
    if a != b:
        fail("accepts_input and `in` disagree on %r" % (word,))
    return a


# --------------------------------------------------------------------------
# part 1: exhaustive, literal definition
# --------------------------------------------------------------------------
def exhaustive():
    global checks
    cases = []
    cases.append((frozenset(), [""]))
    cases.append(({"a"}, ["", "a", "aa", "aaa", "aaaa"]))
    cases.append(({"a", "b"}, list(all_words("ab", 3)) + ["abab", "aabb", "bbbb"]))
    cases.append(
        (
            {"a", "b", "c"},
            ["", "a", "ab", "aa", "abc", "aab", "aba", "cba", "ccc", "abca"],
        )
    )
    for alphabet, refs in cases:
        for ref in refs:
            for k in range(0, 3):
                for kinds in KINDS:
                    before = set(alphabet)
                    nfa = NFA.edit_distance(alphabet, ref, k, **kinds)
                    if set(alphabet) != before:
                        fail("alphabet operand was mutated")
                    expected = neighbourhood(ref, sorted(alphabet), k, **kinds)
                    max_len = len(ref) + k + 1
                    if len(alphabet) == 3:
                        max_len = min(max_len, 5)
                    for w in all_words(alphabet, max_len):
                        checks += 1
                        got = accepts(nfa, w)
                        want = w in expected
                        # the DP must agree with the literal definition too
                        dp = restricted_distance(ref, w, **kinds) <= k
                        if dp != want:
                            fail("references disagree: %r %r %r %r" % (ref, w, k, kinds))
                        if got != want:
                            fail(
                                "alphabet=%r ref=%r k=%d %r word=%r: NFA says %r, "
                                "definition says %r"
                                % (sorted(alphabet), ref, k, kinds, w, got, want)
                            )
                    # a string with a symbol outside the alphabet is never obtainable
                    for w in ("z", ref + "z", "z" + ref, ref[:1] + "z" + ref[1:]):
                        checks += 1
                        if accepts(nfa, w):
                            fail("accepted %r with foreign symbol (ref=%r)" % (w, ref))


# --------------------------------------------------------------------------
# part 2: random larger cases, DP reference
# --------------------------------------------------------------------------
def random_cases(rng, rounds):
    global checks
    pool = "abcde"
    for _ in range(rounds):
        alphabet = set(rng.sample(pool, rng.randint(1, 4)))
        letters = sorted(alphabet)
        ref = "".join(rng.choice(letters) for _ in range(rng.randint(0, 7)))
        if rng.random() < 0.2 and ref:
            # stress repeated letters
            ref = ref[0] * len(ref)
        k = rng.randint(0, 4)
        kinds = rng.choice(KINDS)
        nfa = NFA.edit_distance(alphabet, ref, k, **kinds)
        words = set()
        # random words
        for _ in range(12):
            words.add(
                "".join(rng.choice(letters) for _ in range(rng.randint(0, len(ref) + k + 2)))
            )
        # words made by applying up to k+1 random edits of ANY kind to ref
        for _ in range(20):
            w = ref
            for _ in range(rng.randint(0, k + 1)):
                op = rng.choice("ids")
                if op == "i":
                    p = rng.randint(0, len(w))
                    w = w[:p] + rng.choice(letters) + w[p:]
                elif op == "d" and w:
                    p = rng.randrange(len(w))
                    w = w[:p] + w[p + 1 :]
                elif op == "s" and w:
                    p = rng.randrange(len(w))
                    w = w[:p] + rng.choice(letters) + w[p + 1 :]
            words.add(w)
        words.add(ref)
        words.add("")
        for w in words:
            checks += 1
            got = accepts(nfa, w)
            want = restricted_distance(ref, w, **kinds) <= k
            if got != want:
                fail(
                    "alphabet=%r ref=%r k=%d %r word=%r: NFA says %r, reference says %r"
                    % (letters, ref, k, kinds, w, got, want)
                )


# --------------------------------------------------------------------------
# part 3: refusals
# --------------------------------------------------------------------------
def refusals():
    global checks
    none = dict(insertion=False, deletion=False, substitution=False)
    attempts = []
    for ref in ("", "a", "abba"):
        for k in (-1, -2, -100):
            for kinds in KINDS:
                attempts.append(({"a", "b"}, ref, k, kinds))
            attempts.append(({"a", "b"}, ref, k, {}))
            attempts.append(({"a", "b"}, ref, k, none))
        for k in (0, 1, 2, 5):
            attempts.append(({"a", "b"}, ref, k, none))
            attempts.append((set(), "", k, none))
    for alphabet, ref, k, kinds in attempts:
        checks += 1
        try:
            NFA.edit_distance(alphabet, ref, k, **kinds)
        except ValueError:
            pass
        except Exception as exc:  # wrong class
            fail("k=%r %r refused with %s, not ValueError" % (k, kinds, type(exc).__name__))
        else:
            fail("k=%r %r was not refused" % (k, kinds))
    # k == 0 with at least one kind is NOT refused: accepts exactly the reference
    for kinds in KINDS:
        checks += 1
        nfa = NFA.edit_distance({"a", "b"}, "ab", 0, **kinds)
        got = {w for w in all_words("ab", 3) if accepts(nfa, w)}
        if got != {"ab"}:
            fail("k=0 %r accepts %r" % (kinds, sorted(got)))


def hand_picked():
    """The examples the library's own documentation/tests use."""
    global checks
    import string

    alphabet = set(string.ascii_lowercase)
    nice = NFA.edit_distance(alphabet, "nice", 1)
    for w in ["anice", "bice", "ice", "nice", "niche", "nick", "niece", "unice"]:
        checks += 1
        if not accepts(nice, w):
            fail("nice/1 rejects %r" % w)
    for w in ["food", "nic", "ni", "niches", "ncie", ""]:
        checks += 1
        want = restricted_distance("nice", w, True, True, True) <= 1
        if accepts(nice, w) != want:
            fail("nice/1 wrong on %r" % w)
    ham = NFA.edit_distance(alphabet, "nice", 1, insertion=False, deletion=False)
    lcs = NFA.edit_distance(alphabet, "nice", 2, substitution=False)
    for w in ["nice", "mice", "ice", "niece", "nyce", "mace", "nic", "mic", "ncie", "nieces"]:
        checks += 2
        if accepts(ham, w) != (restricted_distance("nice", w, False, False, True) <= 1):
            fail("hamming nice/1 wrong on %r" % w)
        if accepts(lcs, w) != (restricted_distance("nice", w, True, True, False) <= 2):
            fail("lcs nice/2 wrong on %r" % w)


if __name__ == "__main__":
    rng = random.Random(160016)
    refusals()
    hand_picked()
    exhaustive()
    random_cases(rng, 400)
    report()
