"""
C20 demo: query answers of a DFA / NFA do not depend on what was asked before.

For a few thousand random and hand-picked automata we
  * compute every answer with a brute-force reference that only looks at the
    raw transition table (written in this file, no library code),
  * run a random interleaving of public queries (repeated queries, shorter
    after longer lengths and vice versa, partially consumed / abandoned /
    later resumed generators, clear_cache) on ONE instance,
  * compare every single answer (value or exception class) with the reference
    and with the answer of a freshly built instance.

Run:  PYTHONPATH=<tree> /venv/bin/python demo.py
Prints "property holds" and exits 0 when no discrepancy is found.
"""
import itertools
import random
import sys

import automata.base.exceptions as ex
from automata.fa.dfa import DFA
from automata.fa.nfa import NFA

SEED = 20
N_RANDOM_DFAS = 1500
N_RANDOM_NFAS = 700
OPS_PER_HISTORY = 14

failures = []
checks = 0


def outcome(thunk):
    """('ok', value) or ('exc', exception class name)"""
    try:
        return ("ok", thunk())
    except Exception as e:  # noqa: BLE001 - the class is what we compare
        return ("exc", type(e).__name__)


def check(label, got, want, ctx):
    global checks
    checks += 1
    if got != want:
        failures.append((label, got, want, ctx))
        if len(failures) > 10:
            report()


def report():
    for label, got, want, ctx in failures[:10]:
        print("MISMATCH", label, "\n   got :", got, "\n   want:", want, "\n   ctx :", ctx)
    print("property VIOLATED (%d mismatches, %d checks)" % (len(failures), checks))
    sys.exit(1)


# --------------------------------------------------------------------------
# brute-force reference for DFAs
# --------------------------------------------------------------------------
class RefDFA:
    def __init__(self, states, symbols, transitions, initial, finals):
        self.states = set(states)
        self.symbols = sorted(symbols)
        self.tr = transitions
        self.initial = initial
        self.finals = set(finals)
        # pumping bound: a trap state may be implicit in a partial DFA
        self.n = len(self.states) + 1
        self.lmax = 2 * self.n - 1
        self.by_len = []
        frontier = [("", initial)]
        for _ in range(self.lmax + 1):
            self.by_len.append([w for w, s in frontier if s in self.finals])
            frontier = [
                (w + c, self.tr[s][c])
                for w, s in frontier
                for c in self.symbols
                if c in self.tr[s]
            ]
        self.empty = all(not ws for ws in self.by_len[: self.n])
        self.finite = all(not ws for ws in self.by_len[self.n: 2 * self.n])
        self.known = [w for ws in self.by_len for w in ws]  # (length, lex) order
        nonempty = [k for k, ws in enumerate(self.by_len) if ws]
        self.minlen = nonempty[0] if nonempty else None
        self.maxlen = nonempty[-1] if (nonempty and self.finite) else None

    def accepts(self, w):
        s = self.initial
        for c in w:
            if c not in self.tr[s]:
                return False
            s = self.tr[s][c]
        return s in self.finals

    # expected outcomes -----------------------------------------------------
    def o_cardinality(self):
        if not self.finite:
            return ("exc", "InfiniteLanguageException")
        return ("ok", len(self.known))

    def o_minlen(self):
        if self.empty:
            return ("exc", "EmptyLanguageException")
        return ("ok", self.minlen)

    def o_maxlen(self):
        if self.empty:
            return ("exc", "EmptyLanguageException")
        return ("ok", self.maxlen)

    def neighbours(self, w, strict, minl, maxl, reverse):
        """accepted words after (before) w in plain string order, bounded"""
        hi = self.lmax if maxl is None else min(maxl, self.lmax)
        cands = [x for k in range(minl, hi + 1) for x in self.by_len[k]]
        if w is None:
            res = cands
        elif reverse:
            res = [x for x in cands if x < w or (not strict and x == w)]
        else:
            res = [x for x in cands if x > w or (not strict and x == w)]
        return sorted(res, reverse=reverse)


def ref_pair_search(a, b, bad):
    """Is a pair (p, q) with bad(p_final, q_final) reachable in the product?
    None plays the role of the implicit trap state."""
    start = (a.initial, b.initial)
    seen = {start}
    todo = [start]
    while todo:
        p, q = todo.pop()
        if bad(p in a.finals, q in b.finals):
            return True
        for c in a.symbols:
            p2 = a.tr[p].get(c) if p is not None else None
            q2 = b.tr[q].get(c) if q is not None else None
            if (p2, q2) not in seen:
                seen.add((p2, q2))
                todo.append((p2, q2))
    return False


# --------------------------------------------------------------------------
# random DFAs
# --------------------------------------------------------------------------
def random_dfa_spec(rng, symbols=None, max_states=4):
    if symbols is None:
        symbols = rng.choice(["a", "ab", "ab", "ab", "abc"])
    if len(symbols) == 3:
        max_states = min(max_states, 2)
    n = rng.randint(1, max_states)
    kind = rng.choice(["int", "str", "tuple"])
    names = {
        "int": list(range(n)),
        "str": ["q%d" % i for i in range(n)],
        "tuple": [(i, "x") for i in range(n)],
    }[kind]
    partial = rng.random() < 0.5
    density = rng.choice([0.3, 0.6, 0.9])
    tr = {}
    for s in names:
        row = {}
        for c in symbols:
            if not partial or rng.random() < density:
                row[c] = rng.choice(names)
        tr[s] = row
    finals = {s for s in names if rng.random() < rng.choice([0.0, 0.3, 0.6])}
    return dict(
        states=set(names),
        input_symbols=set(symbols),
        transitions=tr,
        initial_state=names[0],
        final_states=finals,
        allow_partial=partial,
    )


def build_dfa(spec):
    return DFA(
        states=set(spec["states"]),
        input_symbols=set(spec["input_symbols"]),
        transitions={s: dict(r) for s, r in spec["transitions"].items()},
        initial_state=spec["initial_state"],
        final_states=set(spec["final_states"]),
        allow_partial=spec["allow_partial"],
    )


def spec_of(dfa):
    return dict(
        states=set(dfa.states),
        input_symbols=set(dfa.input_symbols),
        transitions={s: dict(r) for s, r in dfa.transitions.items()},
        initial_state=dfa.initial_state,
        final_states=set(dfa.final_states),
        allow_partial=dfa.allow_partial,
    )


def ref_of(spec):
    return RefDFA(
        spec["states"],
        spec["input_symbols"],
        spec["transitions"],
        spec["initial_state"],
        spec["final_states"],
    )


def rand_word(rng, symbols, maxlen):
    return "".join(rng.choice(symbols) for _ in range(rng.randint(0, maxlen)))


# --------------------------------------------------------------------------
# one random history on one DFA instance
# --------------------------------------------------------------------------
def dfa_history(rng, spec, other_spec, n_ops, ctx, script=None):
    ref = ref_of(spec)
    oref = ref_of(other_spec)
    used = build_dfa(spec)
    other = build_dfa(other_spec)
    syms = ref.symbols
    pending = []  # (generator, expected remaining items, label)
    log = []

    def both(label, fn, want=None):
        """fn(dfa) evaluated on the used and on a fresh instance"""
        log.append(label)
        got_used = outcome(lambda: fn(used))
        got_fresh = outcome(lambda: fn(build_dfa(spec)))
        check(label + " used==fresh", got_used, got_fresh, (ctx, list(log)))
        if want is not None:
            check(label + " used==ref", got_used, want, (ctx, list(log)))
        return got_used

    def op_accepts():
        w = rand_word(rng, syms, ref.lmax + 2)
        both("accepts(%r)" % w, lambda d: d.accepts_input(w), ("ok", ref.accepts(w)))
        both("contains(%r)" % w, lambda d: w in d, ("ok", ref.accepts(w)))

    def op_count(k=None):
        k = rng.randint(0, ref.lmax) if k is None else k
        both(
            "count(%d)" % k,
            lambda d: d.count_words_of_length(k),
            ("ok", len(ref.by_len[k])),
        )

    def op_words(k=None):
        k = rng.randint(0, ref.lmax) if k is None else k
        got = both("words(%d)" % k, lambda d: list(d.words_of_length(k)))
        if got[0] == "ok":
            check("words(%d) as sorted list" % k, sorted(got[1]), ref.by_len[k], ctx)
        else:
            check("words(%d) raised" % k, got, "no exception", ctx)

    def op_words_partial(k=None):
        k = rng.randint(0, ref.lmax) if k is None else k
        g = used.words_of_length(k)
        log.append("gen words(%d)" % k)
        take = rng.randint(0, 3)
        got = list(itertools.islice(g, take))
        fresh = list(build_dfa(spec).words_of_length(k))
        check("partial words(%d)" % k, got, fresh[:take], (ctx, list(log)))
        if len(got) == take and rng.random() < 0.7:
            pending.append((g, fresh[take:], "resume words(%d)" % k, None))
        elif rng.random() < 0.5:
            g.close()

    def op_iter_partial():
        g = iter(used)
        log.append("gen iter")
        take = rng.randint(0, 4)
        got = list(itertools.islice(g, take))
        fresh = list(itertools.islice(iter(build_dfa(spec)), len(ref.known)))
        check("iter known prefix (per length, sorted)",
              [sorted(x for x in fresh if len(x) == k) for k in range(ref.lmax + 1)],
              ref.by_len, ctx)
        check("partial iter", got, fresh[:take], (ctx, list(log)))
        if len(got) == take and rng.random() < 0.7:
            pending.append((g, fresh[take:], "resume iter", len(fresh) - take))

    def op_resume():
        if not pending:
            return
        g, rest, label, cap = pending.pop(rng.randrange(len(pending)))
        log.append(label)
        if cap is None:
            got = outcome(lambda: list(g))
        else:
            got = outcome(lambda: list(itertools.islice(g, cap)))
        check(label, got, ("ok", rest), (ctx, list(log)))

    def op_cardinality():
        both("cardinality", lambda d: d.cardinality(), ref.o_cardinality())
        both("len", lambda d: len(d), ref.o_cardinality())

    def op_lengths():
        both("minlen", lambda d: d.minimum_word_length(), ref.o_minlen())
        both("maxlen", lambda d: d.maximum_word_length(), ref.o_maxlen())

    def op_empty_finite():
        both("isempty", lambda d: d.isempty(), ("ok", ref.empty))
        both("isfinite", lambda d: d.isfinite(), ("ok", ref.finite))

    def op_iter_all():
        if ref.finite:
            both("list(iter)", lambda d: list(d), ("ok", ref.known))
        else:
            m = rng.randint(0, len(ref.known))
            both(
                "iter[:%d]" % m,
                lambda d: list(itertools.islice(iter(d), m)),
                ("ok", ref.known[:m]),
            )

    def op_successor():
        w = rng.choice([None, rand_word(rng, syms, ref.lmax)])
        strict = rng.random() < 0.6
        minl = rng.choice([0, 0, 1, 2])
        maxl = rng.randint(0, ref.lmax)
        want = ref.neighbours(w, strict, minl, maxl, False)
        both(
            "successor(%r,%s,%d,%d)" % (w, strict, minl, maxl),
            lambda d: d.successor(w, strict=strict, min_length=minl, max_length=maxl),
            ("ok", want[0] if want else None),
        )
        if rng.random() < 0.5:
            both(
                "successors(%r,%s,%d,%d)" % (w, strict, minl, maxl),
                lambda d: list(
                    d.successors(w, strict=strict, min_length=minl, max_length=maxl)
                ),
                ("ok", want),
            )
        else:
            g = used.successors(w, strict=strict, min_length=minl, max_length=maxl)
            take = rng.randint(0, 2)
            got = list(itertools.islice(g, take))
            check("partial successors", got, want[:take], (ctx, list(log)))
            if len(got) == take and rng.random() < 0.6:
                pending.append((g, want[take:], "resume successors", None))

    def op_predecessor():
        w = rand_word(rng, syms, ref.lmax)
        strict = rng.random() < 0.6
        minl = rng.choice([0, 0, 1])
        maxl = rng.choice([None, rng.randint(0, ref.lmax)])
        if not ref.finite:
            want1 = wantn = ("exc", "InfiniteLanguageException")
        else:
            lst = ref.neighbours(w, strict, minl, maxl, True)
            want1 = ("ok", lst[0] if lst else None)
            wantn = ("ok", lst)
        both(
            "predecessor(%r,%s,%d,%s)" % (w, strict, minl, maxl),
            lambda d: d.predecessor(w, strict=strict, min_length=minl, max_length=maxl),
            want1,
        )
        both(
            "predecessors(%r,%s,%d,%s)" % (w, strict, minl, maxl),
            lambda d: list(
                d.predecessors(w, strict=strict, min_length=minl, max_length=maxl)
            ),
            wantn,
        )

    def op_random_word():
        k = rng.randint(0, ref.lmax)
        seed = rng.randint(0, 5)
        got = both("random_word(%d,seed=%d)" % (k, seed),
                   lambda d: d.random_word(k, seed=seed))
        if ref.by_len[k]:
            check("random_word member", got[0] == "ok" and got[1] in ref.by_len[k],
                  True, (ctx, got))
        else:
            check("random_word none", got, ("exc", "ValueError"), ctx)

    def op_compare():
        want_sub = not ref_pair_search(ref, oref, lambda f, g: f and not g)
        want_sup = not ref_pair_search(ref, oref, lambda f, g: g and not f)
        want_dis = not ref_pair_search(ref, oref, lambda f, g: f and g)
        both("==", lambda d: d == other, ("ok", want_sub and want_sup))
        both("!=", lambda d: d != other, ("ok", not (want_sub and want_sup)))
        both("<=", lambda d: d <= other, ("ok", want_sub))
        both(">=", lambda d: d >= other, ("ok", want_sup))
        both("<", lambda d: d < other, ("ok", want_sub and not want_sup))
        both(">", lambda d: d > other, ("ok", want_sup and not want_sub))
        both("isdisjoint", lambda d: d.isdisjoint(other), ("ok", want_dis))
        both("other==", lambda d: other == d, ("ok", want_sub and want_sup))

    def op_derived():
        # derived automata built after queries accept the same language
        which = rng.choice(["minify", "to_partial", "to_complete", "complement", "copy"])
        res = getattr(used, which)()
        log.append(which)
        for _ in range(6):
            w = rand_word(rng, syms, ref.lmax)
            want = ref.accepts(w) != (which == "complement")
            check(which + " accepts", res.accepts_input(w), want, (ctx, w))
        fresh_res = getattr(build_dfa(spec), which)()
        check(which + " #states", len(res.states), len(fresh_res.states), ctx)

    def op_clear():
        log.append("clear_cache")
        check("clear_cache()", used.clear_cache(), None, ctx)

    ops = [
        op_accepts, op_count, op_count, op_words, op_words, op_words_partial,
        op_iter_partial, op_resume, op_resume, op_cardinality, op_lengths,
        op_empty_finite, op_iter_all, op_successor, op_predecessor,
        op_random_word, op_compare, op_derived, op_clear,
    ]
    table = {f.__name__[3:]: f for f in ops}
    if script is not None:
        for step in script:
            if isinstance(step, tuple):
                table[step[0]](*step[1:])
            else:
                table[step]()
    for _ in range(n_ops):
        rng.choice(ops)()
    while pending:
        if rng.random() < 0.3:
            pending.pop()  # abandoned for good
        else:
            op_resume()
    # the operands were not modified by all this
    check("operand unchanged", spec_of(used), spec_of(build_dfa(spec)), ctx)
    check("other unchanged", spec_of(other), spec_of(build_dfa(other_spec)), ctx)


# --------------------------------------------------------------------------
# NFAs
# --------------------------------------------------------------------------
class RefNFA:
    def __init__(self, states, symbols, transitions, initial, finals):
        self.states = set(states)
        self.symbols = sorted(symbols)
        self.tr = transitions
        self.initial = initial
        self.finals = set(finals)

    def closure(self, sts):
        seen = set(sts)
        todo = list(sts)
        while todo:
            s = todo.pop()
            for t in self.tr.get(s, {}).get("", ()):
                if t not in seen:
                    seen.add(t)
                    todo.append(t)
        return frozenset(seen)

    def step(self, sts, c):
        return self.closure({t for s in sts for t in self.tr.get(s, {}).get(c, ())})

    def run(self, w):
        cur = self.closure({self.initial})
        for c in w:
            cur = self.step(cur, c)
        return cur

    def accepts(self, w):
        return bool(self.run(w) & self.finals)


def ref_nfa_equal(a, b):
    start = (a.closure({a.initial}), b.closure({b.initial}))
    seen = {start}
    todo = [start]
    while todo:
        p, q = todo.pop()
        if bool(p & a.finals) != bool(q & b.finals):
            return False
        for c in a.symbols:
            nxt = (a.step(p, c), b.step(q, c))
            if nxt not in seen:
                seen.add(nxt)
                todo.append(nxt)
    return True


def random_nfa_spec(rng, symbols=None):
    if symbols is None:
        symbols = rng.choice(["a", "ab", "ab"])
    n = rng.randint(1, 4)
    names = list(range(n)) if rng.random() < 0.5 else ["s%d" % i for i in range(n)]
    tr = {}
    for s in names:
        if s != names[0] and rng.random() < 0.15:
            continue  # a non-initial state without a row is allowed for NFAs
        row = {}
        for c in list(symbols) + [""]:
            p = 0.25 if c == "" else 0.6
            if rng.random() < p:
                row[c] = {t for t in names if rng.random() < 0.45}
        tr[s] = row
    finals = {s for s in names if rng.random() < 0.4}
    return dict(
        states=set(names),
        input_symbols=set(symbols),
        transitions=tr,
        initial_state=names[0],
        final_states=finals,
    )


def build_nfa(spec):
    return NFA(
        states=set(spec["states"]),
        input_symbols=set(spec["input_symbols"]),
        transitions={
            s: {c: set(t) for c, t in r.items()} for s, r in spec["transitions"].items()
        },
        initial_state=spec["initial_state"],
        final_states=set(spec["final_states"]),
    )


def nfa_spec_of(n):
    return (
        set(n.states),
        set(n.input_symbols),
        {s: {c: set(t) for c, t in r.items()} for s, r in n.transitions.items()},
        n.initial_state,
        set(n.final_states),
    )


def nfa_history(rng, spec, other_spec, n_ops, ctx):
    ref = RefNFA(**{k2: spec[k1] for k1, k2 in NFA_KEYS})
    oref = RefNFA(**{k2: other_spec[k1] for k1, k2 in NFA_KEYS})
    used = build_nfa(spec)
    other = build_nfa(other_spec)
    syms = ref.symbols
    log = []
    pending = []

    def both(label, fn, want=None):
        log.append(label)
        got_used = outcome(lambda: fn(used))
        got_fresh = outcome(lambda: fn(build_nfa(spec)))
        check("nfa " + label + " used==fresh", got_used, got_fresh, (ctx, list(log)))
        if want is not None:
            check("nfa " + label + " used==ref", got_used, want, (ctx, list(log)))
        return got_used

    def op_accepts():
        w = rand_word(rng, syms, 6)
        both("accepts(%r)" % w, lambda d: d.accepts_input(w), ("ok", ref.accepts(w)))
        both("contains(%r)" % w, lambda d: w in d, ("ok", ref.accepts(w)))

    def op_read():
        w = rand_word(rng, syms, 6)
        want = ("ok", ref.run(w)) if ref.accepts(w) else ("exc", "RejectionException")
        both("read_input(%r)" % w, lambda d: frozenset(d.read_input(w)), want)

    def op_stepwise_partial():
        w = rand_word(rng, syms, 6)
        g = used.read_input_stepwise(w)
        take = rng.randint(0, len(w))
        got = [frozenset(x) for x in itertools.islice(g, take)]
        want = [ref.run(w[:i]) for i in range(take)]
        check("nfa partial stepwise", got, want, (ctx, w))
        if rng.random() < 0.5:
            pending.append((g, w, take))

    def op_resume():
        if not pending:
            return
        g, w, take = pending.pop(rng.randrange(len(pending)))
        got = outcome(lambda: [frozenset(x) for x in g])
        if ref.accepts(w):
            want = ("ok", [ref.run(w[:i]) for i in range(take, len(w) + 1)])
        else:
            want = ("exc", "RejectionException")
        check("nfa resume stepwise", got, want, (ctx, w, take))

    def op_equal():
        want = ref_nfa_equal(ref, oref)
        both("==", lambda d: d == other, ("ok", want))
        both("!=", lambda d: d != other, ("ok", not want))
        both("other==", lambda d: other == d, ("ok", want))
        both("self==", lambda d: d == build_nfa(spec), ("ok", True))

    def op_determinise():
        rn = rng.random() < 0.5
        mn = rng.random() < 0.5
        d_used = DFA.from_nfa(used, retain_names=rn, minify=mn)
        d_fresh = DFA.from_nfa(build_nfa(spec), retain_names=rn, minify=mn)
        log.append("from_nfa")
        check("from_nfa #states", len(d_used.states), len(d_fresh.states), ctx)
        check("from_nfa equal", d_used == d_fresh, True, ctx)
        for w in all_words(syms, 4):
            check("from_nfa accepts", d_used.accepts_input(w), ref.accepts(w), (ctx, w))
        # and queries on the determinised automaton agree with brute force
        k = rng.randint(0, 4)
        want = [w for w in all_words(syms, k) if len(w) == k and ref.accepts(w)]
        hi = rng.randint(0, 5)
        check("from_nfa count hi", d_used.count_words_of_length(hi),
              sum(1 for w in all_words(syms, hi) if len(w) == hi and ref.accepts(w)),
              ctx)
        check("from_nfa words", sorted(d_used.words_of_length(k)), want, ctx)
        check("from_nfa count", d_used.count_words_of_length(k), len(want), ctx)

    def op_eliminate_lambda():
        res = used.eliminate_lambda()
        log.append("eliminate_lambda")
        for _ in range(8):
            w = rand_word(rng, syms, 6)
            check("elim accepts", res.accepts_input(w), ref.accepts(w), (ctx, w))
        fresh_res = build_nfa(spec).eliminate_lambda()
        check("elim same", nfa_spec_of(res), nfa_spec_of(fresh_res), ctx)

    ops = [op_accepts, op_accepts, op_read, op_stepwise_partial, op_resume,
           op_equal, op_determinise, op_eliminate_lambda]
    for _ in range(n_ops):
        rng.choice(ops)()
    while pending:
        op_resume()
    check("nfa operand unchanged", nfa_spec_of(used), nfa_spec_of(build_nfa(spec)), ctx)


NFA_KEYS = [
    ("states", "states"),
    ("input_symbols", "symbols"),
    ("transitions", "transitions"),
    ("initial_state", "initial"),
    ("final_states", "finals"),
]

_words_cache = {}


def all_words(syms, maxlen):
    key = (tuple(syms), maxlen)
    if key not in _words_cache:
        _words_cache[key] = [
            "".join(t)
            for k in range(maxlen + 1)
            for t in itertools.product(syms, repeat=k)
        ]
    return _words_cache[key]


# --------------------------------------------------------------------------
# hand-picked DFAs and histories
# --------------------------------------------------------------------------
def hand_picked_specs():
    ab = {"a", "b"}
    out = []
    out.append(spec_of(DFA.empty_language(ab)))
    out.append(spec_of(DFA.universal_language(ab)))
    out.append(spec_of(DFA.from_finite_language(ab, {"", "a", "ab", "bba", "bbb"})))
    out.append(spec_of(DFA.from_finite_language(ab, {""})))
    out.append(spec_of(DFA.from_finite_language(ab, set())))
    out.append(spec_of(DFA.of_length(ab, min_length=1, max_length=3)))
    out.append(spec_of(DFA.from_prefix(ab, "ab")))
    out.append(spec_of(DFA.from_suffix(ab, "ba")))
    out.append(spec_of(DFA.from_substring(ab, "aa").to_complete()))
    # a*b as a partial DFA, and with an explicit trap state
    out.append(dict(states={0, 1}, input_symbols=ab,
                    transitions={0: {"a": 0, "b": 1}, 1: {}},
                    initial_state=0, final_states={1}, allow_partial=True))
    out.append(dict(states={0, 1, 2}, input_symbols=ab,
                    transitions={0: {"a": 0, "b": 1}, 1: {"a": 2, "b": 2},
                                 2: {"a": 2, "b": 2}},
                    initial_state=0, final_states={1}, allow_partial=False))
    # initial state not final, unreachable final state, cycle that is not
    # co-accessible
    out.append(dict(states={"i", "u", "c"}, input_symbols=ab,
                    transitions={"i": {"a": "c"}, "u": {"a": "u", "b": "i"},
                                 "c": {"a": "c", "b": "c"}},
                    initial_state="i", final_states={"u"}, allow_partial=True))
    # single state, no transitions at all
    out.append(dict(states={0}, input_symbols=ab, transitions={0: {}},
                    initial_state=0, final_states={0}, allow_partial=True))
    return out


HAND_SCRIPTS = [
    # longer length first, then shorter, then again after clearing the cache
    [("count", 7), ("count", 2), ("words", 6), ("words", 1), "clear",
     ("words", 1), ("count", 2), ("words", 6), ("count", 7)],
    # shorter first, then longer; repeated queries
    [("count", 0), ("count", 0), ("count", 5), ("words", 0), ("words", 0),
     ("words", 4), ("words", 4), "cardinality", "cardinality"],
    # abandoned generators around a cache reset
    [("words_partial", 5), "iter_partial", "clear", ("words_partial", 3),
     "resume", "resume", ("words", 5), "iter_all"],
    ["empty_finite", "lengths", "cardinality", "iter_all", "clear", "iter_all",
     "cardinality", "lengths", "empty_finite"],
    ["random_word", ("count", 3), "random_word", ("words", 3), "random_word",
     "clear", "random_word"],
    ["successor", "predecessor", "cardinality", "successor", "predecessor",
     "compare", "clear", "compare"],
    [("words", 3), ("count", 3), ("words", 2), ("count", 4), ("words", 5),
     ("count", 1), "clear", ("count", 1), ("words", 5)],
]


def main(extra=None):
    rng = random.Random(SEED)
    hand = hand_picked_specs()
    for i, spec in enumerate(hand):
        ref = ref_of(spec)
        for j, script in enumerate(HAND_SCRIPTS):
            script = [
                (s[0], min(s[1], ref.lmax)) if isinstance(s, tuple) else s
                for s in script
            ]
            other = rng.choice(hand + [random_dfa_spec(rng, "ab")])
            dfa_history(rng, spec, other, 6, ("hand", i, j), script=script)
    for i in range(N_RANDOM_DFAS):
        spec = random_dfa_spec(rng)
        syms = "".join(sorted(spec["input_symbols"]))
        other = spec if rng.random() < 0.1 else random_dfa_spec(rng, syms, 3)
        script = rng.choice(HAND_SCRIPTS + [None, None, None])
        if script is not None:
            lm = ref_of(spec).lmax
            script = [
                (s[0], min(s[1], lm)) if isinstance(s, tuple) else s for s in script
            ]
        dfa_history(rng, spec, other, OPS_PER_HISTORY, ("rand", i, spec), script=script)
    for i in range(N_RANDOM_NFAS):
        spec = random_nfa_spec(rng)
        syms = "".join(sorted(spec["input_symbols"]))
        other = spec if rng.random() < 0.1 else random_nfa_spec(rng, syms)
        nfa_history(rng, spec, other, 10, ("nfa", i, spec))
    if extra is not None:
        extra(rng)
    if failures:
        report()
    print("property holds (%d checks)" % checks)


# --------------------------------------------------------------------------
# extra stress of the per-length caches on somewhat larger DFAs: lengths are
# asked in shuffled order (shorter after longer and vice versa), repeated,
# with clear_cache and abandoned generators in between
# --------------------------------------------------------------------------
def cache_stress(rng):
    for i in range(250):
        spec = random_dfa_spec(rng, "ab", max_states=6)
        ref = ref_of(spec)
        top = min(ref.lmax, 9)
        used = build_dfa(spec)
        ctx = ("stress", i, spec)
        lengths = [rng.randint(0, top) for _ in range(12)]
        for k in lengths:
            what = rng.choice(["count", "words", "random", "partial", "clear", "card"])
            fresh = build_dfa(spec)
            if what == "count":
                got = used.count_words_of_length(k)
                check("stress count", got, len(ref.by_len[k]), (ctx, k))
                check("stress count fresh", got, fresh.count_words_of_length(k), ctx)
            elif what == "words":
                got = list(used.words_of_length(k))
                check("stress words", sorted(got), ref.by_len[k], (ctx, k))
                check("stress words fresh", got, list(fresh.words_of_length(k)), ctx)
                check("stress words twice", got, list(used.words_of_length(k)), ctx)
            elif what == "random":
                seed = rng.randint(0, 3)
                got = outcome(lambda: used.random_word(k, seed=seed))
                check("stress random fresh", got,
                      outcome(lambda: fresh.random_word(k, seed=seed)), (ctx, k))
                if ref.by_len[k]:
                    check("stress random member", got[1] in ref.by_len[k], True, ctx)
                else:
                    check("stress random none", got, ("exc", "ValueError"), ctx)
            elif what == "partial":
                g = used.words_of_length(k)
                got = list(itertools.islice(g, 2))
                check("stress partial", got, list(fresh.words_of_length(k))[:2], ctx)
                if rng.random() < 0.5:
                    used.clear_cache()
                    check("stress resumed", got + list(g),
                          list(fresh.words_of_length(k)), ctx)
            elif what == "clear":
                used.clear_cache()
            else:
                check("stress card", outcome(used.cardinality), ref.o_cardinality(), ctx)
        check("stress operand unchanged", spec_of(used), spec_of(build_dfa(spec)), ctx)


if __name__ == "__main__":
    main(cache_stress)
