#!/usr/bin/env python3
"""
Demo / regression check for property C06:

  For any two DFAs over the same alphabet, ==, !=, <=, <, >=, >, issubset,
  issuperset and isdisjoint return precisely whether the two languages are
  equal / included / strictly included / disjoint; isempty and isfinite return
  precisely whether the language is empty / finite.  The answers do not depend
  on state names, on unreachable or dead states, or on whether either operand
  is partial.

Run as:  PYTHONPATH=<tree> /venv/bin/python demo.py [seed]

Every automaton is first generated as plain Python data (a "spec"); the
reference answers are computed from the spec only, by code written in this
file (no library code), and the library's DFA is then built from the spec.
"""

import itertools
import random
import sys

from automata.fa.dfa import DFA

# --------------------------------------------------------------------------
# Plain-data automata:  spec = (states, alphabet, delta, init, finals)
#   delta: dict state -> dict symbol -> state   (may miss symbols = partial)
# --------------------------------------------------------------------------


def step(spec, q, a):
    """None is the implicit trap of a partial automaton."""
    if q is None:
        return None
    return spec[2][q].get(a)


def accepts(spec, word):
    q = spec[3]
    for a in word:
        q = step(spec, q, a)
    return q is not None and q in spec[4]


def reachable_pairs(sa, sb):
    """All pairs (p, q) reachable in the synchronous product (None = trap)."""
    start = (sa[3], sb[3])
    seen = {start}
    todo = [start]
    while todo:
        p, q = todo.pop()
        for a in sa[1]:
            nxt = (step(sa, p, a), step(sb, q, a))
            if nxt not in seen:
                seen.add(nxt)
                todo.append(nxt)
    return seen


def ref_compare(sa, sb):
    """Reference answers for a pair: (subset, superset, equal, disjoint)."""
    pairs = reachable_pairs(sa, sb)
    fa, fb = sa[4], sb[4]
    in_a = lambda p: p is not None and p in fa  # noqa: E731
    in_b = lambda q: q is not None and q in fb  # noqa: E731
    subset = not any(in_a(p) and not in_b(q) for p, q in pairs)
    superset = not any(in_b(q) and not in_a(p) for p, q in pairs)
    disjoint = not any(in_a(p) and in_b(q) for p, q in pairs)
    return subset, superset, subset and superset, disjoint


def ref_empty_finite(spec):
    """
    Layered brute force: R_k = set of states reached by words of length
    exactly k (in the completed automaton with N = |Q| + 1 states).
    L is empty  iff no R_k (k < N) meets F.
    L is infinite iff some R_k with N <= k < 2N meets F (pumping lemma).
    """
    n = len(spec[0]) + 1
    layer = {spec[3]}
    hit = []
    for _ in range(2 * n):
        hit.append(any(q is not None and q in spec[4] for q in layer))
        layer = {step(spec, q, a) for q in layer for a in spec[1]}
    return (not any(hit[:n])), (not any(hit[n:]))


def words_upto(alphabet, k):
    for n in range(k + 1):
        for w in itertools.product(sorted(alphabet), repeat=n):
            yield w


def brute_compare(sa, sb):
    """Genuinely brute-force (word enumeration) answers for tiny automata."""
    bound = (len(sa[0]) + 1) * (len(sb[0]) + 1)
    la = {w for w in words_upto(sa[1], bound) if accepts(sa, w)}
    lb = {w for w in words_upto(sb[1], bound) if accepts(sb, w)}
    return la <= lb, la >= lb, la == lb, not (la & lb)


# --------------------------------------------------------------------------
# Random generation and semantics-preserving transformations of specs
# --------------------------------------------------------------------------

NAME_STYLES = ("int", "neg", "str", "tuple", "fset", "mixed")


def make_names(rng, n, style):
    if style == "int":
        return list(range(n))
    if style == "neg":
        # negative ints collide with the ids the library likes for trap states
        return [-(i + 1) for i in range(n)]
    if style == "str":
        return ["q%d" % i for i in range(n)]
    if style == "tuple":
        return [(i, "x") for i in range(n)]
    if style == "fset":
        return [frozenset({i, "s"}) for i in range(n)]
    pool = [0, -1, -2, 1, "a", "-1", (0, -1), frozenset({-1}), 7, -3, "", (), 2.5]
    rng.shuffle(pool)
    return pool[:n]


def random_spec(rng, alphabet, max_states=5, names=None):
    n = rng.randint(1, max_states)
    style = names or rng.choice(NAME_STYLES)
    states = make_names(rng, n, style)
    p_missing = rng.choice([0.0, 0.0, 0.15, 0.4, 0.8])
    delta = {}
    for q in states:
        row = {}
        for a in alphabet:
            if rng.random() >= p_missing:
                row[a] = rng.choice(states)
        delta[q] = row
    mode = rng.random()
    if mode < 0.1:
        finals = set()
    elif mode < 0.2:
        finals = set(states)
    else:
        finals = {q for q in states if rng.random() < 0.4}
    return (set(states), set(alphabet), delta, states[0], finals)


def rename(rng, spec):
    style = rng.choice(NAME_STYLES)
    old = list(spec[0])
    rng.shuffle(old)
    new = make_names(rng, len(old), style)
    if len(new) < len(old):  # "mixed" pool exhausted
        new = [("r", i) for i in range(len(old))]
    m = dict(zip(old, new))
    delta = {m[q]: {a: m[t] for a, t in row.items()} for q, row in spec[2].items()}
    return (set(new), set(spec[1]), delta, m[spec[3]], {m[q] for q in spec[4]})


def add_junk(rng, spec):
    """Add unreachable states (arbitrary) and dead states (non-final sinks)."""
    states, alphabet, delta, init, finals = spec
    states = set(states)
    delta = {q: dict(row) for q, row in delta.items()}
    finals = set(finals)
    k = 0

    def fresh():
        nonlocal k
        while ("junk", k) in states:
            k += 1
        states.add(("junk", k))
        return ("junk", k)

    old = list(states)
    # dead states: fill some missing transitions with a path into a dead sink
    if rng.random() < 0.7:
        dead = fresh()
        dead2 = fresh()
        delta[dead] = {a: dead2 for a in alphabet if rng.random() < 0.7}
        delta[dead2] = {a: rng.choice([dead, dead2]) for a in alphabet}
        for q in old:
            for a in alphabet:
                if a not in delta[q] and rng.random() < 0.5:
                    delta[q][a] = dead
    # unreachable states, possibly final, possibly pointing anywhere
    unreachable = [fresh() for _ in range(rng.randint(0, 2))]
    for u in unreachable:
        if rng.random() < 0.5:
            finals.add(u)
        pool = sorted(states, key=repr)
        delta[u] = {a: rng.choice(pool) for a in alphabet if rng.random() < 0.7}
    return (states, set(alphabet), delta, init, finals)


def complete(spec, sink=("sink",)):
    states, alphabet, delta, init, finals = spec
    states = set(states) | {sink}
    delta = {q: dict(row) for q, row in delta.items()}
    delta[sink] = {}
    for q in states:
        for a in alphabet:
            delta[q].setdefault(a, sink)
    return (states, set(alphabet), delta, init, set(finals))


def is_total(spec):
    return all(len(row) == len(spec[1]) for row in spec[2].values())


def build(spec, rng=None):
    states, alphabet, delta, init, finals = spec
    total = is_total(spec)
    # a total table may still be declared with allow_partial=True
    allow_partial = (not total) or (rng is not None and rng.random() < 0.3)
    return DFA(
        states=set(states),
        input_symbols=set(alphabet),
        transitions={q: dict(row) for q, row in delta.items()},
        initial_state=init,
        final_states=set(finals),
        allow_partial=allow_partial,
    )


# --------------------------------------------------------------------------
# Checking
# --------------------------------------------------------------------------

FAILURES = []


def expect(what, got, want, ctx):
    if got is not want:  # must be real booleans
        FAILURES.append((what, got, want, ctx))
        if len(FAILURES) <= 10:
            print("MISMATCH %s: got %r, want %r\n   %r" % (what, got, want, ctx))


def snapshot(d):
    return (
        set(d.states),
        set(d.input_symbols),
        {q: dict(r) for q, r in d.transitions.items()},
        d.initial_state,
        set(d.final_states),
        d.allow_partial,
    )


def check_pair(da, db, ref, ctx):
    subset, superset, equal, disjoint = ref
    before = (snapshot(da), snapshot(db))
    expect("==", da == db, equal, ctx)
    expect("!=", da != db, not equal, ctx)
    expect("<=", da <= db, subset, ctx)
    expect("<", da < db, subset and not equal, ctx)
    expect(">=", da >= db, superset, ctx)
    expect(">", da > db, superset and not equal, ctx)
    expect("issubset", da.issubset(db), subset, ctx)
    expect("issuperset", da.issuperset(db), superset, ctx)
    expect("isdisjoint", da.isdisjoint(db), disjoint, ctx)
    if (snapshot(da), snapshot(db)) != before:
        FAILURES.append(("operand mutated", None, None, ctx))


def check_single(d, ref, ctx):
    empty, finite = ref
    expect("isempty", d.isempty(), empty, ctx)
    expect("isfinite", d.isfinite(), finite, ctx)
    # asking twice (cached) or in the other order must not matter
    expect("isfinite(2)", d.isfinite(), finite, ctx)
    expect("isempty(2)", d.isempty(), empty, ctx)


def variants(rng, spec):
    """The spec itself plus language-preserving variants of it."""
    out = [spec]
    out.append(rename(rng, spec))
    out.append(add_junk(rng, spec))
    out.append(complete(spec))
    out.append(rename(rng, complete(add_junk(rng, spec))))
    return out


def check_specs(rng, sa, sb, ctx, all_variants=True):
    ref = ref_compare(sa, sb)
    ref_a = ref_empty_finite(sa)
    ref_b = ref_empty_finite(sb)
    va = variants(rng, sa) if all_variants else [sa]
    vb = variants(rng, sb) if all_variants else [sb]
    # reference must itself be invariant (sanity of the reference)
    assert ref_compare(va[-1], vb[-1]) == ref, ("reference not invariant", ctx)
    assert ref_empty_finite(va[-1]) == ref_a, ("reference not invariant", ctx)
    das = [build(s, rng) for s in va]
    dbs = [build(s, rng) for s in vb]
    for d in das:
        check_single(d, ref_a, ctx)
    for d in dbs:
        check_single(d, ref_b, ctx)
    combos = [(0, 0)] + [
        (rng.randrange(len(das)), rng.randrange(len(dbs))) for _ in range(3)
    ]
    if all_variants:
        combos += [(3, 0), (0, 3), (2, 4)]
    for i, j in combos:
        if i < len(das) and j < len(dbs):
            check_pair(das[i], dbs[j], ref, ctx + (i, j))
    # reflexive / self comparisons
    check_pair(das[0], das[-1], (True, True, True, ref_a[0]), ctx + ("self",))
    check_pair(das[0], das[0], (True, True, True, ref_a[0]), ctx + ("same-object",))


def word_dfa_spec(alphabet, words, names="int"):
    """Trie-shaped partial automaton accepting exactly the given words."""
    delta = {0: {}}
    finals = set()
    nxt = 1
    for w in words:
        q = 0
        for a in w:
            if a not in delta[q]:
                delta[q][a] = nxt
                delta[nxt] = {}
                nxt += 1
            q = delta[q][a]
        finals.add(q)
    spec = (set(delta), set(alphabet), delta, 0, finals)
    if names == "neg":
        m = {q: -(q + 1) for q in delta}
        spec = (
            set(m.values()),
            set(alphabet),
            {m[q]: {a: m[t] for a, t in row.items()} for q, row in delta.items()},
            m[0],
            {m[q] for q in finals},
        )
    return spec


def counter_spec(alphabet, n, finals, loop_symbol):
    """Counts loop_symbol modulo n; other symbols keep the state."""
    delta = {
        i: {a: ((i + 1) % n if a == loop_symbol else i) for a in alphabet}
        for i in range(n)
    }
    return (set(range(n)), set(alphabet), delta, 0, set(finals))


def hand_picked(rng):
    ab = {"a", "b"}
    w = "ab" * 20 + "a"  # one long word (length 41)
    w2 = w[:-1] + "b"
    specs = {
        "empty-partial": ({0}, ab, {0: {}}, 0, set()),
        "empty-total": ({0}, ab, {0: {"a": 0, "b": 0}}, 0, set()),
        "empty-unreach-final": ({0, 1}, ab, {0: {"a": 0}, 1: {"a": 1, "b": 0}}, 0, {1}),
        "eps-only": ({0}, ab, {0: {}}, 0, {0}),
        "universal": ({0}, ab, {0: {"a": 0, "b": 0}}, 0, {0}),
        "universal-2": (
            {-1, -2},
            ab,
            {-1: {"a": -2, "b": -1}, -2: {"a": -1, "b": -2}},
            -1,
            {-1, -2},
        ),
        "a-star-partial": ({0}, ab, {0: {"a": 0}}, 0, {0}),
        "a-star-neg": ({-1}, ab, {-1: {"a": -1}}, -1, {-1}),
        "a-plus-dead-loop": (
            {0, 1, 2},
            ab,
            {0: {"a": 1, "b": 2}, 1: {"a": 1, "b": 2}, 2: {"a": 2, "b": 2}},
            0,
            {1},
        ),
        "finite-with-dead-cycle": (
            {0, 1, 2, 3},
            ab,
            {0: {"a": 1, "b": 2}, 1: {}, 2: {"a": 3}, 3: {"b": 2}},
            0,
            {1},
        ),
        "finite-with-unreachable-cycle": (
            {0, 1, 2},
            ab,
            {0: {"a": 1}, 1: {}, 2: {"a": 2, "b": 1}},
            0,
            {1},
        ),
        "long-word": word_dfa_spec(ab, [w]),
        "long-word-neg": word_dfa_spec(ab, [w], names="neg"),
        "long-word-other": word_dfa_spec(ab, [w2]),
        "long-two-words": word_dfa_spec(ab, [w, w2]),
        "long-word+eps": word_dfa_spec(ab, [w, ""]),
        "mod30-zero": counter_spec(ab, 30, {0}, "a"),
        "mod30-zero-or-29": counter_spec(ab, 30, {0, 29}, "a"),
        "mod15-zero": counter_spec(ab, 15, {0}, "a"),
        "mod30-all": counter_spec(ab, 30, set(range(30)), "a"),
        "mod30-none": counter_spec(ab, 30, set(), "a"),
    }
    # universal language minus exactly one long word
    lw = word_dfa_spec(ab, [w])
    st, _, delta, init, fin = complete(lw, sink="S")
    specs["all-but-long-word"] = (st, ab, delta, init, set(st) - set(fin))
    names = sorted(specs)
    for x in names:
        for y in names:
            check_specs(rng, specs[x], specs[y], ("hand", x, y), all_variants=False)
    for x in names:
        check_specs(rng, specs[x], specs[x], ("hand-variants", x))
    # operands over different alphabets: == is False, ordering raises
    d1 = build(specs["universal"])
    d2 = DFA(
        states={0},
        input_symbols={"a"},
        transitions={0: {"a": 0}},
        initial_state=0,
        final_states={0},
    )
    from automata.base.exceptions import SymbolMismatchError

    expect("== other alphabet", d1 == d2, False, ("alphabet",))
    expect("!= other alphabet", d1 != d2, True, ("alphabet",))
    for name, op in [
        ("<=", lambda: d1 <= d2),
        (">=", lambda: d1 >= d2),
        ("<", lambda: d1 < d2),
        (">", lambda: d1 > d2),
        ("issubset", lambda: d1.issubset(d2)),
        ("issuperset", lambda: d1.issuperset(d2)),
        ("isdisjoint", lambda: d1.isdisjoint(d2)),
    ]:
        try:
            op()
        except SymbolMismatchError:
            pass
        else:
            FAILURES.append((name + " should raise SymbolMismatchError", 0, 0, 0))
    expect("== non-DFA", d1 == 3, False, ("non-dfa",))
    expect("!= non-DFA", d1 != 3, True, ("non-dfa",))


def main():
    seed = int(sys.argv[1]) if len(sys.argv) > 1 else 20260926
    rng = random.Random(seed)

    hand_picked(rng)

    # tiny automata: reference cross-checked by plain word enumeration
    n_tiny = 400
    for i in range(n_tiny):
        alphabet = rng.choice([("a",), ("a", "b")])
        sa = random_spec(rng, alphabet, max_states=2)
        sb = random_spec(rng, alphabet, max_states=2)
        assert brute_compare(sa, sb) == ref_compare(sa, sb), ("ref vs brute", sa, sb)
        bound = 2 * (len(sa[0]) + 1)
        la = [w for w in words_upto(sa[1], bound) if accepts(sa, w)]
        emp, fin = ref_empty_finite(sa)
        assert emp == (not la), ("ref empty vs brute", sa)
        assert fin == (not any(len(w) > len(sa[0]) for w in la)), ("ref fin", sa)
        check_specs(rng, sa, sb, ("tiny", i))

    # a few thousand random pairs
    n_random = 2600
    for i in range(n_random):
        alphabet = rng.choice([("a",), ("a", "b"), ("a", "b"), ("a", "b", "c")])
        sa = random_spec(rng, alphabet)
        r = rng.random()
        if r < 0.25:
            # a close relative of sa: flip one final state / drop one transition
            sb = rename(rng, add_junk(rng, sa))
            states, al, delta, init, finals = sb
            q = rng.choice(sorted(states, key=repr))
            if rng.random() < 0.5:
                finals = set(finals) ^ {q}
            elif delta[q]:
                delta = {s: dict(row) for s, row in delta.items()}
                delta[q].pop(rng.choice(sorted(delta[q])))
            sb = (states, al, delta, init, finals)
        else:
            sb = random_spec(rng, alphabet)
        check_specs(rng, sa, sb, ("random", i), all_variants=(i % 4 == 0))

    if FAILURES:
        print("property VIOLATED: %d mismatches" % len(FAILURES))
        sys.exit(1)
    print("property holds (%d random pairs + hand-picked, seed %d)" % (n_tiny + n_random, seed))


if __name__ == "__main__":
    main()
