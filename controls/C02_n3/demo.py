#!/usr/bin/env python3
"""Check property C02 (pushdown acceptance) against a brute-force reference.

Run as:  PYTHONPATH=<tree> /venv/bin/python demo.py

Checked, for hand-picked and a few thousand random inputs:
  * NPDA.accepts_input(w) is True exactly when SOME sequence of moves consumes
    all of w and ends in a configuration that is accepting under the acceptance
    mode (final state / empty stack / both), the start configuration included
    (reference: exhaustive search of the whole reachable configuration graph);
  * NPDA.read_input_stepwise yields, level by level, exactly the set of
    configurations reachable in that many moves (reference: own level
    computation on plain tuples), stopping at the first level that holds an
    accepting configuration, or yielding an empty level and then raising
    RejectionException;
  * DPDA(...) is refused with NondeterminismError exactly when some
    configuration could have two applicable moves (tables with invalid symbols
    included: refused for one of the two reasons, never accepted);
  * a DPDA and the NPDA with the same transition table give the same verdict
    on every string, and the DPDA's stepwise reader follows the unique run.
Only tables whose epsilon-moves cannot run forever are used for the run checks.
"""

import itertools
import random
import sys

import automata.base.exceptions as exceptions
import automata.pda.exceptions as pda_exceptions
from automata.pda.configuration import PDAConfiguration
from automata.pda.dpda import DPDA
from automata.pda.npda import NPDA
from automata.pda.stack import PDAStack

MODES = ("final_state", "empty_stack", "both")
CONFIG_CAP = 4000  # skip inputs whose configuration graph is larger than this

checks = 0


def fail(msg):
    print("PROPERTY VIOLATED:", msg)
    sys.exit(1)


# --------------------------------------------------------------------------
# Brute-force reference on plain tuples: config = (state, rest, stack-tuple),
# the top of the stack is the LAST element of the tuple.
# table: state -> input symbol ('' = epsilon) -> stack symbol -> set of
#        (target state, push) where push is '' (pop), a str or a tuple whose
#        FIRST symbol becomes the new top.
# --------------------------------------------------------------------------
def ref_moves(table, cfg):
    state, rest, stack = cfg
    if not stack:
        return set()
    top = stack[-1]
    options = [("", rest)]
    if rest:
        options.append((rest[0], rest[1:]))
    result = set()
    for symbol, new_rest in options:
        for target, push in table.get(state, {}).get(symbol, {}).get(top, ()):
            pushed = tuple(push)
            result.add((target, new_rest, stack[:-1] + pushed[::-1]))
    return result


def ref_accepting(cfg, finals, mode):
    state, rest, stack = cfg
    if rest:
        return False
    by_stack = mode in ("empty_stack", "both") and len(stack) == 0
    by_state = mode in ("final_state", "both") and state in finals
    return by_stack or by_state


def ref_exists_accepting_run(table, start, finals, mode):
    """Exhaustive search: is an accepting configuration reachable at all?
    Returns None if the configuration graph is too large."""
    seen = {start}
    todo = [start]
    while todo:
        cfg = todo.pop()
        if ref_accepting(cfg, finals, mode):
            return True
        for nxt in ref_moves(table, cfg):
            if nxt not in seen:
                seen.add(nxt)
                todo.append(nxt)
                if len(seen) > CONFIG_CAP:
                    return None
    return False


def ref_levels(table, start, finals, mode):
    """Levels L0, L1, ... (Lk = configurations reachable in exactly k moves)
    up to and including the first level with an accepting configuration
    (verdict True) or the first empty level (verdict False)."""
    levels = [{start}]
    total = 1
    while True:
        level = levels[-1]
        if not level:
            return levels, False
        if any(ref_accepting(c, finals, mode) for c in level):
            return levels, True
        nxt = set()
        for cfg in level:
            nxt |= ref_moves(table, cfg)
        total += len(nxt)
        if total > CONFIG_CAP or len(levels) > 200:
            return None, None
        levels.append(nxt)


def conv(config):
    if not isinstance(config, PDAConfiguration):
        fail("stepwise reader yielded a non-configuration %r" % (config,))
    if not isinstance(config.stack, PDAStack):
        fail("configuration without PDAStack %r" % (config,))
    return (config.state, config.remaining_input, tuple(config.stack))


# --------------------------------------------------------------------------
# Library-side observations
# --------------------------------------------------------------------------
def observe_npda(npda, word):
    got = []
    try:
        for level in npda.read_input_stepwise(word):
            if not isinstance(level, (set, frozenset)):
                fail("NPDA level is not a set: %r" % (level,))
            got.append({conv(c) for c in level})
        return got, True
    except exceptions.RejectionException:
        return got, False


def observe_dpda(dpda, word):
    got = []
    try:
        for config in dpda.read_input_stepwise(word):
            got.append(conv(config))
        return got, True
    except exceptions.RejectionException:
        return got, False


def check_npda(desc, table, states, sigma, gamma, q0, z0, finals, words):
    global checks
    for mode in MODES:
        npda = NPDA(
            states=set(states),
            input_symbols=set(sigma),
            stack_symbols=set(gamma),
            transitions=table,
            initial_state=q0,
            initial_stack_symbol=z0,
            final_states=set(finals),
            acceptance_mode=mode,
        )
        for word in words:
            start = (q0, word, (z0,))
            exists = ref_exists_accepting_run(table, start, finals, mode)
            levels, verdict = ref_levels(table, start, finals, mode)
            if exists is None or levels is None:
                continue
            if exists != verdict:
                fail("reference disagrees with itself on %s %r" % (desc, word))
            got_levels, got_verdict = observe_npda(npda, word)
            ctx = "%s mode=%s word=%r" % (desc, mode, word)
            if got_verdict != exists:
                fail("NPDA verdict %r, some accepting run exists: %r (%s)"
                     % (got_verdict, exists, ctx))
            if got_levels != levels:
                fail("NPDA levels %r, expected %r (%s)" % (got_levels, levels, ctx))
            if npda.accepts_input(word) != exists:
                fail("accepts_input differs from stepwise verdict (%s)" % ctx)
            if (word in npda) != exists:
                fail("`in` differs from stepwise verdict (%s)" % ctx)
            try:
                last = npda.read_input(word)
                if not exists:
                    fail("read_input returned on a rejected word (%s)" % ctx)
                if {conv(c) for c in last} != levels[-1]:
                    fail("read_input result is not the last level (%s)" % ctx)
            except exceptions.RejectionException:
                if exists:
                    fail("read_input raised on an accepted word (%s)" % ctx)
            checks += 1


def dpda_conflict(table):
    """Two applicable moves are possible exactly when, for one state and one
    stack symbol, an epsilon-move and an input-symbol move are both defined
    (each (state, input, stack symbol) has a single move in a DPDA table)."""
    for state, paths in table.items():
        lam = paths.get("", {})
        for symbol, stack_paths in paths.items():
            if symbol == "":
                continue
            for stack_symbol in stack_paths:
                if stack_symbol in lam:
                    return True
    return False


def has_invalid_symbols(table, sigma, gamma):
    for paths in table.values():
        for symbol, stack_paths in paths.items():
            if symbol != "" and symbol not in sigma:
                return True
            for stack_symbol in stack_paths:
                if stack_symbol not in gamma:
                    return True
    return False


def as_npda_table(table):
    return {
        q: {a: {s: {move} for s, move in sp.items()} for a, sp in paths.items()}
        for q, paths in table.items()
    }


def check_dpda(desc, table, states, sigma, gamma, q0, z0, finals, words):
    """Determinism validation (any table) and agreement with the NPDA."""
    global checks
    conflict = dpda_conflict(table)
    invalid = has_invalid_symbols(table, sigma, gamma)
    for mode in MODES:
        kwargs = dict(
            states=set(states),
            input_symbols=set(sigma),
            stack_symbols=set(gamma),
            transitions=table,
            initial_state=q0,
            initial_stack_symbol=z0,
            final_states=set(finals),
            acceptance_mode=mode,
        )
        try:
            dpda = DPDA(**kwargs)
            outcome = "ok"
        except pda_exceptions.NondeterminismError:
            outcome = "nondeterminism"
        except exceptions.InvalidSymbolError:
            outcome = "invalid_symbol"
        ctx = "%s mode=%s table=%r" % (desc, mode, table)
        checks += 1
        if not invalid:
            expected = "nondeterminism" if conflict else "ok"
            if outcome != expected:
                fail("DPDA constructor: %s, expected %s (%s)" % (outcome, expected, ctx))
        else:
            allowed = {"invalid_symbol"} | ({"nondeterminism"} if conflict else set())
            if outcome not in allowed:
                fail("DPDA constructor: %s, expected one of %s (%s)"
                     % (outcome, sorted(allowed), ctx))
        if outcome != "ok":
            continue
        ntable = as_npda_table(table)
        npda = NPDA(**dict(kwargs, transitions=ntable))
        for word in words:
            start = (q0, word, (z0,))
            exists = ref_exists_accepting_run(ntable, start, finals, mode)
            levels, verdict = ref_levels(ntable, start, finals, mode)
            if exists is None or levels is None:
                continue
            if any(len(level) > 1 for level in levels):
                fail("validated DPDA has two applicable moves (%s)" % ctx)
            run = [next(iter(level)) for level in levels if level]
            got_run, got_verdict = observe_dpda(dpda, word)
            wctx = "%s word=%r" % (ctx, word)
            if got_verdict != exists:
                fail("DPDA verdict %r, reference %r (%s)" % (got_verdict, exists, wctx))
            if got_run != run:
                fail("DPDA run %r, expected %r (%s)" % (got_run, run, wctx))
            if dpda.accepts_input(word) != npda.accepts_input(word):
                fail("DPDA and NPDA verdicts differ (%s)" % wctx)
            if dpda.accepts_input(word) != exists:
                fail("DPDA.accepts_input differs from reference (%s)" % wctx)
            try:
                last = dpda.read_input(word)
                if not exists or conv(last) != run[-1]:
                    fail("DPDA.read_input result wrong (%s)" % wctx)
            except exceptions.RejectionException:
                if exists:
                    fail("DPDA.read_input raised on an accepted word (%s)" % wctx)
            checks += 1


# --------------------------------------------------------------------------
# Input generation
# --------------------------------------------------------------------------
def words_over(alphabet, max_len, rng, extra=6):
    words = [""]
    for n in range(1, max_len + 1):
        words.extend("".join(p) for p in itertools.product(alphabet, repeat=n))
    letters = alphabet + "c"  # 'c' is never an input symbol of the automaton
    for _ in range(extra):
        n = rng.randint(max_len + 1, max_len + 3)
        words.append("".join(rng.choice(letters) for _ in range(n)))
    return words


def random_push(gamma, rng, allow_long=True):
    r = rng.random()
    if r < 0.35:
        return ""  # pop
    n = rng.choice((1, 1, 2, 2, 3)) if allow_long else 1
    symbols = tuple(rng.choice(gamma) for _ in range(n))
    if rng.random() < 0.4:
        return "".join(symbols)  # the str form of a push
    return symbols


def random_npda_table(rng):
    n_states = rng.randint(1, 4)
    states = ["q%d" % i for i in range(n_states)]
    if rng.random() < 0.2:
        states = list(range(n_states))  # states need not be strings
    sigma = rng.choice(("a", "ab", "ab"))
    gamma = rng.choice(("Z", "ZX", "ZXY"))
    # family "up":  epsilon-moves strictly increase the state index
    # family "pop": epsilon-moves always pop
    # either way no infinite sequence of epsilon-moves exists.
    family = rng.choice(("up", "pop", "none"))
    density = rng.choice((0.25, 0.4, 0.6))
    table = {}
    for i, q in enumerate(states):
        for a in [""] + list(sigma):
            for s in gamma:
                if rng.random() > density:
                    continue
                moves = set()
                for _ in range(rng.choice((1, 1, 2, 3))):
                    if a == "":
                        if family == "none":
                            continue
                        if family == "up":
                            if i + 1 >= n_states:
                                continue
                            target = states[rng.randint(i + 1, n_states - 1)]
                            push = random_push(gamma, rng)
                        else:
                            target = rng.choice(states)
                            push = ""
                    else:
                        target = rng.choice(states)
                        push = random_push(gamma, rng)
                    moves.add((target, push))
                if moves or rng.random() < 0.1:  # sometimes an empty move set
                    table.setdefault(q, {}).setdefault(a, {})[s] = moves
        if rng.random() < 0.1:
            table.setdefault(q, {})  # a state with an empty row
    finals = {q for q in states if rng.random() < 0.4}
    return table, states, sigma, gamma, states[0], gamma[0], finals


def random_dpda_table(rng, deterministic_bias):
    n_states = rng.randint(1, 4)
    states = ["q%d" % i for i in range(n_states)]
    sigma = rng.choice(("a", "ab", "ab"))
    gamma = rng.choice(("Z", "ZX", "ZXY"))
    family = rng.choice(("up", "pop"))
    density = rng.choice((0.3, 0.5, 0.8))
    table = {}
    for i, q in enumerate(states):
        for s in gamma:
            # with deterministic_bias pick either the epsilon-move or the
            # input-symbol moves for this (state, stack symbol), never both
            if rng.random() < deterministic_bias:
                kinds = rng.choice(([""], list(sigma), list(sigma), []))
            else:
                kinds = [""] + list(sigma)
            for a in kinds:
                if rng.random() > density:
                    continue
                if a == "":
                    if family == "up":
                        if i + 1 >= n_states:
                            continue
                        target = states[rng.randint(i + 1, n_states - 1)]
                        push = random_push(gamma, rng)
                    else:
                        target = rng.choice(states)
                        push = ""
                else:
                    target = rng.choice(states)
                    push = random_push(gamma, rng)
                table.setdefault(q, {}).setdefault(a, {})[s] = (target, push)
        if rng.random() < 0.1:
            table.setdefault(q, {}).setdefault(rng.choice([""] + list(sigma)), {})
    finals = {q for q in states if rng.random() < 0.4}
    return table, states, sigma, gamma, states[0], gamma[0], finals


def corrupt(table, rng):
    """Add a transition keyed by a symbol outside the alphabets."""
    table = {q: {a: dict(sp) for a, sp in paths.items()} for q, paths in table.items()}
    q = rng.choice(sorted(table)) if table else "q0"
    row = table.setdefault(q, {})
    if rng.random() < 0.5:
        row.setdefault("c", {})["Z"] = ("q0", "")  # 'c' is no input symbol
    else:
        a = rng.choice(sorted(row)) if row else "a"
        row.setdefault(a, {})["W"] = ("q0", "")  # 'W' is no stack symbol
    return table


# --------------------------------------------------------------------------
# Hand-picked automata
# --------------------------------------------------------------------------
def handpicked(rng):
    # palindromes (the NPDA of the documentation)
    pal = {
        "q0": {
            "": {"#": {("q2", "#")}},
            "a": {
                "#": {("q0", ("A", "#"))},
                "A": {("q0", ("A", "A")), ("q1", "")},
                "B": {("q0", ("A", "B"))},
            },
            "b": {
                "#": {("q0", ("B", "#"))},
                "A": {("q0", ("B", "A"))},
                "B": {("q0", ("B", "B")), ("q1", "")},
            },
        },
        "q1": {
            "": {"#": {("q2", "#")}},
            "a": {"A": {("q1", "")}},
            "b": {"B": {("q1", "")}},
        },
    }
    check_npda("palindromes", pal, ["q0", "q1", "q2"], "ab", "AB#", "q0", "#",
               {"q2"}, words_over("ab", 6, rng))
    # the same language, emptying the stack at the end
    pal_empty = {q: {a: dict(sp) for a, sp in paths.items()} for q, paths in pal.items()}
    pal_empty["q0"][""] = {"#": {("q2", "")}}
    pal_empty["q1"][""] = {"#": {("q2", "")}}
    check_npda("palindromes/empty", pal_empty, ["q0", "q1", "q2"], "ab", "AB#",
               "q0", "#", set(), words_over("ab", 6, rng))
    # start configuration accepting, chain of epsilon-moves, no transitions
    chain = {
        "q0": {"": {"Z": {("q1", "Z"), ("q1", ("X", "Z"))}}},
        "q1": {"": {"Z": {("q2", "")}, "X": {("q2", "")}}, "a": {"X": {("q1", "XX")}}},
        "q2": {"a": {"Z": {("q0", "Z")}}},
    }
    for finals in (set(), {"q0"}, {"q2"}, {"q0", "q1", "q2"}):
        check_npda("chain", chain, ["q0", "q1", "q2"], "a", "ZX", "q0", "Z",
                   finals, words_over("a", 5, rng, extra=2))
    check_npda("empty table", {}, ["q0"], "a", "Z", "q0", "Z", {"q0"},
               ["", "a", "aa", "c"])
    check_npda("empty table/no final", {}, ["q0"], "a", "Z", "q0", "Z", set(),
               ["", "a"])
    # stack emptied while input is left: that run dies, others go on
    dying = {
        "q0": {"a": {"Z": {("q0", ""), ("q0", "Z"), ("q1", "ZZ")}}},
        "q1": {"a": {"Z": {("q1", "")}}, "": {"Z": {("q1", "")}}},
    }
    check_npda("dying", dying, ["q0", "q1"], "a", "Z", "q0", "Z", {"q1"},
               words_over("a", 6, rng, extra=2))

    # the same move written with a str push and with a tuple push
    twins = {
        "q0": {
            "a": {
                "Z": {("q0", "XZ"), ("q0", ("X", "Z")), ("q1", "Z"), ("q1", ("Z",))},
                "X": {("q0", ""), ("q1", "X")},
            }
        },
        "q1": {"": {"X": {("q1", "")}}},
    }
    check_npda("str/tuple twins", twins, ["q0", "q1"], "a", "ZX", "q0", "Z", {"q1"},
               words_over("a", 5, rng, extra=1))

    # a^n b^n (the DPDA of the documentation), all three modes
    anbn = {
        "q0": {"a": {"0": ("q1", ("1", "0"))}},
        "q1": {"a": {"1": ("q1", ("1", "1"))}, "b": {"1": ("q2", "")}},
        "q2": {"b": {"1": ("q2", "")}, "": {"0": ("q3", ("0",))}},
    }
    check_dpda("anbn", anbn, ["q0", "q1", "q2", "q3"], "ab", "01", "q0", "0",
               {"q3"}, words_over("ab", 6, rng))
    anbn_empty = {
        "q0": {"a": {"0": ("q1", ("1", "0"))}},
        "q1": {"a": {"1": ("q1", ("1", "1"))}, "b": {"1": ("q2", "")}},
        "q2": {"b": {"1": ("q2", "")}, "": {"0": ("q2", "")}},
    }
    check_dpda("anbn/empty", anbn_empty, ["q0", "q1", "q2"], "ab", "01", "q0", "0",
               {"q0"}, words_over("ab", 6, rng))
    # consecutive epsilon-moves after the input is used up
    lam = {
        "q0": {"a": {"0": ("q1", ("1", "0"))}},
        "q1": {"a": {"1": ("q1", ("1", "1"))}, "b": {"1": ("q2", "")}},
        "q2": {"b": {"1": ("q2", "")}, "": {"0": ("q3", ("0",))}},
        "q3": {"": {"0": ("q4", ("0",))}},
    }
    check_dpda("lambda chain", lam, ["q0", "q1", "q2", "q3", "q4"], "ab", "01",
               "q0", "0", {"q4"}, words_over("ab", 5, rng))
    # determinism: the forbidden and the allowed neighbourhoods
    check_dpda("adjacent", {"q0": {"": {"Z": ("q1", "Z")}, "a": {"Z": ("q0", "")}}},
               ["q0", "q1"], "a", "ZX", "q0", "Z", {"q1"}, ["", "a"])
    check_dpda("adjacent/2nd symbol",
               {"q0": {"": {"Z": ("q1", "Z"), "X": ("q1", "")},
                       "a": {"Y": ("q0", "")}, "b": {"Y": ("q0", "Y"), "X": ("q0", "X")}}},
               ["q0", "q1"], "ab", "ZXY", "q0", "Z", {"q1"}, ["", "a"])
    check_dpda("other stack symbol",
               {"q0": {"": {"Z": ("q1", "X")}, "a": {"X": ("q0", "")}},
                "q1": {"a": {"X": ("q0", "XX")}}},
               ["q0", "q1"], "a", "ZX", "q0", "Z", {"q1"}, words_over("a", 5, rng))
    check_dpda("other state",
               {"q0": {"": {"Z": ("q1", "Z")}}, "q1": {"a": {"Z": ("q1", "ZZ")}}},
               ["q0", "q1"], "a", "Z", "q0", "Z", {"q1"}, words_over("a", 4, rng))
    check_dpda("lambda only / empty paths",
               {"q0": {"": {}, "a": {"Z": ("q0", "Z")}}, "q1": {}},
               ["q0", "q1"], "a", "Z", "q0", "Z", {"q0"}, words_over("a", 4, rng))
    check_dpda("start accepting", {"q0": {"a": {"Z": ("q1", "Z")}}},
               ["q0", "q1"], "a", "Z", "q0", "Z", {"q0"}, ["", "a", "aa"])
    # invalid symbols together with / without a determinism conflict
    check_dpda("invalid stack symbol + conflict",
               {"q0": {"": {"W": ("q0", ""), "Z": ("q0", "")}, "a": {"Z": ("q0", "")}}},
               ["q0"], "a", "Z", "q0", "Z", set(), [""])
    check_dpda("invalid input symbol",
               {"q0": {"c": {"Z": ("q0", "")}}}, ["q0"], "a", "Z", "q0", "Z", set(), [""])


def main():
    rng = random.Random(20260926)
    handpicked(rng)
    for i in range(260):
        table, states, sigma, gamma, q0, z0, finals = random_npda_table(rng)
        words = words_over(sigma, 3 if len(sigma) > 1 else 5, rng, extra=3)
        check_npda("random NPDA #%d" % i, table, states, sigma, gamma, q0, z0,
                   finals, words)
    for i in range(500):
        table, states, sigma, gamma, q0, z0, finals = random_dpda_table(
            rng, deterministic_bias=rng.choice((0.0, 0.9, 1.0, 1.0))
        )
        if rng.random() < 0.2:
            table = corrupt(table, rng)
        words = words_over(sigma, 3 if len(sigma) > 1 else 5, rng, extra=3)
        check_dpda("random DPDA #%d" % i, table, states, sigma, gamma, q0, z0,
                   finals, words)
    # extra round aimed at the determinism validation: many more tables,
    # valid or not, conflicting or not, with lambda paths of several symbols
    for i in range(1500):
        table, states, sigma, gamma, q0, z0, finals = random_dpda_table(
            rng, deterministic_bias=rng.choice((0.0, 0.5, 0.9))
        )
        if rng.random() < 0.4:
            table = corrupt(table, rng)
        check_dpda("validation #%d" % i, table, states, sigma, gamma, q0, z0,
                   finals, ["", sigma[0]])
    print("property holds (%d checks)" % checks)


if __name__ == "__main__":
    main()
