#!/usr/bin/env python
"""
C12 -- state elimination yields a regular expression for the same language.

For every valid DFA / NFA with a non-empty language,
    GNFA.from_dfa(A).to_regex()   resp.   GNFA.from_nfa(A).to_regex()
is a string which the library's own regex parser accepts and whose language
is exactly the language of A.

Everything the library result is compared against is written in this file:
  * a word-by-word simulator for DFAs / NFAs with empty-string transitions,
  * a tiny recursive-descent parser for the regex dialect that state
    elimination emits (symbols, concatenation, |, *, ?, (), grouping) which is
    compiled to a Thompson automaton,
  * an exact language-equivalence test (on-the-fly subset construction on
    both sides, breadth-first search over pairs of subsets).
The library parser is exercised with regex.validate() and NFA.from_regex();
the automaton it builds is compared word by word with the source automaton
on every word up to a length bound.

Run as:  PYTHONPATH=<tree> /venv/bin/python demo.py [seed] [count]
"""

import itertools
import random
import sys

import automata.regex.regex as libregex
from automata.fa.dfa import DFA
from automata.fa.gnfa import GNFA
from automata.fa.nfa import NFA

# --------------------------------------------------------------------------
# Reference model: an automaton is (alphabet, delta, initial, finals) where
# delta maps (state, symbol_or_"") -> set of states.
# --------------------------------------------------------------------------


def model_of_dfa(dfa):
    delta = {}
    for state, row in dfa.transitions.items():
        for symbol, target in row.items():
            delta.setdefault((state, symbol), set()).add(target)
    return (
        frozenset(dfa.input_symbols),
        delta,
        dfa.initial_state,
        frozenset(dfa.final_states),
    )


def model_of_nfa(nfa):
    delta = {}
    for state, row in nfa.transitions.items():
        for symbol, targets in row.items():
            delta.setdefault((state, symbol), set()).update(targets)
    return (
        frozenset(nfa.input_symbols),
        delta,
        nfa.initial_state,
        frozenset(nfa.final_states),
    )


def closure(delta, states):
    seen = set(states)
    todo = list(states)
    while todo:
        state = todo.pop()
        for target in delta.get((state, ""), ()):
            if target not in seen:
                seen.add(target)
                todo.append(target)
    return frozenset(seen)


def step(delta, states, symbol):
    moved = set()
    for state in states:
        moved.update(delta.get((state, symbol), ()))
    return closure(delta, moved)


def model_accepts(model, word):
    _, delta, initial, finals = model
    current = closure(delta, {initial})
    for symbol in word:
        current = step(delta, current, symbol)
        if not current:
            return False
    return bool(current & finals)


def model_nonempty(model):
    alphabet, delta, initial, finals = model
    seen = {initial}
    todo = [initial]
    while todo:
        state = todo.pop()
        if state in finals:
            return True
        for symbol in list(alphabet) + [""]:
            for target in delta.get((state, symbol), ()):
                if target not in seen:
                    seen.add(target)
                    todo.append(target)
    return False


def models_equivalent(model_a, model_b, alphabet):
    """Exact language equality; returns (True, None) or (False, witness)."""
    _, delta_a, init_a, fin_a = model_a
    _, delta_b, init_b, fin_b = model_b
    start = (closure(delta_a, {init_a}), closure(delta_b, {init_b}))
    seen = {start}
    todo = [(start, "")]
    while todo:
        (set_a, set_b), word = todo.pop(0)
        if bool(set_a & fin_a) != bool(set_b & fin_b):
            return False, word
        for symbol in sorted(alphabet):
            nxt = (step(delta_a, set_a, symbol), step(delta_b, set_b, symbol))
            if nxt not in seen:
                seen.add(nxt)
                todo.append((nxt, word + symbol))
    return True, None


# --------------------------------------------------------------------------
# Reference regex reader (only the dialect that to_regex emits).
#   union   := concat ('|' concat)*
#   concat  := postfix*                (empty concat = the empty string)
#   postfix := atom ('*' | '?')*
#   atom    := symbol | '(' union ')'
# --------------------------------------------------------------------------


class RegexSyntaxError(Exception):
    pass


def regex_to_model(regex, alphabet):
    counter = itertools.count()
    delta = {}

    def edge(source, symbol, target):
        delta.setdefault((source, symbol), set()).add(target)

    pos = 0

    def parse_union():
        nonlocal pos
        start, end = next(counter), next(counter)
        while True:
            c_start, c_end = parse_concat()
            edge(start, "", c_start)
            edge(c_end, "", end)
            if pos < len(regex) and regex[pos] == "|":
                pos += 1
                continue
            return start, end

    def parse_concat():
        nonlocal pos
        start = next(counter)
        end = start
        while pos < len(regex) and regex[pos] not in "|)":
            p_start, p_end = parse_postfix()
            edge(end, "", p_start)
            end = p_end
        return start, end

    def parse_postfix():
        nonlocal pos
        start, end = parse_atom()
        while pos < len(regex) and regex[pos] in "*?":
            operator = regex[pos]
            pos += 1
            new_start, new_end = next(counter), next(counter)
            edge(new_start, "", start)
            edge(end, "", new_end)
            edge(new_start, "", new_end)
            if operator == "*":
                edge(end, "", start)
            start, end = new_start, new_end
        return start, end

    def parse_atom():
        nonlocal pos
        if pos >= len(regex):
            raise RegexSyntaxError("unexpected end")
        char = regex[pos]
        if char == "(":
            pos += 1
            start, end = parse_union()
            if pos >= len(regex) or regex[pos] != ")":
                raise RegexSyntaxError("missing )")
            pos += 1
            return start, end
        if char in "*?|)":
            raise RegexSyntaxError("unexpected %r at %d" % (char, pos))
        if char not in alphabet:
            raise RegexSyntaxError("foreign symbol %r" % char)
        pos += 1
        start, end = next(counter), next(counter)
        edge(start, char, end)
        return start, end

    start, end = parse_union()
    if pos != len(regex):
        raise RegexSyntaxError("trailing input at %d" % pos)
    return (frozenset(alphabet), delta, start, frozenset({end}))


# --------------------------------------------------------------------------
# The property check for one automaton.
# --------------------------------------------------------------------------

_WORDS = {}


def words_upto(alphabet, bound):
    key = (tuple(sorted(alphabet)), bound)
    if key not in _WORDS:
        _WORDS[key] = [
            "".join(letters)
            for length in range(bound + 1)
            for letters in itertools.product(sorted(alphabet), repeat=length)
        ]
    return _WORDS[key]


def fail(message, automaton, regex=None):
    print("PROPERTY VIOLATED:", message)
    print("  automaton:", type(automaton).__name__, dict(automaton.input_parameters))
    if regex is not None:
        print("  regex    :", repr(regex))
    sys.exit(1)


def check(automaton, word_bound=None):
    if isinstance(automaton, DFA):
        model = model_of_dfa(automaton)
        convert = GNFA.from_dfa
    else:
        model = model_of_nfa(automaton)
        convert = GNFA.from_nfa
    if not model_nonempty(model):
        return False  # outside the quantifier
    alphabet = model[0]
    before = repr(sorted(map(repr, automaton.input_parameters.items())))

    gnfa = convert(automaton)
    if not isinstance(gnfa, GNFA):
        fail("conversion did not return a GNFA", automaton)
    # the GNFA is the source plus one fresh initial and one fresh final state
    if not (
        set(automaton.states) < set(gnfa.states)
        and len(gnfa.states) == len(automaton.states) + 2
        and gnfa.initial_state not in automaton.states
        and gnfa.final_state not in automaton.states
        and gnfa.initial_state != gnfa.final_state
        and gnfa.input_symbols == automaton.input_symbols
    ):
        fail("malformed GNFA %r" % (dict(gnfa.input_parameters),), automaton)
    gnfa_before = {s: dict(row) for s, row in gnfa.transitions.items()}

    regex = gnfa.to_regex()
    if not isinstance(regex, str):
        fail("to_regex did not return a str", automaton, regex)
    if regex != gnfa.to_regex():
        fail("to_regex is not repeatable on one GNFA object", automaton, regex)
    if {s: dict(row) for s, row in gnfa.transitions.items()} != gnfa_before:
        fail("to_regex mutated the GNFA", automaton, regex)
    if repr(sorted(map(repr, automaton.input_parameters.items()))) != before:
        fail("conversion mutated the source automaton", automaton, regex)

    # (1) the library's own parser accepts the string
    try:
        libregex.validate(regex)
        lib_nfa = NFA.from_regex(regex, input_symbols=automaton.input_symbols)
        NFA.from_regex(regex)
    except Exception as error:  # noqa: BLE001
        fail("library parser rejects the regex: %r" % (error,), automaton, regex)

    # (2) exact language equality, judged by the reference reader
    try:
        regex_model = regex_to_model(regex, alphabet)
    except RegexSyntaxError as error:
        fail("reference reader rejects the regex: %s" % error, automaton, regex)
    same, witness = models_equivalent(model, regex_model, alphabet)
    if not same:
        fail("languages differ on %r (reference reader)" % witness, automaton, regex)

    # (3) the automaton the library parser builds agrees word by word
    if word_bound is None:
        word_bound = {0: 0, 1: 9, 2: 6, 3: 4}.get(len(alphabet), 3)
    for word in words_upto(alphabet, word_bound):
        expected = model_accepts(model, word)
        if lib_nfa.accepts_input(word) != expected:
            fail(
                "library parser's automaton disagrees on %r (expected %s)"
                % (word, expected),
                automaton,
                regex,
            )
    return True


# --------------------------------------------------------------------------
# Inputs
# --------------------------------------------------------------------------

NAME_POOLS = [
    lambda n: list(range(n)),  # collide with the fresh names 0, 1, ...
    lambda n: list(range(1, n + 1)),
    lambda n: ["q%d" % i for i in range(n)],
    lambda n: [0, "0", 1, "1", "q", 2, (0, 1), frozenset({1})][:n],
    lambda n: [2 * i for i in range(n)],
    lambda n: [frozenset({i, i + 1}) for i in range(n)],
]


def random_names(rng, n):
    names = rng.choice(NAME_POOLS)(n)
    rng.shuffle(names)
    return names


def random_dfa(rng):
    n = rng.randint(1, 5)
    alphabet = rng.choice(["a", "ab", "ab", "abc", "01"])
    names = random_names(rng, n)
    partial = rng.random() < 0.5
    transitions = {}
    for state in names:
        row = {}
        for symbol in alphabet:
            if partial and rng.random() < 0.35:
                continue
            row[symbol] = rng.choice(names)
        transitions[state] = row
    finals = {s for s in names if rng.random() < 0.4}
    if not finals:
        finals = {rng.choice(names)}
    if rng.random() < 0.2:
        finals.add(names[0])  # final state that is the initial state
    return DFA(
        states=set(names),
        input_symbols=set(alphabet),
        transitions=transitions,
        initial_state=names[0],
        final_states=finals,
        allow_partial=True,
    )


def random_nfa(rng):
    n = rng.randint(1, 5)
    alphabet = rng.choice(["a", "ab", "ab", "abc", "01"])
    names = random_names(rng, n)
    density = rng.choice([0.15, 0.3, 0.5])
    eps_density = rng.choice([0.0, 0.2, 0.5])
    transitions = {}
    for state in names:
        row = {}
        symbols = list(alphabet) + [""]
        rng.shuffle(symbols)  # insertion order of the row is an input too
        for symbol in symbols:
            p = eps_density if symbol == "" else density
            targets = {t for t in names if rng.random() < p}
            if targets:
                row[symbol] = targets
        # the library insists on a row for the initial state; other states
        # may be missing from the transition table altogether
        if row or state == names[0] or rng.random() < 0.5:
            transitions[state] = row
    finals = {s for s in names if rng.random() < 0.35}
    if not finals:
        finals = {rng.choice(names)}
    if rng.random() < 0.2:
        finals.add(names[0])
    return NFA(
        states=set(names),
        input_symbols=set(alphabet),
        transitions=transitions,
        initial_state=names[0],
        final_states=finals,
    )


def hand_picked():
    cases = []
    # one state, final == initial, empty alphabet: language {""}
    cases.append(
        DFA(
            states={0},
            input_symbols=set(),
            transitions={0: {}},
            initial_state=0,
            final_states={0},
        )
    )
    cases.append(
        NFA(
            states={0},
            input_symbols=set(),
            transitions={},
            initial_state=0,
            final_states={0},
        )
    )
    # final state is the initial state, with a cycle back
    cases.append(
        DFA(
            states={"s", "t"},
            input_symbols={"a", "b"},
            transitions={"s": {"a": "t", "b": "s"}, "t": {"a": "s", "b": "t"}},
            initial_state="s",
            final_states={"s"},
        )
    )
    # empty-string self loop
    cases.append(
        NFA(
            states={0, 1},
            input_symbols={"a"},
            transitions={0: {"": {0}, "a": {1}}, 1: {"": {1}}},
            initial_state=0,
            final_states={1},
        )
    )
    # only an empty-string self loop on the single (initial = final) state
    cases.append(
        NFA(
            states={0},
            input_symbols={"a"},
            transitions={0: {"": {0}}},
            initial_state=0,
            final_states={0},
        )
    )
    # parallel empty-string and symbol transitions between the same states
    cases.append(
        NFA(
            states={0, 1, 2},
            input_symbols={"a", "b"},
            transitions={
                0: {"a": {1}, "b": {1}, "": {1}},
                1: {"": {2}, "a": {2}},
                2: {"b": {0}, "": {0}},
            },
            initial_state=0,
            final_states={2},
        )
    )
    # the same with the empty string listed first / in the middle
    cases.append(
        NFA(
            states={0, 1, 2},
            input_symbols={"a", "b"},
            transitions={
                0: {"": {1}, "a": {1}, "b": {1}},
                1: {"a": {2}, "": {2}, "b": {2, 1}},
                2: {"": {0, 2}},
            },
            initial_state=0,
            final_states={0},
        )
    )
    # a cycle made of empty-string transitions only
    cases.append(
        NFA(
            states={"x", "y", "z"},
            input_symbols={"a", "b"},
            transitions={
                "x": {"": {"y"}, "a": {"x"}},
                "y": {"": {"z"}, "b": {"y"}},
                "z": {"": {"x"}},
            },
            initial_state="x",
            final_states={"z"},
        )
    )
    # empty-string bypass straight to the accepting state next to a real path
    cases.append(
        NFA(
            states={0, 1, 2},
            input_symbols={"a", "b"},
            transitions={0: {"": {2, 1}, "a": {1}}, 1: {"b": {2}, "": {0}}},
            initial_state=0,
            final_states={2},
        )
    )
    # from the library's own tests
    cases.append(
        NFA(
            states={0, 1, 2, 4},
            input_symbols={"a", "b"},
            transitions={
                0: {"a": {1}, "b": {1}, "": {1}},
                1: {"a": {1, 2}, "": {2, 4}},
                2: {"": {0}, "b": {0, 4}},
            },
            initial_state=0,
            final_states={4},
        )
    )
    cases.append(
        DFA(
            states={0, 1, 2, 4},
            input_symbols={"a", "b"},
            initial_state=0,
            final_states={4},
            transitions={
                0: {"a": 1, "b": 2},
                1: {"a": 2, "b": 2},
                2: {"b": 4},
                4: {},
            },
            allow_partial=True,
        )
    )
    # all states accepting, complete DFA over three symbols
    cases.append(
        DFA(
            states={0, 1, 2},
            input_symbols={"a", "b", "c"},
            transitions={
                0: {"a": 1, "b": 2, "c": 0},
                1: {"a": 2, "b": 0, "c": 1},
                2: {"a": 0, "b": 1, "c": 2},
            },
            initial_state=0,
            final_states={0, 1, 2},
        )
    )
    # unreachable and dead states around a small accepting core
    cases.append(
        NFA(
            states={0, 1, 2, 3, 4},
            input_symbols={"a", "b"},
            transitions={
                0: {"a": {1, 3}},
                1: {"b": {0}, "": {1}},
                3: {"a": {3}, "b": {3}},
                4: {"a": {0}, "": {1}},
            },
            initial_state=0,
            final_states={1},
        )
    )
    # regexes round-tripped through the library's own constructions
    for text in ["a*", "aa*b|bba*|(cc*)(bb+)", "(a|b)*abb", "a?b?c?", "()", "(ab|a)*"]:
        nfa = NFA.from_regex(text)
        cases.append(nfa)
        cases.append(DFA.from_nfa(nfa))
        cases.append(DFA.from_nfa(nfa).minify())
    return cases


def main():
    seed = int(sys.argv[1]) if len(sys.argv) > 1 else 20260926
    count = int(sys.argv[2]) if len(sys.argv) > 2 else 3000
    rng = random.Random(seed)

    checked = skipped = 0
    for automaton in hand_picked():
        if check(automaton):
            checked += 1
        else:
            skipped += 1
    hand = checked
    if skipped:
        print("hand-picked case with empty language -- fix the demo")
        sys.exit(2)

    while checked - hand < count:
        automaton = random_dfa(rng) if rng.random() < 0.4 else random_nfa(rng)
        if check(automaton):
            checked += 1
        else:
            skipped += 1

    print(
        "property holds (%d automata checked: %d hand-picked, %d random; "
        "%d random ones skipped for having an empty language)"
        % (checked, hand, checked - hand, skipped)
    )


if __name__ == "__main__":
    main()
