#!/usr/bin/env python
"""
Property C11 -- regex validation and comparison helpers agree with compilation
and are exact.

Run as:  PYTHONPATH=<tree> /venv/bin/python demo.py

What is checked (against references written in this file, independent of the
library):

 (A) For token sequences built from the documented tokens (symbols, the infix
     operators | & ^, the postfix operators * + ?, the wildcard, parentheses,
     well-formed repetition tokens {m,n} {m,} {,n} {,}, blanks) -- every
     sequence up to length 3 over a reduced token set, a few thousand random
     longer ones, and a hand-picked list --

         regex.validate(s) passes  <=>  s is in the regex grammar (recursive
         descent reference parser below)  <=>  NFA.from_regex(s) succeeds,

     an invalid sequence is reported with a RegexException subclass (for
     validate: InvalidRegexError, as documented) and never another exception,
     and for valid s the compiled NFA accepts exactly the words (up to a length
     bound) of the language denoted by s (Brzozowski-derivative reference).

 (B) For pairs of valid expressions over the common alphabet {a, b}:
     isequal / issubset / issuperset return exactly whether the denoted
     languages are equal / included (decided by a bisimulation on Brzozowski
     derivatives, an exact decision procedure).

Prints "property holds" and exits 0 on success; prints the counterexample and
exits 1 otherwise.
"""

import itertools
import random
import sys

import automata.base.exceptions as exceptions
import automata.regex.regex as re_lib
from automata.fa.nfa import NFA

ALPHABET = ("a", "b")
INFIX = ("|", "&", "^")
POSTFIX = ("*", "+", "?")
QUANTS_OK = ("{1,2}", "{,2}", "{2,}", "{,}", "{0,0}", "{1,1}", "{0,1}", "{2,3}", "{0,}")
QUANTS_BAD = ("{2,1}", "{3,0}")  # numeric but inconsistent bounds: not in grammar
BLANKS = (" ", "\t")


# --------------------------------------------------------------------------
# Reference 1: the regex grammar (recursive descent on the token sequence)
# --------------------------------------------------------------------------
class NotInGrammar(Exception):
    pass


def quant_bounds(tok):
    lo, hi = tok[1:-1].split(",")
    return (int(lo) if lo else 0), (int(hi) if hi else None)


def ref_parse(tokens):
    """tokens: list of non-blank tokens.  Returns a syntax tree or raises
    NotInGrammar.

        top    := <nothing> | expr
        expr   := term (('|' | '&' | '^') term)*        (left associative)
        term   := factor factor*
        factor := atom (postfix-operator | repetition)*
        atom   := symbol | '.' | '(' ')' | '(' expr ')'
    """
    pos = 0

    def peek():
        return tokens[pos] if pos < len(tokens) else None

    def atom():
        nonlocal pos
        t = peek()
        if t in ALPHABET:
            pos += 1
            return ("sym", t)
        if t == ".":
            pos += 1
            return ("any",)
        if t == "(":
            pos += 1
            if peek() == ")":
                pos += 1
                return ("eps",)
            node = expr()
            if peek() != ")":
                raise NotInGrammar
            pos += 1
            return node
        raise NotInGrammar

    def factor():
        nonlocal pos
        node = atom()
        while True:
            t = peek()
            if t in POSTFIX:
                node = (t, node)
            elif t is not None and t.startswith("{"):
                lo, hi = quant_bounds(t)
                if lo < 0 or (hi is not None and hi < lo):
                    raise NotInGrammar
                node = ("rep", node, lo, hi)
            else:
                return node
            pos += 1

    def term():
        node = factor()
        while peek() in ALPHABET or peek() in (".", "("):
            node = ("cat", node, factor())
        return node

    def expr():
        nonlocal pos
        node = term()
        while peek() in INFIX:
            op = peek()
            pos += 1
            node = (op, node, term())
        return node

    if not tokens:
        return ("eps",)
    # ill-formed repetition tokens make the whole sequence invalid wherever
    # they stand
    for t in tokens:
        if t.startswith("{"):
            lo, hi = quant_bounds(t)
            if lo < 0 or (hi is not None and hi < lo):
                raise NotInGrammar
    tree = expr()
    if pos != len(tokens):
        raise NotInGrammar
    return tree


# --------------------------------------------------------------------------
# Reference 2: languages via Brzozowski derivatives
# --------------------------------------------------------------------------
EMPTY = ("0",)
EPS = ("1",)


def mk_union(items):
    flat = set()
    for r in items:
        if r[0] == "|":
            flat |= r[1]
        elif r != EMPTY:
            flat.add(r)
    if not flat:
        return EMPTY
    if len(flat) == 1:
        return next(iter(flat))
    return ("|", frozenset(flat))


def mk_inter(items):
    flat = set()
    for r in items:
        if r == EMPTY:
            return EMPTY
        if r[0] == "&":
            flat |= r[1]
        else:
            flat.add(r)
    if len(flat) == 1:
        return next(iter(flat))
    return ("&", frozenset(flat))


def mk_cat(r, s):
    if r == EMPTY or s == EMPTY:
        return EMPTY
    if r == EPS:
        return s
    if s == EPS:
        return r
    return (".", r, s)


def mk_star(r):
    if r == EMPTY or r == EPS:
        return EPS
    if r[0] == "*":
        return r
    return ("*", r)


def mk_shuffle(r, s):
    if r == EMPTY or s == EMPTY:
        return EMPTY
    if r == EPS:
        return s
    if s == EPS:
        return r
    return ("^", r, s)


_nullable_cache = {}


def nullable(r):
    res = _nullable_cache.get(r)
    if res is None:
        k = r[0]
        if k == "0" or k == "s":
            res = False
        elif k == "1" or k == "*":
            res = True
        elif k == "|":
            res = any(nullable(x) for x in r[1])
        elif k == "&":
            res = all(nullable(x) for x in r[1])
        else:  # "." and "^"
            res = nullable(r[1]) and nullable(r[2])
        _nullable_cache[r] = res
    return res


_deriv_cache = {}


def deriv(r, c):
    key = (r, c)
    res = _deriv_cache.get(key)
    if res is None:
        k = r[0]
        if k == "0" or k == "1":
            res = EMPTY
        elif k == "s":
            res = EPS if r[1] == c else EMPTY
        elif k == "|":
            res = mk_union(deriv(x, c) for x in r[1])
        elif k == "&":
            res = mk_inter([deriv(x, c) for x in r[1]])
        elif k == ".":
            res = mk_cat(deriv(r[1], c), r[2])
            if nullable(r[1]):
                res = mk_union([res, deriv(r[2], c)])
        elif k == "*":
            res = mk_cat(deriv(r[1], c), r)
        else:  # shuffle
            res = mk_union(
                [mk_shuffle(deriv(r[1], c), r[2]), mk_shuffle(r[1], deriv(r[2], c))]
            )
        _deriv_cache[key] = res
    return res


def denote(tree, alphabet=ALPHABET):
    """Syntax tree -> derivative-engine term."""
    k = tree[0]
    if k == "sym":
        return ("s", tree[1])
    if k == "any":
        return mk_union(("s", c) for c in alphabet)
    if k == "eps":
        return EPS
    if k == "cat":
        return mk_cat(denote(tree[1], alphabet), denote(tree[2], alphabet))
    if k == "|":
        return mk_union([denote(tree[1], alphabet), denote(tree[2], alphabet)])
    if k == "&":
        return mk_inter([denote(tree[1], alphabet), denote(tree[2], alphabet)])
    if k == "^":
        return mk_shuffle(denote(tree[1], alphabet), denote(tree[2], alphabet))
    r = denote(tree[1], alphabet)
    if k == "*":
        return mk_star(r)
    if k == "+":
        return mk_cat(r, mk_star(r))
    if k == "?":
        return mk_union([r, EPS])
    assert k == "rep"
    lo, hi = tree[2], tree[3]
    res = EPS
    for _ in range(lo):
        res = mk_cat(res, r)
    if hi is None:
        return mk_cat(res, mk_star(r))
    tail = EPS
    for _ in range(hi - lo):
        # (r (r (r)?)?)?  keeps the term small
        tail = mk_union([mk_cat(r, tail), EPS])
    return mk_cat(res, tail)


def ref_accepts(term, word):
    for c in word:
        term = deriv(term, c)
    return nullable(term)


def ref_included(r, s, alphabet=ALPHABET, cap=200000):
    """Exact: L(r) subset of L(s)?  Explore reachable pairs of derivatives."""
    seen = {(r, s)}
    todo = [(r, s)]
    while todo:
        x, y = todo.pop()
        if nullable(x) and not nullable(y):
            return False
        for c in alphabet:
            p = (deriv(x, c), deriv(y, c))
            if p[0] == EMPTY:
                continue
            if p not in seen:
                seen.add(p)
                todo.append(p)
                if len(seen) > cap:
                    raise RuntimeError("reference inclusion check blew up")
    return True


# --------------------------------------------------------------------------
# Library side
# --------------------------------------------------------------------------
def fail(msg):
    print("PROPERTY VIOLATED:", msg)
    sys.exit(1)


def lib_validates(s):
    try:
        res = re_lib.validate(s)
    except exceptions.InvalidRegexError:
        return False
    except exceptions.RegexException as e:
        fail(f"validate({s!r}) raised undocumented regex error {e!r}")
    except Exception as e:  # noqa
        fail(f"validate({s!r}) raised arbitrary exception {type(e).__name__}: {e}")
    if res is not None:
        fail(f"validate({s!r}) returned {res!r}")
    return True


def lib_compiles(s, input_symbols):
    try:
        return NFA.from_regex(s, input_symbols=input_symbols)
    except exceptions.RegexException:
        return None
    except Exception as e:  # noqa
        fail(f"from_regex({s!r}) raised arbitrary exception {type(e).__name__}: {e}")


WORDS = [
    "".join(w) for n in range(0, 6) for w in itertools.product(ALPHABET, repeat=n)
]

stats = {"sequences": 0, "valid": 0, "invalid": 0, "pairs": 0}
_checked = set()


def check_sequence(tokens):
    """tokens may contain blanks."""
    s = "".join(tokens)
    if s in _checked:
        return None
    _checked.add(s)
    stats["sequences"] += 1
    core = [t for t in tokens if t not in BLANKS]
    try:
        tree = ref_parse(core)
    except NotInGrammar:
        tree = None
    in_grammar = tree is not None

    valid = lib_validates(s)
    if valid != in_grammar:
        fail(f"validate({s!r}) says valid={valid}, grammar says {in_grammar}")
    # documented private companion must agree, too
    if re_lib._validate(s) != in_grammar:
        fail(f"_validate({s!r}) disagrees with the grammar ({in_grammar})")

    nfa_default = lib_compiles(s, None)
    if (nfa_default is not None) != in_grammar:
        fail(f"from_regex({s!r}) compiles={nfa_default is not None}, grammar={in_grammar}")
    nfa = lib_compiles(s, frozenset(ALPHABET))
    if (nfa is not None) != in_grammar:
        fail(
            f"from_regex({s!r}, input_symbols=ab) compiles={nfa is not None}, "
            f"grammar={in_grammar}"
        )

    if not in_grammar:
        stats["invalid"] += 1
        return None
    stats["valid"] += 1
    term = denote(tree)
    for w in WORDS:
        if nfa.accepts_input(w) != ref_accepts(term, w):
            fail(f"NFA of {s!r} and reference language differ on word {w!r}")
    return term


def check_pair(s1, t1, s2, t2):
    stats["pairs"] += 1
    sub = ref_included(t1, t2)
    sup = ref_included(t2, t1)
    kw = {"input_symbols": frozenset(ALPHABET)}
    got = (
        re_lib.isequal(s1, s2, **kw),
        re_lib.issubset(s1, s2, **kw),
        re_lib.issuperset(s1, s2, **kw),
    )
    want = (sub and sup, sub, sup)
    for g in got:
        if type(g) is not bool:
            fail(f"comparison of {s1!r}, {s2!r} returned non-bool {g!r}")
    if got != want:
        fail(
            f"(isequal, issubset, issuperset)({s1!r}, {s2!r}) = {got}, "
            f"languages say {want}"
        )


# --------------------------------------------------------------------------
# Input generation
# --------------------------------------------------------------------------
def with_blanks(rng, tokens, p=0.15):
    out = []
    for t in tokens:
        while rng.random() < p:
            out.append(rng.choice(BLANKS))
        out.append(t)
    while rng.random() < p:
        out.append(rng.choice(BLANKS))
    return out


def random_sequence(rng, max_len):
    """Arbitrary (mostly invalid) token sequence."""
    pool = (
        list(ALPHABET) * 3
        + list(INFIX)
        + list(POSTFIX)
        + ["(", ")", "(", ")", "."]
        + [rng.choice(QUANTS_OK), rng.choice(QUANTS_OK + QUANTS_BAD)]
    )
    return [rng.choice(pool) for _ in range(rng.randint(0, max_len))]


def random_valid(rng, depth):
    """Token list of a random expression of the grammar."""
    if depth <= 0:
        r = rng.random()
        if r < 0.7:
            return [rng.choice(ALPHABET)]
        if r < 0.85:
            return ["."]
        return ["(", ")"]
    r = rng.random()
    if r < 0.25:
        return random_valid(rng, depth - 1) + random_valid(rng, depth - 1)
    if r < 0.50:
        left = random_valid(rng, depth - 1)
        right = random_valid(rng, depth - 1)
        op = rng.choice(INFIX) if rng.random() < 0.5 else "|"
        toks = left + [op] + right
        return ["("] + toks + [")"] if rng.random() < 0.7 else toks
    if r < 0.75:
        inner = random_valid(rng, depth - 1)
        if len(inner) > 1:
            inner = ["("] + inner + [")"]
        post = rng.choice(POSTFIX + (rng.choice(QUANTS_OK),))
        return inner + [post]
    if r < 0.85:
        return ["("] + random_valid(rng, depth - 1) + [")"]
    return random_valid(rng, depth - 1)


def mutate(rng, tokens):
    """Small random edit of a valid token list: usually breaks it."""
    toks = list(tokens)
    pool = list(INFIX) + list(POSTFIX) + ["(", ")", "a", "."] + list(QUANTS_OK[:3]) + list(QUANTS_BAD)
    kind = rng.randrange(3)
    if kind == 0 and toks:
        del toks[rng.randrange(len(toks))]
    elif kind == 1:
        toks.insert(rng.randint(0, len(toks)), rng.choice(pool))
    elif toks:
        toks[rng.randrange(len(toks))] = rng.choice(pool)
    return toks


HAND_PICKED = [
    "", " ", "\t \t", "()", "( )", "(())", "()()", "a()", "()a", "()*", "()|()",
    "a", "ab", "a b", " a\tb ", "a|b", "a&b", "a^b", "a.b", ".", "..", ".*",
    "(a|b)*", "(a|b)+", "(ab)?", "a**", "a*+?", "a?*", "(a*)*", "((a))", "(a)(b)",
    "a{1,2}", "a{,2}", "a{2,}", "a{,}", "a{0,0}", "a{1,1}", "(ab){2,3}", "a{1,2}{2,}",
    "a*{2,}", "a{2,}*", "(a|b){2,3}", "(a^b){1,2}", "(a&a){2,}", "()?", "(){2,}",
    "a{2,1}", "a{3,0}", "{1,2}", "({1,2})", "a|{1,2}", "(a){2,1}", "{2,1}",
    "(", ")", ")(", "(()", "())", "((a)", "(a))", "(a", "a)", "a(", ")a",
    "*", "*a", "+a", "?a", "|", "a|", "|a", "a||b", "a|&b", "a&", "&a", "^a", "a^",
    "a|*", "a&+", "a^?", "(*a)", "(+)", "(|a)", "(a|)", "(&)", "a|)", "(a|b", "a|b)",
    "a(|b)", "a|(b", "a.|b", ".|.", ".&a", "(.)^a", "a^b^a", "a|b&a", "a&b|a",
    "ab|ba", "ab&ba", "ab^ba", "a*b*", "(a*b*)*", "(a|b)*a(a|b)", "a+b?a{1,2}",
    "(a|())b", "(()|a)b", "()(", ")()", "a ) (", "( a | b ) *", "a {1,2}",
    "a\t{,2}", "a* *", "a | | b",
]

PAIR_EXPRS = [
    "", "()", "a", "b", "ab", "ba", "a|b", "b|a", "a*", "a+", "a?", "(a|b)*", ".*",
    "(a*b*)*", "a*b*", "b*a*", "(ab)*", "a(ba)*b|()", "a{1,2}", "a|aa", "a{2,}", "aaa*",
    "a{,2}", "()|a|aa", "a{0,0}", "a{,}", "a^b", "ab|ba", "a&b", "a&a", "(a|b)&a",
    ".", "..", "(a|b)(a|b)", ".{2,3}", "..|...", "a*&(aa)*", "(aa)*", "(a|b)*a",
    "(a|b)*a(a|b)*", "(a|b)+", "(a|b)(a|b)*", "a^a", "aa", "ab^a", "aab|aba|baa",
    "(a^b)*", "(ab|ba)*", "a*^b*", "(a|b)*&.*a", ".*a", "a+b+", "aa*bb*", "(a?){2,3}",
    "(a+)?", "(a*)+", "a**",
]


def main():
    rng = random.Random(110011)
    terms = {}  # valid expression string -> reference term

    def run(tokens):
        term = check_sequence(tokens)
        if term is not None:
            terms["".join(tokens)] = term

    # hand picked (the strings are split into characters/repetition tokens by
    # a tiny tokenizer so that blanks are kept)
    def tokenize(s):
        out, i = [], 0
        while i < len(s):
            if s[i] == "{":
                j = s.index("}", i)
                out.append(s[i : j + 1])
                i = j + 1
            else:
                out.append(s[i])
                i += 1
        return out

    for s in HAND_PICKED + PAIR_EXPRS:
        run(tokenize(s))

    # every sequence up to length 3 over a reduced token set (+ length 4 over
    # a still smaller one)
    small = ["a", ".", "|", "&", "*", "?", "(", ")", "{1,2}", "{2,1}", " "]
    for n in range(0, 4):
        for toks in itertools.product(small, repeat=n):
            run(list(toks))
    tiny = ["a", "|", "*", "(", ")", "{,2}"]
    for toks in itertools.product(tiny, repeat=4):
        run(list(toks))

    # random arbitrary sequences
    for _ in range(1500):
        run(with_blanks(rng, random_sequence(rng, 8)))
    # random valid expressions and small mutations of them
    valid_pool = []
    for _ in range(900):
        toks = random_valid(rng, rng.randint(0, 3))
        if len(toks) > 14:
            continue
        toks_b = with_blanks(rng, toks)
        run(toks_b)
        valid_pool.append("".join(toks_b))
        run(with_blanks(rng, mutate(rng, toks)))
        run(mutate(rng, mutate(rng, toks)))

    # (B) comparison helpers on pairs of valid expressions
    for s1, s2 in itertools.product(PAIR_EXPRS, repeat=2):
        check_pair(s1, terms[s1], s2, terms[s2])
    short_pool = [s for s in valid_pool if len(s) <= 16]
    for _ in range(1200):
        s1, s2 = rng.choice(short_pool), rng.choice(short_pool)
        check_pair(s1, terms[s1], s2, terms[s2])
    # related pairs (one side a sub-/superlanguage by construction)
    for _ in range(400):
        s1, s2 = rng.choice(short_pool), rng.choice(short_pool)
        u = f"({s1})|({s2})"
        run(tokenize(u))
        check_pair(s1, terms[s1], u, terms[u])
        i = f"({s1})&({s2})"
        run(tokenize(i))
        check_pair(i, terms[i], s2, terms[s2])

    print(
        f"checked {stats['sequences']} token sequences "
        f"({stats['valid']} valid, {stats['invalid']} invalid) and "
        f"{stats['pairs']} expression pairs"
    )
    print("property holds")


if __name__ == "__main__":
    main()
