-- Driver executable drv_dfa_query (C13, C14, C20).
import AutomataVerif.Driver.DfaQuery
def main : IO Unit := do
  AV.Proto.loop (← IO.getStdin) (← IO.getStdout) AV.Driver.DfaQuery.handle
