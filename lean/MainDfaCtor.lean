import AutomataVerif.Driver.DfaCtor
def main : IO Unit := do
  AV.Proto.loop (← IO.getStdin) (← IO.getStdout) AV.Driver.DfaCtor.handle
