-- Driver executable drv_dfa_ctor (stub until its family is implemented).
import AutomataVerif.Driver.Proto
def main : IO Unit := do
  AV.Proto.loop (← IO.getStdin) (← IO.getStdout) fun cmd _ =>
    if cmd == "PING" then .ok "pong" else .error s!"unknown command {cmd}"
