/-
Props/C06.lean — C06: DFA language comparisons, emptiness and finiteness decisions are exact.

English statement (properties.jsonl): for any two DFAs over the same alphabet, ==, !=, <=,
<, >=, >, issubset, issuperset and isdisjoint return precisely whether the two languages
are equal, included, strictly included or disjoint; isempty and isfinite return precisely
whether the language is empty or finite.  The answers do not depend on state names, on
unreachable or dead states, or on whether either operand is partial.

`Lang d = {w | d.accepts w = true}` where `DFA.accepts` is the verdict tied to Mathlib's
`DFA.accepts` by C01.  "Valid" is `validate = .ok ()`; `PyShape` says the value came from
Python sets and dicts (no duplicate set elements / dict keys).  There is no bound on sizes.

Model functions (Model/DFACompare.lean): `eqv` (`__eq__`, Hopcroft–Karp with union–find,
`none` = `NotImplemented`), `issubset`, `isdisjoint` (`_find_state` over the lazy product;
`issuperset(A, B)` is literally `B.issubset(A)` in the code), `isempty`, `isfinite` (via
`maximum_word_length` on the trimmed digraph), `compareAll` (the nine answers; `!=` is
Python's default negation of `==`, `<` is `<= and !=`, `>` is `>= and !=`).

Independence from names, unreachable / dead states and partiality: every theorem below
characterises the answer purely through `accepts` (through `Lang`), and its hypotheses
(validity, same alphabet, `PyShape`) do not mention completeness, reachability or the state
type.  `C06_answers_depend_on_languages_only` states this explicitly: operands with the same
languages — over possibly different state types — get the same nine answers.
-/
import AutomataVerif.Proofs.CompareEq
import AutomataVerif.Proofs.CompareEqPick
import AutomataVerif.Proofs.CompareFinite
import Mathlib.Data.Set.Finite.Basic

namespace AV.Props.C06
open AV AV.DFA

variable {σ σ' α : Type} [DecidableEq σ] [DecidableEq σ'] [DecidableEq α]

/-- The language of a DFA definition. -/
def Lang (d : AV.DFA σ α) : Set (List α) := {w | d.accepts w = true}

theorem mem_Lang (d : AV.DFA σ α) (w : List α) : w ∈ Lang d ↔ d.accepts w = true := Iff.rfl

theorem Lang_eq_iff (A : AV.DFA σ α) (B : AV.DFA σ' α) :
    Lang A = Lang B ↔ ∀ w, A.accepts w = B.accepts w := by
  constructor
  · intro h w
    have := Set.ext_iff.mp h w
    simp only [mem_Lang] at this
    cases hA : A.accepts w <;> cases hB : B.accepts w <;> simp [hA, hB] at this ⊢
  · intro h
    ext w
    simp only [mem_Lang, h w]

/-! ## emptiness -/

/-- **`isempty` is exact**: on a valid DFA it answers `True` iff no word is accepted. -/
theorem C06_isempty_iff (d : AV.DFA σ α) (hv : d.validate = .ok ()) (pd : d.PyShape) :
    d.isempty = true ↔ ∀ w, d.accepts w = false :=
  isempty_iff d hv pd

/-- `isempty` in terms of the language. -/
theorem C06_isempty_lang (d : AV.DFA σ α) (hv : d.validate = .ok ()) (pd : d.PyShape) :
    d.isempty = true ↔ Lang d = ∅ := by
  rw [C06_isempty_iff d hv pd, Set.eq_empty_iff_forall_notMem]
  simp only [mem_Lang, Bool.not_eq_true]

/-! ## inclusion and disjointness (counter-example search over the lazy product) -/

/-- **`issubset` (and `<=`) is exact**: whatever `A.issubset(B)` returns is `True` iff
every word accepted by `A` is accepted by `B` — in particular when `B` runs into its
implicit trap while `A` continues, and vice versa. -/
theorem C06_issubset_iff (A B : AV.DFA σ α) (hA : A.validate = .ok ()) (hB : B.validate = .ok ())
    (pA : A.PyShape) (hs : A.symsEq B = true) {b : Bool} (h : A.issubset B = .ok b) :
    b = true ↔ ∀ w, A.accepts w = true → B.accepts w = true := by
  obtain ⟨b', hb', hiff⟩ := issubset_spec A B hA hB pA hs
  rw [hb'] at h; cases h; exact hiff

/-- **`issuperset` (and `>=`) is exact**: `A.issuperset(B)` is `B.issubset(A)` in the code. -/
theorem C06_issuperset_iff (A B : AV.DFA σ α) (hA : A.validate = .ok ()) (hB : B.validate = .ok ())
    (pB : B.PyShape) (hs : A.symsEq B = true) {b : Bool} (h : B.issubset A = .ok b) :
    b = true ↔ ∀ w, B.accepts w = true → A.accepts w = true :=
  C06_issubset_iff B A hB hA pB (symsEq_symm hs) h

/-- **`isdisjoint` is exact**: the answer is `True` iff no word is accepted by both. -/
theorem C06_isdisjoint_iff (A B : AV.DFA σ α) (hA : A.validate = .ok ()) (hB : B.validate = .ok ())
    (pA : A.PyShape) (hs : A.symsEq B = true) {b : Bool} (h : A.isdisjoint B = .ok b) :
    b = true ↔ ∀ w, ¬ (A.accepts w = true ∧ B.accepts w = true) := by
  obtain ⟨b', hb', hiff⟩ := isdisjoint_spec A B hA hB pA hs
  rw [hb'] at h; cases h; exact hiff

/-! ## equality (Hopcroft–Karp) -/

/-- **`==` is exact**: whatever Boolean `A == B` returns is `True` iff both DFAs give the
same verdict on every word.  `DFA.eqv` is the loop with ONE fixed linking direction of the
union–find (`HK.hkLoop_iff`); networkx links by weight, so the statement about the code's
loop is `C06_eq_iff_pick` below (every representative choice), and
`C06_eq_pick_independent` says that `eqv` is the common value. -/
theorem C06_eq_iff (A B : AV.DFA σ α) (hA : A.validate = .ok ()) (hB : B.validate = .ok ())
    (hs : A.symsEq B = true) {b : Bool} (h : A.eqv B = some b) :
    b = true ↔ ∀ w, A.accepts w = B.accepts w := by
  obtain ⟨b', hb', hiff⟩ := eqv_spec A B hA hB hs
  rw [hb'] at h; cases h; exact hiff

/-- **`==` is exact for every union–find policy.**  `eqvPick pick` is `__eq__` run through
the generic loop `HKG.run` whose `union` lets `pick` decide which of the two roots survives
(networkx: the heavier class, ties by set-iteration order — `HKG.nxPick tie` for any `tie`).
For every `pick`, valid operands over one alphabet get a Boolean (neither `NotImplemented`
nor out of fuel) and it is `True` iff both DFAs give the same verdict on every word. -/
theorem C06_eq_iff_pick
    (pick : HKG.UF (EqState σ) → EqState σ → EqState σ → Bool)
    (A B : AV.DFA σ α) (hA : A.validate = .ok ()) (hB : B.validate = .ok ())
    (hs : A.symsEq B = true) :
    ∃ b, A.eqvPick pick B = .val b ∧ (b = true ↔ ∀ w, A.accepts w = B.accepts w) :=
  EqPick.eqvPick_spec pick A B hA hB hs

/-- The networkx policy is an instance (any tie-break). -/
theorem C06_eq_iff_nx (tie : EqState σ → EqState σ → Bool)
    (A B : AV.DFA σ α) (hA : A.validate = .ok ()) (hB : B.validate = .ok ())
    (hs : A.symsEq B = true) :
    ∃ b, A.eqvNx tie B = .val b ∧ (b = true ↔ Lang A = Lang B) := by
  obtain ⟨b, hb, hiff⟩ := C06_eq_iff_pick (HKG.nxPick tie) A B hA hB hs
  exact ⟨b, hb, by rw [hiff, Lang_eq_iff]⟩

/-- **The answer of `==` does not depend on the union–find's choices**, and the
fixed-direction loop `eqv` used by `compareAll` (and by the driver) is that common value:
on valid operands over one alphabet `eqvPick pick A B = val b ↔ eqv A B = some b`. -/
theorem C06_eq_pick_independent
    (pick : HKG.UF (EqState σ) → EqState σ → EqState σ → Bool)
    (A B : AV.DFA σ α) (hA : A.validate = .ok ()) (hB : B.validate = .ok ())
    (hs : A.symsEq B = true) :
    ∃ b, A.eqvPick pick B = .val b ∧ A.eqv B = some b := by
  obtain ⟨b, hb, hiff⟩ := C06_eq_iff_pick pick A B hA hB hs
  obtain ⟨b', hb', hiff'⟩ := eqv_spec A B hA hB hs
  refine ⟨b, hb, ?_⟩
  rw [hb']
  have : b' = b := by
    cases b <;> cases b' <;> simp_all
  rw [this]

/-- For every `pick`, `NotImplemented` exactly when the alphabets differ. -/
theorem C06_eq_pick_notimplemented_iff
    (pick : HKG.UF (EqState σ) → EqState σ → EqState σ → Bool) (A B : AV.DFA σ α) :
    A.eqvPick pick B = .notImplemented ↔ A.symsEq B = false :=
  EqPick.eqvPick_notImplemented_iff pick A B

/-- `==` returns `NotImplemented` exactly when the alphabets differ. -/
theorem C06_eq_notimplemented_iff (A B : AV.DFA σ α) : A.eqv B = none ↔ A.symsEq B = false :=
  eqv_none_iff A B

/-- On valid operands over one alphabet all four primitive comparisons return a Boolean
(no exception, no `NotImplemented`). -/
theorem C06_defined (A B : AV.DFA σ α) (hA : A.validate = .ok ()) (hB : B.validate = .ok ())
    (pA : A.PyShape) (pB : B.PyShape) (hs : A.symsEq B = true) :
    (∃ b, A.eqv B = some b) ∧ (∃ b, A.issubset B = .ok b) ∧ (∃ b, B.issubset A = .ok b) ∧
    (∃ b, A.isdisjoint B = .ok b) := by
  obtain ⟨b1, h1, _⟩ := eqv_spec A B hA hB hs
  obtain ⟨b2, h2, _⟩ := issubset_spec A B hA hB pA hs
  obtain ⟨b3, h3, _⟩ := issubset_spec B A hB hA pB (symsEq_symm hs)
  obtain ⟨b4, h4, _⟩ := isdisjoint_spec A B hA hB pA hs
  exact ⟨⟨b1, h1⟩, ⟨b2, h2⟩, ⟨b3, h3⟩, ⟨b4, h4⟩⟩

/-- Operands over different alphabets are outside the property: `==` gives
`NotImplemented`, the product-based comparisons raise `SymbolMismatchError`. -/
theorem C06_mismatch (A B : AV.DFA σ α) (hs : A.symsEq B = false) :
    A.eqv B = none ∧ A.issubset B = .error (.lib .symbolMismatchError) ∧
    A.isdisjoint B = .error (.lib .symbolMismatchError) :=
  ⟨(eqv_none_iff A B).mpr hs, (issubset_mismatch A B hs).1, (issubset_mismatch A B hs).2⟩

/-! ## the nine answers -/

/-- **All nine comparison answers are exact.**  For valid DFAs over one alphabet
`== != <= < >= > issubset issuperset isdisjoint` all return, and they return exactly:
language equality, its negation, inclusion, strict inclusion, reverse inclusion, strict
reverse inclusion, inclusion, reverse inclusion, disjointness. -/
theorem C06_compare_all (A B : AV.DFA σ α) (hA : A.validate = .ok ()) (hB : B.validate = .ok ())
    (pA : A.PyShape) (pB : B.PyShape) (hs : A.symsEq B = true) :
    ∃ c, A.compareAll B = .ok c ∧
      (c.eq = true ↔ Lang A = Lang B) ∧
      (c.ne = true ↔ Lang A ≠ Lang B) ∧
      (c.le = true ↔ Lang A ⊆ Lang B) ∧
      (c.lt = true ↔ Lang A ⊂ Lang B) ∧
      (c.ge = true ↔ Lang B ⊆ Lang A) ∧
      (c.gt = true ↔ Lang B ⊂ Lang A) ∧
      (c.sub = true ↔ Lang A ⊆ Lang B) ∧
      (c.sup = true ↔ Lang B ⊆ Lang A) ∧
      (c.disj = true ↔ Lang A ∩ Lang B = ∅) := by
  obtain ⟨e, he, hE⟩ := eqv_spec A B hA hB hs
  obtain ⟨le, hle, hLE⟩ := issubset_spec A B hA hB pA hs
  obtain ⟨ge, hge, hGE⟩ := issubset_spec B A hB hA pB (symsEq_symm hs)
  obtain ⟨dj, hdj, hDJ⟩ := isdisjoint_spec A B hA hB pA hs
  have hE' : e = true ↔ Lang A = Lang B := by rw [hE, Lang_eq_iff]
  have hLE' : le = true ↔ Lang A ⊆ Lang B := by rw [hLE]; exact Iff.rfl
  have hGE' : ge = true ↔ Lang B ⊆ Lang A := by rw [hGE]; exact Iff.rfl
  have hDJ' : dj = true ↔ Lang A ∩ Lang B = ∅ := by
    rw [hDJ, Set.eq_empty_iff_forall_notMem]; exact Iff.rfl
  refine ⟨_, by unfold compareAll; rw [he, hle, hge, hdj], hE', ?_, hLE', ?_, hGE', ?_, hLE', hGE', hDJ'⟩
  · simp only [Bool.not_eq_true', ne_eq]
    rw [← hE']; cases e <;> simp
  · simp only [Bool.and_eq_true, Bool.not_eq_true']
    rw [Set.ssubset_iff_subset_ne, ← hLE', ne_eq, ← hE']
    cases e <;> simp
  · simp only [Bool.and_eq_true, Bool.not_eq_true']
    rw [Set.ssubset_iff_subset_ne, ← hGE', ne_eq, eq_comm (a := Lang B), ← hE']
    cases e <;> simp

/-- **Independence from names, unreachable / dead states and partiality**: operands with
the same languages (possibly over different state types) get the same nine answers. -/
theorem C06_answers_depend_on_languages_only (A B : AV.DFA σ α) (A' B' : AV.DFA σ' α)
    (hA : A.validate = .ok ()) (hB : B.validate = .ok ()) (pA : A.PyShape) (pB : B.PyShape)
    (hs : A.symsEq B = true)
    (hA' : A'.validate = .ok ()) (hB' : B'.validate = .ok ()) (pA' : A'.PyShape) (pB' : B'.PyShape)
    (hs' : A'.symsEq B' = true)
    (hLA : Lang A = Lang A') (hLB : Lang B = Lang B') :
    A.compareAll B = A'.compareAll B' := by
  obtain ⟨c, hc, h1, h2, h3, h4, h5, h6, h7, h8, h9⟩ := C06_compare_all A B hA hB pA pB hs
  obtain ⟨c', hc', g1, g2, g3, g4, g5, g6, g7, g8, g9⟩ := C06_compare_all A' B' hA' hB' pA' pB' hs'
  rw [hc, hc']
  rw [hLA, hLB] at h1 h2 h3 h4 h5 h6 h7 h8 h9
  have key : ∀ (x y : Bool) (P : Prop), (x = true ↔ P) → (y = true ↔ P) → x = y := by
    intro x y P hx hy
    cases x <;> cases y <;> simp_all
  obtain ⟨e1, e2, e3, e4, e5, e6, e7, e8, e9⟩ := c
  obtain ⟨f1, f2, f3, f4, f5, f6, f7, f8, f9⟩ := c'
  simp only at h1 h2 h3 h4 h5 h6 h7 h8 h9 g1 g2 g3 g4 g5 g6 g7 g8 g9
  rw [key _ _ _ h1 g1, key _ _ _ h2 g2, key _ _ _ h3 g3, key _ _ _ h4 g4, key _ _ _ h5 g5,
    key _ _ _ h6 g6, key _ _ _ h7 g7, key _ _ _ h8 g8, key _ _ _ h9 g9]

/-! ## finiteness -/

omit [DecidableEq α] in
/-- A finite set of words has bounded length. -/
theorem bounded_of_finite {s : Set (List α)} (h : s.Finite) : ∃ n, ∀ w ∈ s, w.length < n := by
  induction s, h using Set.Finite.induction_on with
  | empty => exact ⟨0, fun w hw => by cases hw⟩
  | @insert a s _ _ ih =>
    obtain ⟨n, hn⟩ := ih
    refine ⟨max n (a.length + 1), fun w hw => ?_⟩
    rcases hw with rfl | hw
    · omega
    · have := hn w hw; omega

/-- **`isfinite` is exact**: on a valid DFA it answers `True` iff the language is a finite
set (the empty language included: `isfinite` catches `EmptyLanguageException`). -/
theorem C06_isfinite_iff (d : AV.DFA σ α) (hv : d.validate = .ok ()) (pd : d.PyShape) :
    d.isfinite = true ↔ (Lang d).Finite := by
  have wf := (DFA.validate_eq_ok d).mp hv
  rw [isfinite_iff_bounded d hv pd]
  constructor
  · rintro ⟨n, hn⟩
    refine (List.finite_toSet (wordsLe d.syms n)).subset ?_
    intro w hw
    exact mem_wordsLe n w (Nat.le_of_lt (hn w hw)) (syms_of_accepts wf hw)
  · intro h
    obtain ⟨n, hn⟩ := bounded_of_finite h
    exact ⟨n, fun w hw => hn w hw⟩

/-- `isempty` and `isfinite` depend on the language only. -/
theorem C06_unary_depend_on_language_only (d : AV.DFA σ α) (d' : AV.DFA σ' α)
    (hv : d.validate = .ok ()) (pd : d.PyShape) (hv' : d'.validate = .ok ()) (pd' : d'.PyShape)
    (hL : Lang d = Lang d') : d.isempty = d'.isempty ∧ d.isfinite = d'.isfinite := by
  have h1 := C06_isempty_lang d hv pd
  have h2 := C06_isempty_lang d' hv' pd'
  have h3 := C06_isfinite_iff d hv pd
  have h4 := C06_isfinite_iff d' hv' pd'
  rw [hL] at h1 h3
  constructor
  · cases hx : d.isempty <;> cases hy : d'.isempty <;> simp_all
  · cases hx : d.isfinite <;> cases hy : d'.isfinite <;> simp_all

/-- Sanity corollary: over the empty alphabet every language is finite. -/
theorem C06_isfinite_empty_alphabet (d : AV.DFA σ α) (hv : d.validate = .ok ()) (pd : d.PyShape)
    (h0 : d.syms = []) : d.isfinite = true := by
  have wf := (DFA.validate_eq_ok d).mp hv
  rw [C06_isfinite_iff d hv pd]
  refine (Set.finite_singleton ([] : List α)).subset ?_
  intro w hw
  have := syms_of_accepts wf hw
  rw [h0] at this
  cases w with
  | nil => rfl
  | cons a w => exact absurd (this a (by simp)) (by simp)

/-! ## non-vacuity -/

/-- Partial: words over {0,1} ending the run in state 1 (`1` is missing from state 1). -/
def exA : AV.DFA Nat Nat :=
  { states := [0, 1], syms := [0, 1], trans := [(0, [(0, 0), (1, 1)]), (1, [(0, 0)])],
    init := 0, finals := [1], allowPartial := true }
/-- Complete: an even number of 0s. -/
def exB : AV.DFA Nat Nat :=
  { states := [0, 1], syms := [0, 1], trans := [(0, [(0, 1), (1, 0)]), (1, [(0, 0), (1, 1)])],
    init := 0, finals := [0], allowPartial := false }
/-- `exA` completed by hand, renamed, with an unreachable state 9 and the dead state 7. -/
def exA' : AV.DFA Nat Nat :=
  { states := [5, 6, 7, 9], syms := [1, 0],
    trans := [(5, [(0, 5), (1, 6)]), (6, [(0, 5), (1, 7)]), (7, [(0, 7), (1, 7)]), (9, [(0, 5), (1, 9)])],
    init := 5, finals := [6], allowPartial := false }
/-- Finite language {[], [0], [0,1]} with a dead state. -/
def exF : AV.DFA Nat Nat :=
  { states := [0, 1, 2, 3], syms := [0, 1],
    trans := [(0, [(0, 1)]), (1, [(1, 2), (0, 3)]), (2, []), (3, [(0, 3)])],
    init := 0, finals := [0, 1, 2], allowPartial := true }

/-- Language {[1]}. -/
def exOne : AV.DFA Nat Nat :=
  { states := [0, 1], syms := [0, 1], trans := [(0, [(1, 1)]), (1, [])],
    init := 0, finals := [1], allowPartial := true }
/-- Language {[]}. -/
def exEps : AV.DFA Nat Nat :=
  { states := [0], syms := [0, 1], trans := [(0, [])], init := 0, finals := [0], allowPartial := true }

theorem exA_shape : exA.PyShape := ⟨by decide, by decide, by decide, by decide, by decide⟩
theorem exB_shape : exB.PyShape := ⟨by decide, by decide, by decide, by decide, by decide⟩
theorem exA'_shape : exA'.PyShape := ⟨by decide, by decide, by decide, by decide, by decide⟩
theorem exF_shape : exF.PyShape := ⟨by decide, by decide, by decide, by decide, by decide⟩
theorem exOne_shape : exOne.PyShape := ⟨by decide, by decide, by decide, by decide, by decide⟩
theorem exEps_shape : exEps.PyShape := ⟨by decide, by decide, by decide, by decide, by decide⟩

example : exA.validate = .ok () ∧ exB.validate = .ok () ∧ exA'.validate = .ok () ∧
    exF.validate = .ok () ∧ exOne.validate = .ok () ∧ exEps.validate = .ok () := by decide
example : exA.symsEq exB = true ∧ exA.symsEq exA' = true := by decide
-- different languages, neither included in the other, not disjoint
example : exA.compareAll exB = .ok
    { eq := false, ne := true, le := false, lt := false, ge := false, gt := false, sub := false, sup := false,
      disj := false } := by decide
-- same language, different shape (partial vs complete, names, unreachable and dead states)
example : exA.compareAll exA' = .ok
    { eq := true, ne := false, le := true, lt := false, ge := true, gt := false, sub := true, sup := true,
      disj := false } := by decide
-- exF's language {[], [0], [0,1]} is not below exA's ([] is missing there), but [0,1] is common
example : exF.compareAll exA = .ok
    { eq := false, ne := true, le := false, lt := false, ge := false, gt := false, sub := false, sup := false,
      disj := false } := by decide
-- strict inclusion {[1]} ⊂ Lang exA, and disjointness {[]} ∩ Lang exA = ∅
example : exOne.compareAll exA = .ok
    { eq := false, ne := true, le := true, lt := true, ge := false, gt := false, sub := true, sup := false,
      disj := false } := by decide
example : exEps.compareAll exA = .ok
    { eq := false, ne := true, le := false, lt := false, ge := false, gt := false, sub := false, sup := false,
      disj := true } := by decide
-- the pick-parametric loop under networkx's policy with either tie-break, and under the two
-- constant policies: same answers as `eqv` (equal languages / different languages)
example : exA.eqvNx (fun _ _ => true) exA' = .val true ∧ exA.eqvNx (fun _ _ => false) exA' = .val true ∧
    exA.eqvPick (fun _ _ _ => true) exA' = .val true ∧ exA.eqvPick (fun _ _ _ => false) exA' = .val true ∧
    exA.eqvNx (fun _ _ => true) exB = .val false ∧ exA.eqvPick (fun _ _ _ => false) exB = .val false ∧
    exOne.eqvNx (fun _ _ => false) exA = .val false := by decide
example : exA.isempty = false ∧ exA.isfinite = false ∧ exF.isempty = false ∧ exF.isfinite = true ∧
    exF.maxWordLength = .ok (some 2) := by decide
example : ({ exF with finals := [3] } : AV.DFA Nat Nat).isempty = false ∧
    ({ exF with finals := [] } : AV.DFA Nat Nat).isempty = true ∧
    ({ exF with finals := [] } : AV.DFA Nat Nat).isfinite = true := by decide

end AV.Props.C06
