import AutomataVerif.Model.DFACompare
