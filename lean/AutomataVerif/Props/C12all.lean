/-
Props/C12all.lean — aggregator: the module the C12 check builds and audits. It only imports the
files that hold C12's property theorems (C12, C12b, C12c); it states nothing.
-/
import AutomataVerif.Props.C12b
import AutomataVerif.Props.C12c
import AutomataVerif.Props.C12d
