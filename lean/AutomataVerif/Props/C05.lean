/-
Props/C05.lean — C05: minimisation preserves the language and reaches the minimum state count.

English statement (properties.jsonl): minimising any DFA, directly or through the minify
option of another operation, returns a valid DFA that accepts exactly the same language and
has the fewest states any DFA of the result's own kind can have for that language: the
Myhill–Nerode index when the result is complete, and the number of non-dead residual classes
(at least one) when the result is partial, so equivalent states are always merged and a
partial result never keeps a dead state.  Minimising an already minimal DFA does not change
its size, and with retained names every result state is named by the set of original states
it merges.

Reading.  `d.minify pick` is the model of `DFA.minify(retain_names=True)` (Model/DFAOps.lean:
pre-pass `minifyKept`, Hopcroft refinement `hopcroft` with the implicit trap `none`, quotient
`minifyCore`); `pick` is the arbitrary `set.pop()` of the work-list, and every theorem holds
for every `pick`.  "Valid" is `validate = .ok ()`.  `d.PyShape` says that the value came from
Python sets and dicts (no duplicate elements / keys); without it the statements are false
for the list model (a row with a duplicate key shadows an entry for `.get` but not for the
row comprehension of `_minify`).  `accepts` is the verdict tied to Mathlib's `DFA.accepts` by
C01.  "Fewest states of its kind" is stated against every competitor `B` (any state type):
complete results against every valid complete DFA over an alphabet containing `d`'s, partial
results against the number of live states of every valid DFA (`B.liveStates`, the declared
states from which some word is accepted; `DFA.mem_coaccessible_iff_live` is the computable
reading).  The correctness of the refinement loop (`hopcroft_nerode`, Proofs/Hopcroft.lean)
and of the quotient (Proofs/MinQuotient.lean) are combined in Proofs/MinifyCorrect.lean.
-/
import AutomataVerif.Proofs.MinifyExpand
import AutomataVerif.Model.Convert
import AutomataVerif.Proofs.MinGlueSubset
import AutomataVerif.Proofs.MinRep

namespace AV.Props.C05
open AV AV.DFA

variable {σ τ α : Type} [DecidableEq σ] [DecidableEq τ] [DecidableEq α]

/-! ## `DFA.minify` -/

/-- **Language.**  Minimising a valid DFA (complete or partial, with unreachable states,
dead states entered by explicit transitions, a dead or non-final initial state, the empty or
the universal language) does not change the verdict on any word. -/
theorem C05_lang (d : AV.DFA σ α) (hv : d.validate = .ok ()) (ps : d.PyShape)
    (pick : List Nat → Nat) (w : List α) :
    (d.minify pick).accepts w = d.accepts w :=
  (minify_source ((validate_eq_ok d).mp hv) ps).accepts pick w

/-- **Validity.**  The result passes the constructor's validation (every state has a row,
rows only use alphabet symbols and declared target states, the initial and final states are
declared, and the inferred `allow_partial` flag is consistent with the rows), over the same
alphabet, and is again of Python shape. -/
theorem C05_valid (d : AV.DFA σ α) (hv : d.validate = .ok ()) (ps : d.PyShape)
    (pick : List Nat → Nat) :
    (d.minify pick).validate = .ok () ∧ (d.minify pick).syms = d.syms ∧ (d.minify pick).PyShape :=
  ⟨(minify_source ((validate_eq_ok d).mp hv) ps).valid pick, minifyCore_syms _ _ _ _ _ _,
    (minify_source ((validate_eq_ok d).mp hv) ps).pyShape pick⟩

/-- **Minimality, complete result** (Myhill–Nerode index).  When the result is complete, no
valid complete DFA `B` over an alphabet containing `d`'s that accepts the same language has
fewer (distinct) states. -/
theorem C05_minimal_complete (d : AV.DFA σ α) (hv : d.validate = .ok ()) (ps : d.PyShape)
    (pick : List Nat → Nat) (hp : (d.minify pick).allowPartial = false)
    (B : AV.DFA τ α) (hB : B.validate = .ok ()) (hBc : B.allowPartial = false)
    (hsyms : ∀ a ∈ d.syms, a ∈ B.syms) (hlang : ∀ w, B.accepts w = d.accepts w) :
    (d.minify pick).states.length ≤ (dedup B.states).length ∧
    (d.minify pick).states.length ≤ B.states.length :=
  ⟨(minify_source ((validate_eq_ok d).mp hv) ps).minimal_complete pick hp B
      ((validate_eq_ok B).mp hB) hBc hsyms hlang (dedup B.states) fun _ h => mem_dedup.mpr h,
   (minify_source ((validate_eq_ok d).mp hv) ps).minimal_complete pick hp B
      ((validate_eq_ok B).mp hB) hBc hsyms hlang B.states fun _ h => h⟩

/-- **Minimality, partial result** (number of non-dead residual classes).  When the result
is partial, every valid DFA `B` (partial or complete, any alphabet) with the same language
has at least as many live states as the result has states — so the result has at most
`max 1 (#live states of B)` states, and a fortiori at most `|B|`. -/
theorem C05_minimal_partial (d : AV.DFA σ α) (hv : d.validate = .ok ()) (ps : d.PyShape)
    (pick : List Nat → Nat) (hp : (d.minify pick).allowPartial = true)
    (B : AV.DFA τ α) (hB : B.validate = .ok ()) (hlang : ∀ w, B.accepts w = d.accepts w) :
    (d.minify pick).states.length ≤ B.liveStates.length ∧
    (d.minify pick).states.length ≤ max 1 B.liveStates.length ∧
    (d.minify pick).states.length ≤ B.states.length := by
  have h : (d.minify pick).states.length ≤ B.liveStates.length :=
    (minify_source ((validate_eq_ok d).mp hv) ps).minimal_partial pick hp B
      ((validate_eq_ok B).mp hB) hlang
  have h2 := liveStates_length_le B
  exact ⟨h, by omega, by omega⟩

/-- **A partial result never keeps a dead state**: from every state of a partial result some
word is accepted (in particular the initial state is live and the language is non-empty). -/
theorem C05_partial_no_dead (d : AV.DFA σ α) (hv : d.validate = .ok ()) (ps : d.PyShape)
    (pick : List Nat → Nat) (hp : (d.minify pick).allowPartial = true) :
    ∀ n ∈ (d.minify pick).states, ∃ w, (d.minify pick).isFinal ((d.minify pick).run (some n) w) = true :=
  (minify_source ((validate_eq_ok d).mp hv) ps).live pick hp

/-- **No unreachable and no mergeable states, whatever the kind**: the states of the result
are duplicate-free, each is reached from the initial state by some word, and two different
states are told apart by some word. -/
theorem C05_reachable_distinguishable (d : AV.DFA σ α) (hv : d.validate = .ok ()) (ps : d.PyShape)
    (pick : List Nat → Nat) :
    (d.minify pick).states.Nodup ∧
    (∀ n ∈ (d.minify pick).states,
      ∃ w, (d.minify pick).run (some (d.minify pick).init) w = some n) ∧
    (∀ n ∈ (d.minify pick).states, ∀ n' ∈ (d.minify pick).states, n ≠ n' →
      ∃ w, (d.minify pick).isFinal ((d.minify pick).run (some n) w) ≠
        (d.minify pick).isFinal ((d.minify pick).run (some n') w)) :=
  ⟨((minify_source ((validate_eq_ok d).mp hv) ps).pyShape pick).states_nodup,
   (minify_source ((validate_eq_ok d).mp hv) ps).reachable pick,
   (minify_source ((validate_eq_ok d).mp hv) ps).distinguishable pick⟩

/-- A complete input gives a complete result; the result never has more states than the input. -/
theorem C05_complete_stays_complete (d : AV.DFA σ α) (hv : d.validate = .ok ()) (ps : d.PyShape)
    (pick : List Nat → Nat) :
    (d.allowPartial = false → (d.minify pick).allowPartial = false) ∧
    (d.minify pick).states.length ≤ d.states.length :=
  ⟨fun hc => (minify_source ((validate_eq_ok d).mp hv) ps).complete_of_noTrap pick
      (minify_noTrap_of_complete ((validate_eq_ok d).mp hv) hc),
   minify_size_le ((validate_eq_ok d).mp hv) ps pick⟩

/-- **Idempotence of the size.**  Minimising an already minimised DFA (with any pop orders)
does not change the number of states, the kind or the language. -/
theorem C05_idempotent_size (d : AV.DFA σ α) (hv : d.validate = .ok ()) (ps : d.PyShape)
    (pick pick' : List Nat → Nat) :
    ((d.minify pick).minify pick').states.length = (d.minify pick).states.length := by
  have wf := (validate_eq_ok d).mp hv
  have S := minify_source wf ps
  have wfQ : (d.minify pick).WF := S.wf pick
  have psQ : (d.minify pick).PyShape := S.pyShape pick
  have S' := minify_source wfQ psQ
  have wfQ' : ((d.minify pick).minify pick').WF := S'.wf pick'
  have hle : ((d.minify pick).minify pick').states.length ≤ (d.minify pick).states.length :=
    minify_size_le wfQ psQ pick'
  have hge : (d.minify pick).states.length ≤ ((d.minify pick).minify pick').states.length := by
    cases hp : (d.minify pick).allowPartial with
    | true =>
      have h := (minimal_of_reachable_distinguishable_partial (d.minify pick)
        ((d.minify pick).minify pick') psQ.states_nodup (S.reachable pick) (S.distinguishable pick)
        (S.live pick hp) wfQ' (fun w => S'.accepts pick' w))
      exact Nat.le_trans h.1 h.2
    | false =>
      have hc' : ((d.minify pick).minify pick').allowPartial = false :=
        S'.complete_of_noTrap pick' (minify_noTrap_of_complete wfQ hp)
      refine S.minimal_complete pick hp _ wfQ' hc' ?_ ?_ _ fun _ h => h
      · intro a ha
        have h1 : ((d.minify pick).minify pick').syms = (d.minify pick).syms :=
          minifyCore_syms _ _ _ _ _ _
        have h2 : (d.minify pick).syms = d.syms := minifyCore_syms _ _ _ _ _ _
        rw [h1, h2]; exact ha
      · intro w
        have h1 : ((d.minify pick).minify pick').accepts w = (d.minify pick).accepts w :=
          S'.accepts pick' w
        rw [h1]; exact S.accepts pick w
  omega

/-- **Minimising an already minimal DFA does not change its size** — the literal clause, for
ANY minimal `d` (hand-built ones included), not only for outputs of `minify`: if the states
of `d` are reachable and pairwise distinguishable and — when `d` is declared partial — all
live (no dead state), then `minify` returns a DFA with exactly as many states, of the same
kind when `d` is complete.  (By `C05_minimal_complete` / `C05_minimal_partial` these
hypotheses are exactly "`d` has the fewest states of its kind".) -/
theorem C05_minimal_input_size (d : AV.DFA σ α) (hv : d.validate = .ok ()) (ps : d.PyShape)
    (pick : List Nat → Nat)
    (hreach : ∀ q ∈ d.states, ∃ w, d.run (some d.init) w = some q)
    (hdist : ∀ p ∈ d.states, ∀ q ∈ d.states, p ≠ q →
      ∃ w, d.isFinal (d.run (some p) w) ≠ d.isFinal (d.run (some q) w))
    (hlive : d.allowPartial = true → ∀ q ∈ d.states, ∃ w, d.isFinal (d.run (some q) w) = true) :
    (d.minify pick).states.length = d.states.length ∧
    (d.allowPartial = false → (d.minify pick).allowPartial = false) := by
  have wf := (validate_eq_ok d).mp hv
  have S := minify_source wf ps
  have hle := minify_size_le wf ps pick
  have hcomp : d.allowPartial = false → (d.minify pick).allowPartial = false :=
    fun hc => S.complete_of_noTrap pick (minify_noTrap_of_complete wf hc)
  refine ⟨?_, hcomp⟩
  have hge : d.states.length ≤ (d.minify pick).states.length := by
    cases hp : d.allowPartial with
    | true =>
      have h := minimal_of_reachable_distinguishable_partial d (d.minify pick) ps.states_nodup
        hreach hdist (hlive hp) (S.wf pick) (fun w => S.accepts pick w)
      exact Nat.le_trans h.1 h.2
    | false =>
      refine minimal_of_reachable_distinguishable_complete d (d.minify pick) wf ps.states_nodup
        hreach hdist (S.wf pick) (hcomp hp) ?_ (fun w => S.accepts pick w)
      intro a ha
      have : (d.minify pick).syms = d.syms := minifyCore_syms _ _ _ _ _ _
      rw [this]; exact ha
  omega

/-- **No `KeyError` inside `_minify`.**  `minifyCore` is a total function: it reads
`back_map[initial_state]`, `back_map[acc]`, `next(iter(eq))` and `transitions[eq_class_rep]`
through `getD` / `filterMap` / `head?`.  On the arguments `minify` passes, none of these
defaults is ever taken: whenever some class avoids the trap (otherwise `empty_language` is
returned before the look-ups), the initial state and every kept final state have a name,
every such class has a first element, and every member of it has a row.  The same holds for
every other caller of `_minify` (`AV.DFA.MinSource.no_keyerror` is stated for any
`MinSource`: `to_partial`, `complement`, the Boolean operations, `from_nfa`). -/
theorem C05_minify_no_keyerror (d : AV.DFA σ α) (hv : d.validate = .ok ()) (ps : d.PyShape)
    (pick : List Nat → Nat)
    (hne : (goodBlocks (hopcroft d.minifyKept d.syms d.trans d.minifyFinals pick)).isEmpty = false) :
    (nameOfIn (goodBlocks (hopcroft d.minifyKept d.syms d.trans d.minifyFinals pick)) d.init).isSome
      = true ∧
    (∀ f ∈ d.minifyFinals,
      (nameOfIn (goodBlocks (hopcroft d.minifyKept d.syms d.trans d.minifyFinals pick)) f).isSome
        = true) ∧
    (∀ b ∈ goodBlocks (hopcroft d.minifyKept d.syms d.trans d.minifyFinals pick),
      ∃ r row, (blockStates b.2).head? = some r ∧ alookup r d.trans = some row) ∧
    (∀ b ∈ goodBlocks (hopcroft d.minifyKept d.syms d.trans d.minifyFinals pick),
      ∀ r ∈ blockStates b.2, ∃ row, alookup r d.trans = some row) :=
  (minify_source ((validate_eq_ok d).mp hv) ps).no_keyerror pick hne

/-- `minify` with the choice of class representatives as a parameter: `repPick l` is the
position, in the list `l` of members of a class, of the state whose row is copied
(Python: `next(iter(eq))`, i.e. hash order).  `minify` itself uses the head. -/
def minifyRep (d : AV.DFA σ α) (repPick : List σ → Nat) (pick : List Nat → Nat) :
    AV.DFA (MinName σ) α :=
  minifyCoreRep repPick d.minifyKept d.syms d.trans d.init d.minifyFinals pick

/-- **The result does not depend on which member of a class represents it.**  For every
`repPick` (and every pop order `pick`) the result has the same states, initial state, final
states, `allow_partial` flag and transition function as `d.minify pick`, every row has the same
set of `(symbol, target name)` entries as the row with the same key of `d.minify pick`, and
it is valid with the language of `d`.  Hence every theorem of this file about sizes,
languages, kinds and names transfers to every choice of representatives. -/
theorem C05_rep_independent (d : AV.DFA σ α) (hv : d.validate = .ok ()) (ps : d.PyShape)
    (repPick : List σ → Nat) (pick : List Nat → Nat) :
    (minifyRep d repPick pick).states = (d.minify pick).states ∧
    (minifyRep d repPick pick).syms = d.syms ∧
    (minifyRep d repPick pick).init = (d.minify pick).init ∧
    (minifyRep d repPick pick).finals = (d.minify pick).finals ∧
    (minifyRep d repPick pick).allowPartial = (d.minify pick).allowPartial ∧
    (∀ s a, (minifyRep d repPick pick).step? s a = (d.minify pick).step? s a) ∧
    (∀ kv ∈ (minifyRep d repPick pick).trans, ∃ kv' ∈ (d.minify pick).trans, kv'.1 = kv.1 ∧
      ∀ a n, (a, n) ∈ kv.2 ↔ (a, n) ∈ kv'.2) ∧
    (∀ w, (minifyRep d repPick pick).accepts w = d.accepts w) ∧
    (minifyRep d repPick pick).validate = .ok () :=
  (minify_source ((validate_eq_ok d).mp hv) ps).rep_independent pick repPick

/-- **Equivalent states are always merged.**  Two source states with the same right language
never end up in two different states of the result. -/
theorem C05_equivalent_merged (d : AV.DFA σ α) (hv : d.validate = .ok ()) (ps : d.PyShape)
    (pick : List Nat → Nat) {p q : σ} {l l' : List σ}
    (hl : MinName.blk l ∈ (d.minify pick).states) (hl' : MinName.blk l' ∈ (d.minify pick).states)
    (hp : p ∈ l) (hq : q ∈ l')
    (heq : ∀ w, d.isFinal (d.run (some p) w) = d.isFinal (d.run (some q) w)) : l = l' := by
  have S := minify_source ((validate_eq_ok d).mp hv) ps
  rcases S.names pick _ hl with ⟨h, _⟩ | ⟨l0, h0, _, hk, hiff⟩
  · cases h
  · rcases S.names pick _ hl' with ⟨h, _⟩ | ⟨l1, h1, _, hk', _⟩
    · cases h
    · cases h0; cases h1
      have hql : q ∈ l := (hiff p hp q (hk' q hq)).mpr heq
      exact S.disjoint pick hl hl' hql hq

/-- The full naming claim of the English statement: every state of the result is named by a
set of original states.  It is FALSE for the code as it stands when the language is empty:
`_minify` then returns `empty_language`, whose only state is `0` (DESIGN.md §8 F16, naming
only); see `C05_retain_names_full_fails` and the proved `C05_retain_names_partial`. -/
def C05_retain_names_full (σ α : Type) [DecidableEq σ] [DecidableEq α] : Prop :=
  ∀ (d : AV.DFA σ α), d.validate = .ok () → d.PyShape → ∀ pick : List Nat → Nat,
    ∀ n ∈ (d.minify pick).states, ∃ l, n = MinName.blk l

/-- **Retained names.**  Every state of the result is named `blk l` where `l` is a non-empty
list of kept source states (reachable, and live or the initial state when `d` is partial)
that consists of exactly the kept states having the right language of any of its members;
different states have disjoint names; every live kept state occurs in a name.  The only
exception: when the language is empty the result may be the one-state `empty_language`
DFA whose state is named `zero` (F16). -/
theorem C05_retain_names_partial (d : AV.DFA σ α) (hv : d.validate = .ok ()) (ps : d.PyShape)
    (pick : List Nat → Nat) :
    (∀ n ∈ (d.minify pick).states,
      (n = MinName.zero ∧ (d.minify pick).states = [MinName.zero] ∧ ∀ w, d.accepts w = false) ∨
      ∃ l, n = MinName.blk l ∧ l ≠ [] ∧ (∀ q ∈ l, q ∈ d.minifyKept ∧ q ∈ d.states) ∧
        ∀ q ∈ l, ∀ q' ∈ d.minifyKept,
          (q' ∈ l ↔ ∀ w, d.isFinal (d.run (some q) w) = d.isFinal (d.run (some q') w))) ∧
    (∀ l l', MinName.blk l ∈ (d.minify pick).states → MinName.blk l' ∈ (d.minify pick).states →
      ∀ q, q ∈ l → q ∈ l' → l = l') ∧
    (∀ q ∈ d.minifyKept, (∃ w, d.isFinal (d.run (some q) w) = true) →
      ∃ l, MinName.blk l ∈ (d.minify pick).states ∧ q ∈ l) := by
  have wf := (validate_eq_ok d).mp hv
  have S := minify_source wf ps
  refine ⟨fun n hn => ?_, fun l l' hl hl' q hq hq' => S.disjoint pick hl hl' hq hq',
    fun q hq hlive => S.cover pick hq hlive⟩
  rcases S.names pick n hn with h | ⟨l, h1, h2, h3, h4⟩
  · exact Or.inl h
  · exact Or.inr ⟨l, h1, h2, fun q hq => ⟨h3 q hq, minifyKept_sub_states wf (h3 q hq)⟩, h4⟩

/-- The kept states, declaratively: the initial state, plus every state reachable from it
that (when `d` is partial) can reach a final state. -/
theorem C05_kept_states (d : AV.DFA σ α) (hv : d.validate = .ok ()) (q : σ) :
    q ∈ d.minifyKept ↔
      q = d.init ∨ (Reach d.succStates d.init q ∧ (d.allowPartial = false ∨ q ∈ d.coaccessible)) :=
  mem_minifyKept_iff ((validate_eq_ok d).mp hv)

/-! ## `minify=True` of other operations

Every other caller hands `_minify` either the pre-pass of a table (`to_partial`,
`complement`) or all states of a DFA freshly built by `_expand_dfa` (`union`, …,
`from_nfa`), all of whose states are reachable. -/

/-- `R` is a valid DFA for the language `L`, with the fewest states a DFA of its own kind
can have: if `R` is partial, every state of `R` is live and every valid DFA for `L` has at
least `|R|` live states; if `R` is complete, every valid complete DFA for `L` over an
alphabet containing `syms` has at least `|R|` states. -/
def MinimalFor {ρ : Type} [DecidableEq ρ] (R : AV.DFA ρ α) (L : List α → Bool) (syms : List α) :
    Prop :=
  R.validate = .ok () ∧ (∀ w, R.accepts w = L w) ∧
  (R.allowPartial = true →
    (∀ n ∈ R.states, ∃ w, R.isFinal (R.run (some n) w) = true) ∧
    ∀ (τ : Type) [DecidableEq τ] (B : AV.DFA τ α), B.validate = .ok () →
      (∀ w, B.accepts w = L w) → R.states.length ≤ B.liveStates.length) ∧
  (R.allowPartial = false →
    ∀ (τ : Type) [DecidableEq τ] (B : AV.DFA τ α), B.validate = .ok () → B.allowPartial = false →
      (∀ a ∈ syms, a ∈ B.syms) → (∀ w, B.accepts w = L w) → R.states.length ≤ B.states.length)

/-- `_minify` applied to any source that describes a DFA `d` (Proofs/MinifyCorrect.lean)
returns a minimal DFA of its kind for `d`'s language. -/
theorem minimalFor_of_source {d : AV.DFA σ α} {kept finals : List σ}
    (S : MinSource d kept finals) (pick : List Nat → Nat) :
    MinimalFor (minifyCore kept d.syms d.trans d.init finals pick) d.accepts d.syms :=
  ⟨S.valid pick, fun w => S.accepts pick w,
   fun hp => ⟨S.live pick hp, fun _ _ B hB hl =>
     S.minimal_partial pick hp B ((validate_eq_ok B).mp hB) hl⟩,
   fun hp _ _ B hB hBc hs hl =>
     S.minimal_complete pick hp B ((validate_eq_ok B).mp hB) hBc hs hl B.states fun _ h => h⟩

/-- Summary for `minify` itself in the same vocabulary. -/
theorem C05_minify_minimalFor (d : AV.DFA σ α) (hv : d.validate = .ok ()) (ps : d.PyShape)
    (pick : List Nat → Nat) : MinimalFor (d.minify pick) d.accepts d.syms :=
  minimalFor_of_source (minify_source ((validate_eq_ok d).mp hv) ps) pick

/-- **`to_partial(minify=True)`** of a valid DFA (partial or complete) is a valid DFA with the
same language and the fewest states of its kind. -/
theorem C05_toPartialMin (d : AV.DFA σ α) (hv : d.validate = .ok ()) (ps : d.PyShape)
    (pick : List Nat → Nat) : MinimalFor (d.toPartialMin pick) d.accepts d.syms := by
  have wf := (validate_eq_ok d).mp hv
  have wf' : ({ d with allowPartial := true } : AV.DFA σ α).WF :=
    ⟨wf.rows, fun h => (by cases h), wf.symsOk, wf.tgtOk, wf.initOk, wf.finalsOk⟩
  have ps' : ({ d with allowPartial := true } : AV.DFA σ α).PyShape :=
    ⟨ps.states_nodup, ps.syms_nodup, ps.finals_nodup, ps.keys_nodup, ps.rows_nodup⟩
  rw [toPartialMin_eq]
  exact minimalFor_of_source (minify_source wf' ps') pick

/-- **`complement(minify=True)`** of a valid complete DFA: a valid complete DFA that accepts
exactly what the plain complement accepts (C04 says that is the complement language), with
the fewest states of any complete DFA for it. -/
theorem C05_complementMin (c : AV.DFA σ α) (hv : c.validate = .ok ()) (hc : c.allowPartial = false)
    (ps : c.PyShape) (pick : List Nat → Nat) :
    MinimalFor (c.complementMin pick) c.complementPlain.accepts c.syms ∧
    (c.complementMin pick).allowPartial = false := by
  have wf := (validate_eq_ok c).mp hv
  have S := complementMin_source wf hc ps
  rw [complementMin_eq]
  exact ⟨minimalFor_of_source S pick,
    S.complete_of_noTrap pick (minify_noTrap_of_complete (complementPlain_wf wf hc) rfl)⟩

/-- **`_minify` on a trim DFA**: if `P` is valid, of Python shape and all its states are
reachable, `_minify` applied to all of `P` is minimal of its kind for `P`'s language. -/
theorem C05_minify_of_trim (P : AV.DFA σ α) (hv : P.validate = .ok ()) (ps : P.PyShape)
    (hreach : ∀ q ∈ P.states, ∃ w, P.run (some P.init) w = some q) (pick : List Nat → Nat) :
    MinimalFor (minifyCore P.states P.syms P.trans P.init P.finals pick) P.accepts P.syms :=
  minimalFor_of_source (minSource_of_trim ((validate_eq_ok P).mp hv) ps hreach) pick

/-- **`_expand_dfa(..., minify=True)`**: whenever the BFS of `_expand_dfa` is exhaustive
(`ExpandHyp`: a finite closed universe, duplicate-free rows, enough fuel) and the expansion
function only uses alphabet symbols, the minified result is minimal of its kind for the
language of the un-minified result `P`. -/
theorem C05_expandMin {S : Type} [DecidableEq S] (succ : S → List (α × S)) (isFin : S → Bool)
    (syms : List α) (fuel : Nat) (init : S) (univ : List S)
    (h : ExpandHyp succ univ fuel init) (hsyms : syms.Nodup)
    (hkeys : ∀ u ∈ univ, ∀ a ∈ akeys (succ u), a ∈ syms) (pick : List Nat → Nat) :
    MinimalFor
      (minifyCore (expand succ isFin syms fuel init).states syms
        (expand succ isFin syms fuel init).trans init (expand succ isFin syms fuel init).finals pick)
      (expand succ isFin syms fuel init).accepts syms :=
  minimalFor_of_source (expand_minSource isFin syms h hsyms hkeys) pick

/-- **`A.op(B, minify=True)`** for `op` ∈ {union, intersection, difference, symmetric
difference}, valid operands over a common alphabet, every mix of partial and complete
operands: the call succeeds and returns a valid DFA that accepts exactly what
`A.op(B, minify=False)` accepts (C04 says that is the set operation on the languages), with
the fewest states of its kind. -/
theorem C05_binopMin (op : BinOp) (A B : AV.DFA σ α) (hA : A.validate = .ok ())
    (hB : B.validate = .ok ()) (pA : A.PyShape) (hs : A.symsEq B = true) (pick : List Nat → Nat) :
    ∃ P R, binopPlain op A B = .ok P ∧ binopMin op A B pick = .ok R ∧
      MinimalFor R P.accepts A.syms := by
  obtain ⟨P, hP, hsy, S⟩ := binopPlain_minSource op A B ((validate_eq_ok A).mp hA)
    ((validate_eq_ok B).mp hB) pA hs
  refine ⟨P, minifyCore P.states P.syms P.trans P.init P.finals pick, hP, ?_, ?_⟩
  · simp [binopMin, hP]
  · rw [← hsy]; exact minimalFor_of_source S pick

/-- The full claim for `DFA.from_nfa(n, minify=True)`: for every valid NFA of Python shape the
result is minimal of its kind for the language of `DFA.from_nfa(n, minify=False)`.  Proved
below: first up to the exhaustiveness of the subset construction's BFS (`C05_toDFAMin_partial`),
which belongs to C07, then with C07's proof of it (`C05_toDFAMin`, `C05_toDFAMin_full_holds`). -/
def C05_toDFAMin_full (σ α : Type) [DecidableEq σ] [DecidableEq α] : Prop :=
  ∀ (n : AV.NFA σ α), n.validate = .ok () → n.PyShape → ∀ pick : List Nat → Nat,
    MinimalFor (n.toDFAMin pick) n.toDFA.accepts n.syms

/-- **`DFA.from_nfa(n, minify=True)`**: whenever the subset construction's BFS is exhaustive
(`ExpandHyp`, to be supplied by the proof of C07), the result is minimal of its kind for the
language of `DFA.from_nfa(n, minify=False)`. -/
theorem C05_toDFAMin_partial (n : AV.NFA σ α) (univ : List (List σ))
    (h : ExpandHyp n.subsetSucc univ (2 ^ n.states.length + 1) (n.canon (n.closure n.init)))
    (hsyms : n.syms.Nodup) (hkeys : ∀ u ∈ univ, ∀ a ∈ akeys (n.subsetSucc u), a ∈ n.syms)
    (pick : List Nat → Nat) :
    MinimalFor (n.toDFAMin pick) n.toDFA.accepts n.syms :=
  minimalFor_of_source (expand_minSource n.subsetFinal n.syms h hsyms hkeys) pick

/-- **`DFA.from_nfa(n, minify=True)`, unconditionally.**  For every valid NFA of Python shape
and every pop order, the result is a valid DFA, minimal of its kind for the language of
`DFA.from_nfa(n, minify=False)`.  The exhaustiveness of the subset construction's BFS is
C07's `subset_expandHyp` (universe: all sublists of `n.states`, `2 ^ |states|` of them). -/
theorem C05_toDFAMin (n : AV.NFA σ α) (hv : n.validate = .ok ()) (ps : n.PyShape)
    (pick : List Nat → Nat) : MinimalFor (n.toDFAMin pick) n.toDFA.accepts n.syms :=
  C05_toDFAMin_partial n (AV.C07.powerset n.states) (AV.C07.subset_expandHyp n _) ps.syms_nodup
    (fun u _ => AV.C07.subsetSucc_keys_sub ((NFA.validate_eq_ok n).mp hv) u) pick

theorem C05_toDFAMin_full_holds (σ α : Type) [DecidableEq σ] [DecidableEq α] :
    C05_toDFAMin_full σ α :=
  fun n hv ps pick => C05_toDFAMin n hv ps pick

/-- The same with the language named directly: `DFA.from_nfa(n, minify=True)` is minimal of
its kind for the language of the NFA `n` (C07: the subset DFA has the language of `n`). -/
theorem C05_toDFAMin_nfa (n : AV.NFA σ α) (hv : n.validate = .ok ()) (ps : n.PyShape)
    (pick : List Nat → Nat) : MinimalFor (n.toDFAMin pick) n.accepts n.syms := by
  have h : n.toDFA.accepts = n.accepts :=
    funext fun w => AV.C07.toDFA_accepts ((NFA.validate_eq_ok n).mp hv) ps w
  rw [← h]; exact C05_toDFAMin n hv ps pick

/-! ## Non-vacuity -/

/-- The 4-state partial DFA of finding F1: state `1` is dead (a non-final `a`-loop) and is
entered by the explicit transition `3 -a-> 1`; symbols `a = 0`, `b = 1`. -/
def exF1 : AV.DFA Nat Nat :=
  { states := [0, 1, 2, 3], syms := [0, 1],
    trans := [(0, [(0, 3), (1, 2)]), (1, [(0, 1)]), (2, [(0, 3), (1, 0)]), (3, [(0, 1), (1, 2)])],
    init := 0, finals := [2], allowPartial := true }

example : exF1.validate = .ok () := rfl
example : exF1.PyShape := ⟨by decide, by decide, by decide, by decide, by decide⟩
/-- the explicit transition into a dead state, which the pre-pass prunes -/
example : exF1.step? (some 3) 0 = some 1 ∧ 1 ∉ exF1.coaccessible ∧ exF1.minifyKept = [0, 3, 2] := by
  decide
/-- the result is partial, has three states named by blocks, and rejects `aab` (the word the
unrepaired code accepted) -/
example : exF1.minify.allowPartial = true ∧
    exF1.minify.states = [MinName.blk [2], MinName.blk [0], MinName.blk [3]] ∧
    exF1.minify.accepts [0, 0, 1] = false ∧ exF1.accepts [0, 0, 1] = false ∧
    exF1.minify.accepts [1, 1, 0, 1] = true := by
  decide

/-- A complete DFA with two equivalent states (`1`, `2`) and an unreachable one (`3`). -/
def exComplete : AV.DFA Nat Nat :=
  { states := [0, 1, 2, 3], syms := [0],
    trans := [(0, [(0, 1)]), (1, [(0, 2)]), (2, [(0, 1)]), (3, [(0, 0)])],
    init := 0, finals := [1, 2], allowPartial := false }

example : exComplete.validate = .ok () := rfl
example : exComplete.PyShape := ⟨by decide, by decide, by decide, by decide, by decide⟩
example : exComplete.minify.allowPartial = false ∧
    exComplete.minify.states = [MinName.blk [0], MinName.blk [1, 2]] := by
  decide

/-- `exComplete.minify` by hand: two states, minimal — `C05_minimal_input_size` applies to it
(reachable: `[]`, `[0]`; distinguishable by `[]`), and to the partial `exMinPartial`. -/
def exMinComplete : AV.DFA Nat Nat :=
  { states := [0, 1], syms := [0], trans := [(0, [(0, 1)]), (1, [(0, 1)])],
    init := 0, finals := [1], allowPartial := false }

/-- Language {[0]} as a partial DFA without dead state. -/
def exMinPartial : AV.DFA Nat Nat :=
  { states := [0, 1], syms := [0], trans := [(0, [(0, 1)]), (1, [])],
    init := 0, finals := [1], allowPartial := true }

example : (exMinComplete.minify).states.length = 2 ∧ (exMinPartial.minify).states.length = 2 := by decide

example : (exMinComplete.minify).states.length = exMinComplete.states.length :=
  (C05_minimal_input_size exMinComplete rfl ⟨by decide, by decide, by decide, by decide, by decide⟩ _
    (by intro q hq
        simp only [exMinComplete, List.mem_cons, List.not_mem_nil, or_false] at hq
        rcases hq with rfl | rfl
        · exact ⟨[], rfl⟩
        · exact ⟨[0], rfl⟩)
    (by intro p hp q hq hpq
        simp only [exMinComplete, List.mem_cons, List.not_mem_nil, or_false] at hp hq
        rcases hp with rfl | rfl <;> rcases hq with rfl | rfl
        · exact absurd rfl hpq
        · exact ⟨[], by decide⟩
        · exact ⟨[], by decide⟩
        · exact absurd rfl hpq)
    (by intro h; cases h)).1

example : (exMinPartial.minify).states.length = exMinPartial.states.length :=
  (C05_minimal_input_size exMinPartial rfl ⟨by decide, by decide, by decide, by decide, by decide⟩ _
    (by intro q hq
        simp only [exMinPartial, List.mem_cons, List.not_mem_nil, or_false] at hq
        rcases hq with rfl | rfl
        · exact ⟨[], rfl⟩
        · exact ⟨[0], rfl⟩)
    (by intro p hp q hq hpq
        simp only [exMinPartial, List.mem_cons, List.not_mem_nil, or_false] at hp hq
        rcases hp with rfl | rfl <;> rcases hq with rfl | rfl
        · exact absurd rfl hpq
        · exact ⟨[], by decide⟩
        · exact ⟨[], by decide⟩
        · exact absurd rfl hpq)
    (by intro _ q hq
        simp only [exMinPartial, List.mem_cons, List.not_mem_nil, or_false] at hq
        rcases hq with rfl | rfl
        · exact ⟨[0], by decide⟩
        · exact ⟨[], by decide⟩)).1

/-- representative independence on the example with the two-element class `{1, 2}`: copying
the row of `2` instead of `1` gives the same automaton here; the hypothesis of
`C05_minify_no_keyerror` (some class avoids the trap) holds -/
example : (minifyRep exComplete (fun _ => 1) (fun _ => 0)).trans = exComplete.minify.trans ∧
    (minifyRep exComplete (fun _ => 1) (fun _ => 0)).states = exComplete.minify.states ∧
    (goodBlocks (hopcroft exComplete.minifyKept exComplete.syms exComplete.trans
      exComplete.minifyFinals (fun _ => 0))).isEmpty = false := by decide

/-- An all-dead partial DFA: the result is `empty_language` with the state `zero` (F16). -/
def exDead : AV.DFA Nat Nat :=
  { states := [0, 1], syms := [0], trans := [(0, [(0, 1)]), (1, [])],
    init := 0, finals := [], allowPartial := true }

example : exDead.validate = .ok () := rfl
example : exDead.minify.states = [MinName.zero] ∧ exDead.minify.allowPartial = false := by decide

/-- `minify=True` paths on the same inputs: the union of `exF1` with itself again has the
three classes; `to_partial(minify=True)` of the complete example drops nothing (no dead state)
and stays complete; the complement of the complete example has two states. -/
example : (match binopMin .union exF1 exF1 with
    | .ok R => (R.states.length, R.allowPartial)
    | .error _ => (0, false)) = (3, true) := by decide
example : exF1.symsEq exF1 = true := by decide
example : (exComplete.toPartialMin).states.length = 2 ∧ (exComplete.complementMin).states.length = 2 := by
  decide

/-- `from_nfa(minify=True)` on an NFA with an ε-move whose subset construction has two
equivalent accepting subsets. -/
def exNFA : AV.NFA Nat Nat :=
  { states := [0, 1, 2], syms := [0],
    trans := [(0, [(none, [1]), (some 0, [2])]), (1, [(some 0, [1])]), (2, [(some 0, [2])])],
    init := 0, finals := [1, 2] }

example : exNFA.validate = .ok () := rfl
example : exNFA.toDFA.states.length = 2 ∧ (exNFA.toDFAMin).states.length = 1 := by decide
example : MinimalFor (exNFA.toDFAMin) exNFA.accepts exNFA.syms :=
  C05_toDFAMin_nfa exNFA rfl ⟨by decide, by decide, by decide, by decide, by decide, by decide⟩ _

/-- `PyShape` cannot be dropped in the list model: a row with a duplicate key (impossible for
a Python dict) is read by `.get` at its first entry but copied entry by entry by `_minify`. -/
def exDupKey : AV.DFA Nat Nat :=
  { states := [0, 1], syms := [0], trans := [(0, [(0, 1), (0, 0)]), (1, [])],
    init := 0, finals := [0], allowPartial := true }

example : exDupKey.validate = .ok () := rfl
example : exDupKey.accepts [0] = false ∧ exDupKey.minify.accepts [0] = true := by decide

/-- The unrestricted naming claim fails (F16): the exception in `C05_retain_names_partial`
is necessary. -/
theorem C05_retain_names_full_fails : ¬ C05_retain_names_full Nat Nat := by
  intro h
  obtain ⟨l, hl⟩ := h exDead rfl ⟨by decide, by decide, by decide, by decide, by decide⟩
    (fun _ => 0) MinName.zero (by decide)
  cases hl

end AV.Props.C05
