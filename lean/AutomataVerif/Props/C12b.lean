/-
Props/C12b.lean — C12 completed with C10: the parser obligation `C12_parser_full` (kept as a
hypothesis in Props/C12.lean because the parser model belongs to C10) is discharged by
`AV.Rx.GnfaGlue.parser_of_C10` (from `C10_compile_default`), which makes the English property
unconditional.  Own module: importing the C10 files into Props/C12.lean makes `Rx.den` ambiguous.
-/
import AutomataVerif.Props.C12
import AutomataVerif.Proofs.RxGnfaGlue

namespace AV.Props.C12
open AV AV.GNFA AV.GnfaSpec

/-- C12's white-space predicate is the C10 lexer's (`str.isspace` on one character). -/
theorem pyIsSpace_eq_isPySpace (c : Char) : AV.pyIsSpace c = AV.Rx.isPySpace c := rfl

/-- **The parser obligation holds**: with `compile s` = the language of the NFA that the model of
`NFA.from_regex(s)` (default alphabet) returns, the empty string compiles to `{ε}` and every
string of C12's concrete syntax compiles to the language of the expression it renders. -/
theorem C12_parser_full_holds : C12_parser_full AV.Rx.GnfaGlue.compile :=
  ⟨AV.Rx.GnfaGlue.parser_of_C10.1, fun e s hr =>
    AV.Rx.GnfaGlue.parser_of_C10.2 e s hr (fun c _ h => by rw [← pyIsSpace_eq_isPySpace]; exact h)⟩

/-- **C12, the English property in full, unconditional**: for every valid DFA / NFA with a
non-empty language over literal symbols, `to_regex` (for every tie-break order of the rip
sequence) returns a string that the library's own parser model compiles, and the compiled
language is exactly the language of the source automaton. -/
theorem C12_to_regex_full {σ : Type} [DecidableEq σ] (natName : Nat → σ)
    (hinj : Function.Injective natName) :
    (∀ (d : DFA σ Char), d.validate = .ok () → (∀ kv ∈ d.trans, (akeys kv.2).Nodup) →
      (∀ a ∈ d.syms, IsLit a) → (∃ w, d.accepts w = true) →
      ∃ g, fromDFA simpleRxValid natName d = .ok g ∧
        ∀ (ord : Nat → List σ → List σ), (∀ k l x, x ∈ ord k l ↔ x ∈ l) →
          ∃ s L, toRegex g ord = .ok (some s) ∧ AV.Rx.GnfaGlue.compile s = some L ∧
            ∀ w, w ∈ L ↔ d.accepts w = true) ∧
    (∀ (n : NFA σ Char), n.validate = .ok () → (∀ kv ∈ n.trans, (akeys kv.2).Nodup) →
      (∀ kv ∈ n.trans, ∀ e ∈ kv.2, e.2.Nodup) →
      (∀ a ∈ n.syms, IsLit a) → (∃ w, n.accepts w = true) →
      ∃ g, fromNFA simpleRxValid natName n = .ok g ∧
        ∀ (ord : Nat → List σ → List σ), (∀ k l x, x ∈ ord k l ↔ x ∈ l) →
          ∃ s L, toRegex g ord = .ok (some s) ∧ AV.Rx.GnfaGlue.compile s = some L ∧
            ∀ w, w ∈ L ↔ n.accepts w = true) :=
  C12_to_regex_full_partial AV.Rx.GnfaGlue.compile C12_parser_full_holds natName hinj

end AV.Props.C12
