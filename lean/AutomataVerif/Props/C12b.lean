/-
Props/C12b.lean — C12 completed with C10: the parser obligation `C12_parser_full` (kept as a
hypothesis in Props/C12.lean because the parser model belongs to C10) is discharged by
`AV.Rx.GnfaGlue.parser_of_C10` (from `C10_compile_default`), which makes the English property
unconditional.  Own module: importing the C10 files into Props/C12.lean makes `Rx.den` ambiguous.

Round 2 (reviewer rev3) adds, in this order:
* `C12_to_regex_explicit_alphabet` — the form with `NFA.from_regex(s, input_symbols=Σ_source)`;
* `C12_one_validator_model`, `C12_to_regex_re` — `re._validate` has one model (C10's lexer and
  `validate_tokens`); the stand-alone `simpleRxValid` agrees with it off `{`;
* `C12_reserved_alphabet_fails`, `C12_to_regex_any_alphabet_fails` — the hypothesis "every input
  symbol is `IsLit`" is necessary: the open finding `C12:alphabet-has-reserved-regex-character`.
-/
import AutomataVerif.Props.C12
import AutomataVerif.Proofs.RxGnfaGlue
import AutomataVerif.Proofs.GnfaReValidate

namespace AV.Props.C12
open AV AV.GNFA AV.GnfaSpec

/-- C12's white-space predicate is the C10 lexer's (`str.isspace` on one character). -/
theorem pyIsSpace_eq_isPySpace (c : Char) : AV.pyIsSpace c = AV.Rx.isPySpace c := rfl

/-- **The parser obligation holds**: with `compile s` = the language of the NFA that the model of
`NFA.from_regex(s)` (default alphabet) returns, the empty string compiles to `{ε}` and every
string of C12's concrete syntax compiles to the language of the expression it renders. -/
theorem C12_parser_full_holds : C12_parser_full AV.Rx.GnfaGlue.compile :=
  ⟨AV.Rx.GnfaGlue.parser_of_C10.1, fun e s hr =>
    AV.Rx.GnfaGlue.parser_of_C10.2 e s hr (fun c _ h => by rw [← pyIsSpace_eq_isPySpace]; exact h)⟩

/-- **C12, the English property in full, unconditional**: for every valid DFA / NFA with a
non-empty language over literal symbols, `to_regex` (for every tie-break order of the rip
sequence) returns a string that the library's own parser model compiles, and the compiled
language is exactly the language of the source automaton. -/
theorem C12_to_regex_full {σ : Type} [DecidableEq σ] (natName : Nat → σ)
    (hinj : Function.Injective natName) :
    (∀ (d : DFA σ Char), d.validate = .ok () → (∀ kv ∈ d.trans, (akeys kv.2).Nodup) →
      (∀ a ∈ d.syms, IsLit a) → (∃ w, d.accepts w = true) →
      ∃ g, fromDFA simpleRxValid natName d = .ok g ∧
        ∀ (ord : Nat → List σ → List σ), (∀ k l x, x ∈ ord k l ↔ x ∈ l) →
          ∃ s L, toRegex g ord = .ok (some s) ∧ AV.Rx.GnfaGlue.compile s = some L ∧
            ∀ w, w ∈ L ↔ d.accepts w = true) ∧
    (∀ (n : NFA σ Char), n.validate = .ok () → (∀ kv ∈ n.trans, (akeys kv.2).Nodup) →
      (∀ kv ∈ n.trans, ∀ e ∈ kv.2, e.2.Nodup) →
      (∀ a ∈ n.syms, IsLit a) → (∃ w, n.accepts w = true) →
      ∃ g, fromNFA simpleRxValid natName n = .ok g ∧
        ∀ (ord : Nat → List σ → List σ), (∀ k l x, x ∈ ord k l ↔ x ∈ l) →
          ∃ s L, toRegex g ord = .ok (some s) ∧ AV.Rx.GnfaGlue.compile s = some L ∧
            ∀ w, w ∈ L ↔ n.accepts w = true) :=
  C12_to_regex_full_partial AV.Rx.GnfaGlue.compile C12_parser_full_holds natName hinj

/-! ## The explicit-alphabet form: `NFA.from_regex(s, input_symbols=Σ_source)` -/

/-- **C12_to_regex_explicit_alphabet** — what users (and the oracle of `harness/ops/C12.py`)
actually call: for every valid DFA / NFA with a non-empty language over literal symbols and every
rip order, the string `to_regex` returns is compiled by `NFA.from_regex(s, input_symbols=Σ)` —
`Σ` the alphabet of the source — to a valid NFA whose acceptance verdict equals the source's on
every word.  (Needs: the literals of the string are source symbols — `C12_dfa_alphabet` — and
`Σ` has no reserved character, which is `hlit`; then `C10_compile`.) -/
theorem C12_to_regex_explicit_alphabet {σ : Type} [DecidableEq σ] (natName : Nat → σ)
    (hinj : Function.Injective natName) :
    (∀ (d : DFA σ Char), d.validate = .ok () → (∀ kv ∈ d.trans, (akeys kv.2).Nodup) →
      (∀ a ∈ d.syms, IsLit a) → (∃ w, d.accepts w = true) →
      ∃ g, fromDFA simpleRxValid natName d = .ok g ∧
        ∀ (ord : Nat → List σ → List σ), (∀ k l x, x ∈ ord k l ↔ x ∈ l) →
          ∃ s N, toRegex g ord = .ok (some s) ∧ AV.Rx.fromRegex s (some d.syms) = .ok N ∧
            N.validate = .ok () ∧ ∀ w, N.accepts w = d.accepts w) ∧
    (∀ (n : NFA σ Char), n.validate = .ok () → (∀ kv ∈ n.trans, (akeys kv.2).Nodup) →
      (∀ kv ∈ n.trans, ∀ e ∈ kv.2, e.2.Nodup) →
      (∀ a ∈ n.syms, IsLit a) → (∃ w, n.accepts w = true) →
      ∃ g, fromNFA simpleRxValid natName n = .ok g ∧
        ∀ (ord : Nat → List σ → List σ), (∀ k l x, x ∈ ord k l ↔ x ∈ l) →
          ∃ s N, toRegex g ord = .ok (some s) ∧ AV.Rx.fromRegex s (some n.syms) = .ok N ∧
            N.validate = .ok () ∧ ∀ w, N.accepts w = n.accepts w) := by
  have beq : ∀ {a b : Bool}, (a = true ↔ b = true) → a = b := by
    intro a b h; cases a <;> cases b <;> simp_all
  constructor
  · intro d hv hkeys hlit hne
    obtain ⟨g, hg, hall⟩ := C12_dfa_alphabet natName hinj d hv hkeys hlit hne
    refine ⟨g, hg, fun ord hord => ?_⟩
    obtain ⟨s, hs, _, hch, hm⟩ := hall ord hord
    rcases hm with ⟨rfl, h1⟩ | ⟨e, hr, hd⟩
    · obtain ⟨N, hN, hNv, hacc⟩ := AV.Rx.GnfaGlue.fromRegex_nil_explicit d.syms
        (fun c hc => AV.Rx.GnfaGlue.isReserved_of_isLit (hlit c hc))
      exact ⟨[], N, hs, hN, hNv, fun w => beq (by rw [hacc, h1])⟩
    · obtain ⟨N, hN, hNv, hacc⟩ := AV.Rx.GnfaGlue.compile_explicit hr d.syms hlit hch
      exact ⟨s, N, hs, hN, hNv, fun w => beq (by rw [hacc, hd])⟩
  · intro n hv hkeys htgts hlit hne
    obtain ⟨g, hg, hall⟩ := C12_nfa_alphabet natName hinj n hv hkeys htgts hlit hne
    refine ⟨g, hg, fun ord hord => ?_⟩
    obtain ⟨s, hs, _, hch, hm⟩ := hall ord hord
    rcases hm with ⟨rfl, h1⟩ | ⟨e, hr, hd⟩
    · obtain ⟨N, hN, hNv, hacc⟩ := AV.Rx.GnfaGlue.fromRegex_nil_explicit n.syms
        (fun c hc => AV.Rx.GnfaGlue.isReserved_of_isLit (hlit c hc))
      exact ⟨[], N, hs, hN, hNv, fun w => beq (by rw [hacc, h1])⟩
    · obtain ⟨N, hN, hNv, hacc⟩ := AV.Rx.GnfaGlue.compile_explicit hr n.syms hlit hch
      exact ⟨s, N, hs, hN, hNv, fun w => beq (by rw [hacc, hd])⟩

/-- Non-vacuity: the model compiles the `(ab)*` of `exDFA` with the source alphabet. -/
example : (AV.Rx.fromRegex ['(', 'a', 'b', ')', '*'] (some exDFA.syms)).toOption.map
    (fun N => (N.accepts [], N.accepts ['a', 'b'], N.accepts ['a'], N.accepts ['a', 'b', 'a', 'b'])) =
    some (exDFA.accepts [], exDFA.accepts ['a', 'b'], exDFA.accepts ['a'],
      exDFA.accepts ['a', 'b', 'a', 'b']) := by decide

/-! ## One model of `re._validate`

`Props/C12.lean` instantiates the validator parameter of `GNFA.validate` / `from_dfa` / `from_nfa`
with `simpleRxValid`, a stand-alone character-level model written before the C10/C11 model of
`regex.validate` existed.  `reValidate` (Model/GNFARe.lean) is `re._validate` on top of C10's
`lex` + `validateTokens`; it is what the driver `drv_gnfa` runs.  The two are the same function on
every string without `{`, hence the constructors are the same functions on every alphabet
without `{` (in particular on every literal alphabet), and the end-to-end theorems hold verbatim
for the shared model. -/

/-- **C12_one_validator_model** — `simpleRxValid` is `re._validate` of the C10/C11 lexer and
validator model on every string without `{` (well-formed or not; same verdict, same escaping
`LexerError`), and for an alphabet without `{` the two instances of `from_dfa` / `from_nfa` are
the same function. -/
theorem C12_one_validator_model :
    (∀ s : Str, '{' ∉ s → simpleRxValid s =
      match AV.Rx.validate s with
      | .ok _ => .ok true
      | .error (.lib .invalidRegexError) => .ok false
      | .error e => .error e) ∧
    (∀ {σ : Type} [DecidableEq σ] (natName : Nat → σ) (d : DFA σ Char), '{' ∉ d.syms →
      fromDFA simpleRxValid natName d = fromDFA reValidate natName d) ∧
    (∀ {σ : Type} [DecidableEq σ] (natName : Nat → σ) (n : NFA σ Char), '{' ∉ n.syms →
      fromNFA simpleRxValid natName n = fromNFA reValidate natName n) :=
  ⟨ReValidate.simpleRxValid_eq_of_validate, fun natName d h => ReValidate.fromDFA_congr natName d h,
    fun natName n h => ReValidate.fromNFA_congr natName n h⟩

theorem not_mem_brace_of_isLit {syms : List Char} (hlit : ∀ a ∈ syms, IsLit a) : '{' ∉ syms :=
  fun h => (hlit '{' h).1 (by decide)

theorem reValidate_of_chars {syms : List Char} (hlit : ∀ a ∈ syms, IsLit a) {s : Str}
    (hch : ∀ c ∈ s, c ∈ syms ++ ['*', '|', '(', ')', '?']) (hv : simpleRxValid s = .ok true) :
    reValidate s = .ok true := by
  rw [← ReValidate.simpleRxValid_eq_reValidate s ?_]
  · exact hv
  · intro h
    rcases List.mem_append.mp (hch '{' h) with h' | h'
    · exact not_mem_brace_of_isLit hlit h'
    · revert h'; decide

/-- **C12_to_regex_re** — the English property, in both readings of "the parser accepts", for
the single validator model: for every valid DFA / NFA with a non-empty language over literal
symbols, `from_dfa` / `from_nfa` (validating with `re._validate` = C10's lexer and
`validate_tokens`) succeed, and for every rip order `to_regex` returns a string `s` such that
`re._validate(s)` is `True`, `NFA.from_regex(s)` compiles to exactly the source language, and
`NFA.from_regex(s, input_symbols=Σ_source)` returns a valid NFA with the source's verdict on every
word. -/
theorem C12_to_regex_re {σ : Type} [DecidableEq σ] (natName : Nat → σ)
    (hinj : Function.Injective natName) :
    (∀ (d : DFA σ Char), d.validate = .ok () → (∀ kv ∈ d.trans, (akeys kv.2).Nodup) →
      (∀ a ∈ d.syms, IsLit a) → (∃ w, d.accepts w = true) →
      ∃ g, fromDFA reValidate natName d = .ok g ∧
        ∀ (ord : Nat → List σ → List σ), (∀ k l x, x ∈ ord k l ↔ x ∈ l) →
          ∃ s L N, toRegex g ord = .ok (some s) ∧ reValidate s = .ok true ∧
            AV.Rx.GnfaGlue.compile s = some L ∧ (∀ w, w ∈ L ↔ d.accepts w = true) ∧
            AV.Rx.fromRegex s (some d.syms) = .ok N ∧ N.validate = .ok () ∧
            ∀ w, N.accepts w = d.accepts w) ∧
    (∀ (n : NFA σ Char), n.validate = .ok () → (∀ kv ∈ n.trans, (akeys kv.2).Nodup) →
      (∀ kv ∈ n.trans, ∀ e ∈ kv.2, e.2.Nodup) →
      (∀ a ∈ n.syms, IsLit a) → (∃ w, n.accepts w = true) →
      ∃ g, fromNFA reValidate natName n = .ok g ∧
        ∀ (ord : Nat → List σ → List σ), (∀ k l x, x ∈ ord k l ↔ x ∈ l) →
          ∃ s L N, toRegex g ord = .ok (some s) ∧ reValidate s = .ok true ∧
            AV.Rx.GnfaGlue.compile s = some L ∧ (∀ w, w ∈ L ↔ n.accepts w = true) ∧
            AV.Rx.fromRegex s (some n.syms) = .ok N ∧ N.validate = .ok () ∧
            ∀ w, N.accepts w = n.accepts w) := by
  constructor
  · intro d hv hkeys hlit hne
    obtain ⟨g, hg, hall⟩ := C12_dfa_alphabet natName hinj d hv hkeys hlit hne
    obtain ⟨g1, hg1, hall1⟩ := (C12_to_regex_full natName hinj).1 d hv hkeys hlit hne
    obtain ⟨g2, hg2, hall2⟩ := (C12_to_regex_explicit_alphabet natName hinj).1 d hv hkeys hlit hne
    rw [hg] at hg1 hg2
    cases hg1
    cases hg2
    rw [ReValidate.fromDFA_congr natName d (not_mem_brace_of_isLit hlit)] at hg
    refine ⟨g, hg, fun ord hord => ?_⟩
    obtain ⟨s, hs, hval, hch, _⟩ := hall ord hord
    obtain ⟨s1, L, hs1, hL, hLw⟩ := hall1 ord hord
    obtain ⟨s2, N, hs2, hN, hNv, hNw⟩ := hall2 ord hord
    rw [hs] at hs1 hs2
    cases hs1
    cases hs2
    exact ⟨s, L, N, hs, reValidate_of_chars hlit hch hval, hL, hLw, hN, hNv, hNw⟩
  · intro n hv hkeys htgts hlit hne
    obtain ⟨g, hg, hall⟩ := C12_nfa_alphabet natName hinj n hv hkeys htgts hlit hne
    obtain ⟨g1, hg1, hall1⟩ := (C12_to_regex_full natName hinj).2 n hv hkeys htgts hlit hne
    obtain ⟨g2, hg2, hall2⟩ :=
      (C12_to_regex_explicit_alphabet natName hinj).2 n hv hkeys htgts hlit hne
    rw [hg] at hg1 hg2
    cases hg1
    cases hg2
    rw [ReValidate.fromNFA_congr natName n (not_mem_brace_of_isLit hlit)] at hg
    refine ⟨g, hg, fun ord hord => ?_⟩
    obtain ⟨s, hs, hval, hch, _⟩ := hall ord hord
    obtain ⟨s1, L, hs1, hL, hLw⟩ := hall1 ord hord
    obtain ⟨s2, N, hs2, hN, hNv, hNw⟩ := hall2 ord hord
    rw [hs] at hs1 hs2
    cases hs1
    cases hs2
    exact ⟨s, L, N, hs, reValidate_of_chars hlit hch hval, hL, hLw, hN, hNv, hNw⟩

/-- Non-vacuity / the boundary of the agreement: on `{` the stand-alone model is wrong (it reads
`{` as a literal) while the shared model runs the quantifier rule, as the code does:
`re._validate("a{1,2}")` is `True` for both, but `"{|,|}"` — which `from_dfa` assembles for a DFA
with the symbols `{ , }` on one edge — makes the real `int("|")` raise `ValueError`. -/
example : simpleRxValid "{|,|}".toList = .ok true ∧
    reValidate "{|,|}".toList = .error (.py .valueError) := by decide

example : reValidate "(ab)*".toList = .ok true ∧ reValidate "(ab".toList = .ok false ∧
    reValidate "a b".toList = .ok true ∧ reValidate ['a', '\n'] = .error (.lib .lexerError) := by
  decide

/-! ## The literal-alphabet hypothesis is necessary (open finding
`C12:alphabet-has-reserved-regex-character`)

`hlit : ∀ a ∈ syms, IsLit a` excludes source alphabets that contain a reserved character of the
regex syntax or a white-space character.  Such automata are valid DFAs / NFAs with a non-empty
language — inside the domain of the English property — and on them the code *violates* the
property: `to_regex` embeds the symbols verbatim (the output syntax has no escaping), so `.` is
read back as the wildcard (another language), a blank is skipped, `{` `}` do not parse, and for
`* | ( ) ? & + ^` and other white space already `from_dfa` / `from_nfa` raise.  The theorem below
proves the failure on the model for the smallest wrong-language case. -/

/-- The property for DFAs *without* the literal-alphabet hypothesis. -/
def C12_to_regex_any_alphabet (σ : Type) [DecidableEq σ] (natName : Nat → σ) : Prop :=
  ∀ (d : DFA σ Char), d.validate = .ok () → (∀ kv ∈ d.trans, (akeys kv.2).Nodup) →
    (∃ w, d.accepts w = true) →
    ∃ g, fromDFA simpleRxValid natName d = .ok g ∧
      ∀ (ord : Nat → List σ → List σ), (∀ k l x, x ∈ ord k l ↔ x ∈ l) →
        ∃ s L, toRegex g ord = .ok (some s) ∧ AV.Rx.GnfaGlue.compile s = some L ∧
          ∀ w, w ∈ L ↔ d.accepts w = true

/-- `0 -'.'→ 1 -'a'→ 1`, final state 1, over `{'.', 'a'}`: the language `{"."}·{"a"}*`. -/
def exDotDFA : AV.DFA Nat Char :=
  { states := [0, 1], syms := ['.', 'a'], trans := [(0, [('.', 1)]), (1, [('a', 1)])],
    init := 0, finals := [1], allowPartial := true }

/-- What `from_dfa` builds from it (new initial state 2, new final state 3). -/
def exDotG : GNFA Nat Str :=
  { states := [0, 1, 2, 3], syms := ['.', 'a'],
    trans := [(0, [(1, some ['.']), (0, none), (3, none)]),
              (1, [(1, some ['a']), (3, some []), (0, none)]),
              (2, [(0, some []), (1, none), (3, none)])],
    init := 2, final := 3 }

theorem exDotG_shape : Shape [0, 1, 2, 3] 2 3 exDotG.trans := by
  refine ⟨by decide, by decide, by decide, by decide, ?_, ?_⟩
  · intro p
    rcases p with _ | _ | _ | _ | p <;> simp [exDotG, alookup]
  · intro p r
    rcases p with _ | _ | _ | _ | p <;> rcases r with _ | _ | _ | _ | r <;>
      simp [exDotG, alookup, get2]

/-- Whatever the rip order, `to_regex` returns `.a*` for it. -/
theorem exDotG_toRegex (ord : Nat → List Nat → List Nat) (hord : ∀ k l x, x ∈ ord k l ↔ x ∈ l) :
    toRegex exDotG ord = .ok (some ['.', 'a', '*']) := by
  have hS := exDotG_shape
  obtain ⟨q, hfind, hqS, hqi, hqf⟩ := findMin_spec hS (by decide) (ord 0) (hord 0)
  have hq : q = 0 ∨ q = 1 := by
    simp only [List.mem_cons, List.not_mem_nil, or_false] at hqS
    omega
  have hunf : toRegex exDotG ord =
      toRegexLoop ripLabel 2 3 ord 2 0 [0, 1, 2, 3] exDotG.trans [] >>= fun r => .ok r.2 := rfl
  rw [hunf]
  rcases hq with rfl | rfl
  · obtain ⟨tr', hstep, hS', -⟩ := ripStep_spec ripLabel hS hqS hqi hqf
    have hstep0 : ripStep ripLabel 2 3 [0, 1, 2, 3] exDotG.trans 0 =
        .ok ([1, 2, 3], [(1, [(1, some ['a']), (3, some [])]), (2, [(1, some ['.']), (3, none)])]) := by
      rfl
    rw [hstep0] at hstep
    obtain ⟨-, rfl⟩ := Prod.mk.inj (Except.ok.inj hstep)
    have hf : (List.filter (fun x => decide (x ≠ 0)) [0, 1, 2, 3]) = [1, 2, 3] := by decide
    rw [hf] at hS'
    obtain ⟨q, hfind', hqS', hqi', hqf'⟩ := findMin_spec hS' (by decide) (ord 1) (hord 1)
    have hq : q = 1 := by
      simp only [List.mem_cons, List.not_mem_nil, or_false] at hqS'
      omega
    subst hq
    simp only [toRegexLoop, bind, Except.bind, hfind, hstep0, hfind']
    rfl
  · obtain ⟨tr', hstep, hS', -⟩ := ripStep_spec ripLabel hS hqS hqi hqf
    have hstep0 : ripStep ripLabel 2 3 [0, 1, 2, 3] exDotG.trans 1 =
        .ok ([0, 2, 3], [(0, [(0, none), (3, some ['.', 'a', '*'])]), (2, [(0, some []), (3, none)])]) := by
      rfl
    rw [hstep0] at hstep
    obtain ⟨-, rfl⟩ := Prod.mk.inj (Except.ok.inj hstep)
    have hf : (List.filter (fun x => decide (x ≠ 1)) [0, 1, 2, 3]) = [0, 2, 3] := by decide
    rw [hf] at hS'
    obtain ⟨q, hfind', hqS', hqi', hqf'⟩ := findMin_spec hS' (by decide) (ord 1) (hord 1)
    have hq : q = 0 := by
      simp only [List.mem_cons, List.not_mem_nil, or_false] at hqS'
      omega
    subst hq
    simp only [toRegexLoop, bind, Except.bind, hfind, hstep0, hfind']
    rfl

/-- The parser model compiles `.a*` (default alphabet `{a}`: the `.` is the wildcard) to an NFA
that accepts `a`. -/
theorem exDot_compile : ∃ N, AV.Rx.fromRegex ['.', 'a', '*'] none = .ok N ∧
    N.accepts ['a'] = true := by
  have h : (AV.Rx.fromRegex ['.', 'a', '*'] none).toOption.map (fun N => N.accepts ['a']) =
      some true := by decide
  cases hN : AV.Rx.fromRegex ['.', 'a', '*'] none with
  | error e => rw [hN] at h; cases h
  | ok N =>
    rw [hN] at h
    exact ⟨N, rfl, by simpa [Except.toOption] using h⟩

/-- **C12_reserved_alphabet_fails** — the witness: `exDotDFA` is a valid DFA with a non-empty
language (it accepts `.`) whose alphabet contains the reserved character `.`; `from_dfa`
succeeds, and for EVERY rip order `to_regex` returns the string `.a*`, which the library's
parser model compiles (default alphabet) to a language **different** from the source's — the
compiled NFA accepts `a`, the DFA does not — and which `NFA.from_regex(s, input_symbols=Σ)` with
the source alphabet refuses with `InvalidSymbolError`. -/
theorem C12_reserved_alphabet_fails :
    exDotDFA.validate = .ok () ∧ (∀ kv ∈ exDotDFA.trans, (akeys kv.2).Nodup) ∧
    (∃ w, exDotDFA.accepts w = true) ∧ ¬ (∀ a ∈ exDotDFA.syms, IsLit a) ∧
    ∃ g, fromDFA simpleRxValid id exDotDFA = .ok g ∧
      ∀ (ord : Nat → List Nat → List Nat), (∀ k l x, x ∈ ord k l ↔ x ∈ l) →
        ∃ s L, toRegex g ord = .ok (some s) ∧ AV.Rx.GnfaGlue.compile s = some L ∧
          ¬ (∀ w, w ∈ L ↔ exDotDFA.accepts w = true) ∧
          AV.Rx.fromRegex s (some exDotDFA.syms) = .error (.lib .invalidSymbolError) := by
  refine ⟨by decide, by decide, ⟨['.'], by decide⟩, by decide, exDotG, by decide, ?_⟩
  intro ord hord
  obtain ⟨N, hN, hacc⟩ := exDot_compile
  refine ⟨['.', 'a', '*'], {w | N.accepts w = true}, exDotG_toRegex ord hord, ?_, ?_, rfl⟩
  · unfold AV.Rx.GnfaGlue.compile
    rw [hN]
  · intro h
    have h1 : exDotDFA.accepts ['a'] = true := (h ['a']).mp hacc
    have h2 : exDotDFA.accepts ['a'] = false := by decide
    rw [h2] at h1
    cases h1

/-- The unrestricted claim fails: the hypothesis `hlit` of `C12_dfa` / `C12_to_regex_full`
cannot be dropped (`IsLit` is exactly the boundary the output syntax imposes: a character that
is not `IsLit` is reserved or white space, and is then not read back as itself). -/
theorem C12_to_regex_any_alphabet_fails : ¬ C12_to_regex_any_alphabet Nat id := by
  intro h
  obtain ⟨hv, hk, hne, -, g, hg, hall⟩ := C12_reserved_alphabet_fails
  obtain ⟨g', hg', hall'⟩ := h exDotDFA hv hk hne
  rw [hg] at hg'
  cases hg'
  obtain ⟨s, L, hs, hc, hneq, -⟩ := hall (fun _ l => l) (fun _ _ _ => Iff.rfl)
  obtain ⟨s', L', hs', hc', heq⟩ := hall' (fun _ l => l) (fun _ _ _ => Iff.rfl)
  rw [hs] at hs'
  cases hs'
  rw [hc] at hc'
  cases hc'
  exact hneq heq

/-! ## `IsLit` is exactly the boundary

For every character `c` the one-state DFA over `{c}` accepting `c*` is a valid source with a
non-empty language.  The end-to-end property holds for it iff `c` is `IsLit`: for the thirteen
reserved characters `c*` does not parse / is refused (`InvalidRegexError`, `InvalidSymbolError`) or,
for `.`, compiles to `{ε}`; for any other white-space character `from_dfa` raises `LexerError`. -/

/-- The end-to-end property (inferred alphabet) for one source DFA with `Nat` states. -/
def C12_holds_for (d : DFA Nat Char) : Prop :=
  ∃ g, fromDFA simpleRxValid id d = .ok g ∧
    ∀ (ord : Nat → List Nat → List Nat), (∀ k l x, x ∈ ord k l ↔ x ∈ l) →
      ∃ s L, toRegex g ord = .ok (some s) ∧ AV.Rx.GnfaGlue.compile s = some L ∧
        ∀ w, w ∈ L ↔ d.accepts w = true

/-- The one-state DFA over `{c}` with a `c`-loop on its (initial, final) state: language `c*`. -/
def loopDFA (c : Char) : AV.DFA Nat Char :=
  { states := [0], syms := [c], trans := [(0, [(c, 0)])], init := 0, finals := [0],
    allowPartial := false }

/-- What `from_dfa` builds from it, if the validating constructor lets it through. -/
def loopG (c : Char) : GNFA Nat Str :=
  { states := [0, 1, 2], syms := [c],
    trans := [(0, [(0, some [c]), (2, some [])]), (1, [(0, some []), (2, none)])],
    init := 1, final := 2 }

theorem loop_fromDFA (c : Char) : fromDFA simpleRxValid id (loopDFA c) =
    match (loopG c).validateStr simpleRxValid with
    | .ok _ => .ok (loopG c)
    | .error e => .error e := rfl

theorem loop_toRegex (c : Char) : toRegex (loopG c) (fun _ l => l) = .ok (some [c, '*']) := rfl

theorem loop_g {c : Char} {g : GNFA Nat Str} (hg : fromDFA simpleRxValid id (loopDFA c) = .ok g) :
    g = loopG c := by
  rw [loop_fromDFA] at hg
  split at hg
  · exact (Except.ok.inj hg).symm
  · cases hg

theorem refute_ctor {c : Char} {e : Exn}
    (h : (loopG c).validateStr simpleRxValid = .error e) : ¬ C12_holds_for (loopDFA c) := by
  rintro ⟨g, hg, -⟩
  rw [loop_fromDFA, h] at hg
  cases hg

theorem refute_parse {c : Char} {e : Exn} (h : AV.Rx.fromRegex [c, '*'] none = .error e) :
    ¬ C12_holds_for (loopDFA c) := by
  rintro ⟨g, hg, hall⟩
  obtain ⟨s, L, hs, hc, -⟩ := hall (fun _ l => l) (fun _ _ _ => Iff.rfl)
  rw [loop_g hg, loop_toRegex] at hs
  cases hs
  unfold AV.Rx.GnfaGlue.compile at hc
  rw [h] at hc
  cases hc

theorem refute_word {c : Char}
    (h : (AV.Rx.fromRegex [c, '*'] none).toOption.map (fun N => N.accepts [c]) = some false) :
    ¬ C12_holds_for (loopDFA c) := by
  rintro ⟨g, hg, hall⟩
  obtain ⟨s, L, hs, hc, hL⟩ := hall (fun _ l => l) (fun _ _ _ => Iff.rfl)
  rw [loop_g hg, loop_toRegex] at hs
  cases hs
  unfold AV.Rx.GnfaGlue.compile at hc
  cases hN : AV.Rx.fromRegex [c, '*'] none with
  | error e => rw [hN] at hc; cases hc
  | ok N =>
    rw [hN] at hc h
    have hL' : L = {w | N.accepts w = true} := (Option.some.inj hc).symm
    subst hL'
    have hacc : (loopDFA c).accepts [c] = true := by
      simp [loopDFA, DFA.accepts, DFA.run, DFA.step?, DFA.row, DFA.row?, DFA.isFinal, alookup]
    have : N.accepts [c] = true := (hL [c]).mpr hacc
    simp [Except.toOption, this] at h


theorem loop_space {c : Char} (hsp : pyIsSpace c = true) (h1 : c ≠ ' ') (h2 : c ≠ '\t') :
    (loopG c).validateStr simpleRxValid = .error (.lib .lexerError) := by
  have n1 : c ≠ '(' := by rintro rfl; revert hsp; decide
  have n2 : c ≠ ')' := by rintro rfl; revert hsp; decide
  have n3 : c ≠ '|' := by rintro rfl; revert hsp; decide
  have n4 : c ≠ '&' := by rintro rfl; revert hsp; decide
  have n5 : c ≠ '^' := by rintro rfl; revert hsp; decide
  have n6 : c ≠ '*' := by rintro rfl; revert hsp; decide
  have n7 : c ≠ '+' := by rintro rfl; revert hsp; decide
  have n8 : c ≠ '?' := by rintro rfl; revert hsp; decide
  have hlex : simpleRxValid [c] = .error (.lib .lexerError) := by
    simp [simpleRxValid, lexSimple, n1, n2, n3, n4, n5, n6, n7, n8, h1, h2, hsp]
  have hchk : strLabelCheck simpleRxValid [c] [c] = .error (.lib .lexerError) := by
    simp [strLabelCheck, hlex]
  simp [GNFA.validateStr, GNFA.validate, loopG, firstErr, GNFA.validateLabels, avals, hchk,
    Res.andThen, guardE, ahas, alookup]


theorem loop_valid (c : Char) : (loopDFA c).validate = .ok () := by
  rw [DFA.validate_eq_ok]
  refine ⟨?_, ?_, ?_, ?_, ?_, ?_⟩ <;> simp [loopDFA, akeys, avals]

/-- **C12_isLit_boundary** — `IsLit` is exactly the boundary of the property: for the one-state
DFA over `{c}` that accepts `c*` (valid, non-empty language, for EVERY character `c`), the
end-to-end property — `from_dfa` succeeds and `to_regex`'s string compiles to exactly the source
language — holds **iff** `c` is `IsLit` (not reserved, not white space). -/
theorem C12_isLit_boundary (c : Char) : C12_holds_for (loopDFA c) ↔ IsLit c := by
  constructor
  · intro h
    by_contra hl
    have hcase : c ∈ AV.Gen.Regex.reservedCharacters ∨
        (c ∉ AV.Gen.Regex.reservedCharacters ∧ pyIsSpace c = true) := by
      by_cases hr : c ∈ AV.Gen.Regex.reservedCharacters
      · exact Or.inl hr
      · right
        refine ⟨hr, ?_⟩
        cases hsp : pyIsSpace c with
        | true => rfl
        | false => exact absurd ⟨hr, hsp⟩ hl
    rcases hcase with hr | ⟨hr, hsp⟩
    · simp only [AV.Gen.Regex.reservedCharacters, List.mem_cons, List.not_mem_nil, or_false] at hr
      rcases hr with rfl | rfl | rfl | rfl | rfl | rfl | rfl | rfl | rfl | rfl | rfl | rfl | rfl
      · exact refute_parse (e := .lib .invalidRegexError) rfl h
      · exact refute_parse (e := .lib .invalidRegexError) rfl h
      · exact refute_parse (e := .lib .invalidRegexError) rfl h
      · exact refute_parse (e := .lib .invalidRegexError) rfl h
      · exact refute_parse (e := .lib .invalidRegexError) rfl h
      · exact refute_parse (e := .lib .invalidRegexError) rfl h
      · exact refute_parse (e := .lib .invalidRegexError) rfl h
      · exact refute_parse (e := .lib .invalidRegexError) rfl h
      · exact refute_parse (e := .lib .invalidRegexError) rfl h
      · exact refute_word (by decide) h
      · exact refute_parse (e := .lib .invalidRegexError) rfl h
      · exact refute_parse (e := .lib .invalidSymbolError) rfl h
      · exact refute_parse (e := .lib .invalidSymbolError) rfl h
    · have h1 : c ≠ ' ' := by
        rintro rfl; exact hr (by decide)
      have h2 : c ≠ '\t' := by
        rintro rfl; exact hr (by decide)
      exact refute_ctor (loop_space hsp h1 h2) h
  · intro hl
    exact (C12_to_regex_full id (fun _ _ h => h)).1 (loopDFA c) (loop_valid c)
      (by simp [loopDFA, akeys]) (by simpa [loopDFA] using hl) ⟨[], rfl⟩

end AV.Props.C12
