/-
Props/C19f.lean — C19: the bridge between the two models of `GNFA.validate`
(automata/fa/gnfa.py), and what it gives for the GNFA clause of "results are valid".

The framework has two models of `GNFA.validate`, written from the same source lines:

* `AV.GNFA.validateStr rxValid` (Model/GNFAValidate.lean) — labels are strings (`Str`), the regex
  validator `re._validate` is the parameter `rxValid`; this is the model C12 and its driver use,
  and the one `C19_results_valid` (Props/C19b.lean) checks the GNFA results with;
* `AV.VA.GNFA.validate` (Model/ValidateAll.lean) — labels are abstract (`GLabel α`: a list of
  `GChar α` — an input symbol or a literally written character — plus the verdict of the
  validator); this is the model of `C19_gnfa_validate_iff` / `C19_gnfa_rules` / the corruption
  theorems.

`absGNFA rxValid g` (Proofs/GnfaBridge.lean) reads a string-labelled GNFA as an abstract-labelled
one (same states, alphabet, table keys in the same order; a character `c` of a label is `.sym c`
if it is an input symbol and `.extra (String.singleton c)` otherwise; the verdict is what
`rxValid` says about the label).  The theorems below say that **the two models do not differ**:
on every GNFA, the abstract model on `absGNFA rxValid g` returns what the string model returns on
`g` — `ok`, or the same exception — for every validator whose only escaping exception is
`LexerError` (the only kind the abstract verdict can express), e.g. `simpleRxValid`; for an
arbitrary validator, up to reading every escaping exception as `LexerError`, and in particular
with the same acceptance.  No input on which the models disagree exists.

Consequence: every GNFA result statement of C12 / C19b of the form `g.validateStr … = .ok ()`
is also a statement `(absGNFA … g).validate = .ok ()`, i.e. (by `C19_gnfa_validate_iff`) the
result is well-formed in the sense `VA.GNFA.WF` of C19.

Part 2 (end of file): validity of a DFA is invariant under *any* renaming of states that is
injective on the names that occur (`C19_dfa_valid_of_injective_renaming`) — the statement behind
"`_minify(retain_names=False)` is modelled up to an injective renaming of states".
-/
import AutomataVerif.Props.C19b
import AutomataVerif.Props.C12b
import AutomataVerif.Proofs.GnfaBridge
import AutomataVerif.Proofs.RenameValidate

namespace AV.Props.C19
open AV AV.VA AV.GNFA AV.GnfaSpec AV.GnfaBridge

variable {σ : Type} [DecidableEq σ]

/-! ## the bridge -/

/-- **C19_gnfa_validate_bridge** — the two models of `GNFA.validate` agree: for every regex
validator that lets only `LexerError` escape and every string-labelled GNFA `g`, the
abstract-label model (`VA.GNFA.validate`, the one of `C19_gnfa_validate_iff`) run on the
abstraction of `g` returns exactly what the string-label model (`GNFA.validateStr`, the one of
C12) returns on `g`: `ok`, or the same exception. -/
theorem C19_gnfa_validate_bridge (rxValid : Str → Res Bool)
    (hrx : ∀ s e, rxValid s = .error e → e = .lib .lexerError) (g : AV.GNFA σ Str) :
    (absGNFA rxValid g).validate = g.validateStr rxValid :=
  validate_absGNFA rxValid hrx g

/-- The hypothesis of the bridge holds for the character-level model of `re._validate` that
C12 uses: the only exception that escapes it is `LexerError`. -/
theorem C19_simpleRxValid_only_lexerError (s : Str) (e : Exn)
    (h : simpleRxValid s = .error e) : e = .lib .lexerError :=
  simpleRxValid_error s e h

/-- The bridge for C12's validator, without hypothesis. -/
theorem C19_gnfa_validate_bridge_simple (g : AV.GNFA σ Str) :
    (absGNFA simpleRxValid g).validate = g.validateStr simpleRxValid :=
  validate_absGNFA simpleRxValid simpleRxValid_error g

/-- **The bridge for an arbitrary validator** (no hypothesis): the abstract model is the string
model with every exception that escapes the validator read as `LexerError` — the abstract
verdict has no other way to say "an exception escaped". -/
theorem C19_gnfa_validate_bridge_any (rxValid : Str → Res Bool) (g : AV.GNFA σ Str) :
    (absGNFA rxValid g).validate = g.validateStr (normRx rxValid) :=
  validate_absGNFA_norm rxValid g

/-- Acceptance agrees for every validator. -/
theorem C19_gnfa_validate_bridge_ok (rxValid : Str → Res Bool) (g : AV.GNFA σ Str) :
    (absGNFA rxValid g).validate = .ok () ↔ g.validateStr rxValid = .ok () :=
  validate_absGNFA_ok rxValid g

/-- What the string model accepts is well-formed in the sense of C19 (`VA.GNFA.WF`: the
declarative reading of `GNFA.validate` proved in `C19_gnfa_validate_iff`), and conversely. -/
theorem C19_gnfa_validateStr_iff_WF (rxValid : Str → Res Bool) (g : AV.GNFA σ Str) :
    g.validateStr rxValid = .ok () ↔ (absGNFA rxValid g).WF :=
  (C19_gnfa_validate_bridge_ok rxValid g).symm.trans (C19_gnfa_validate_iff _)

/-- When the string model raises, the abstract model raises the same class, and (by
`C19_gnfa_rules`) that class is the documented class of a violated rule of the GNFA rule
system with no earlier-checked rule violated: the rule-system reading of C19 applies to the
string model of C12. -/
theorem C19_gnfa_validateStr_error (rxValid : Str → Res Bool)
    (hrx : ∀ s e, rxValid s = .error e → e = .lib .lexerError) (g : AV.GNFA σ Str) (e : Exn)
    (h : g.validateStr rxValid = .error e) : (absGNFA rxValid g).validate = .error e := by
  rw [C19_gnfa_validate_bridge rxValid hrx g, h]

/-! ### the models agree on concrete GNFAs (accepted, and rejected with each class) -/

/-- A GNFA with compound labels over `{a, b}` and the operator characters: initial state 2,
final state 3. -/
def brG : AV.GNFA Nat Str :=
  { states := [0, 1, 2, 3], syms := ['a', 'b'],
    trans := [(0, [(0, some ['(', 'a', 'b', ')', '*']), (1, some ['a', '|', 'b']), (3, some [])]),
              (1, [(0, some ['b', '?']), (1, none), (3, none)]),
              (2, [(0, some []), (1, none), (3, none)])],
    init := 2, final := 3 }

example : brG.validateStr simpleRxValid = .ok () := by decide
example : (absGNFA simpleRxValid brG).validate = .ok () := by decide
/-- The abstraction is not trivial: operator characters become `.extra`, symbols `.sym`. -/
example : absLabel ['a', 'b'] simpleRxValid ['a', '|', 'b'] =
    { chars := [.sym 'a', .extra "|", .sym 'b'], verdict := .valid } := by decide

/-- A character outside Σ ∪ {*|()?} in a label: `InvalidRegexError` in both models. -/
def brBadChar : AV.GNFA Nat Str := { brG with trans := brG.trans.map fun kv =>
  (kv.1, kv.2.map fun e => (e.1, if e.2 = some ['b', '?'] then some ['c', '?'] else e.2)) }
example : brBadChar.validateStr simpleRxValid = .error (.lib .invalidRegexError) := by decide
example : (absGNFA simpleRxValid brBadChar).validate = .error (.lib .invalidRegexError) := by decide

/-- A label over the right characters that is not a regex (`b|`): `InvalidRegexError`. -/
def brBadRegex : AV.GNFA Nat Str := { brG with trans := brG.trans.map fun kv =>
  (kv.1, kv.2.map fun e => (e.1, if e.2 = some ['b', '?'] then some ['b', '|'] else e.2)) }
example : brBadRegex.validateStr simpleRxValid = .error (.lib .invalidRegexError) := by decide
example : (absGNFA simpleRxValid brBadRegex).validate = .error (.lib .invalidRegexError) := by decide

/-- A line feed as input symbol and label: the `LexerError` escapes `validate` in both models. -/
def brLexer : AV.GNFA Nat Str :=
  { states := [0, 1, 2], syms := ['\n'],
    trans := [(0, [(0, some ['\n']), (2, some [])]), (1, [(0, some []), (2, none)])],
    init := 1, final := 2 }
example : brLexer.validateStr simpleRxValid = .error (.lib .lexerError) := by decide
example : (absGNFA simpleRxValid brLexer).validate = .error (.lib .lexerError) := by decide

/-- A structural defect (a labelled transition into the initial state): same class again. -/
def brIntoInit : AV.GNFA Nat Str := { brG with trans := brG.trans.map fun kv =>
  (kv.1, if kv.1 = 1 then kv.2 ++ [(2, some ['a'])] else kv.2) }
example : brIntoInit.validateStr simpleRxValid = .error (.lib .invalidStateError) := by decide
example : (absGNFA simpleRxValid brIntoInit).validate = .error (.lib .invalidStateError) := by decide

/-- The hypotheses of `C19_gnfa_validate_bridge` are met by `simpleRxValid` on `brG`. -/
example : (absGNFA simpleRxValid brG).validate = brG.validateStr simpleRxValid :=
  C19_gnfa_validate_bridge simpleRxValid C19_simpleRxValid_only_lexerError brG

/-! ## GNFA results are valid in the abstract model too -/

/-- Whatever `GNFA.from_dfa` returns (any validator, any fresh-name function, any source) passes
the abstract-label `GNFA.validate` of C19 and is well-formed (`VA.GNFA.WF`). -/
theorem C19_from_dfa_result_valid_abs (rxValid : Str → Res Bool) (natName : Nat → σ)
    (d : DFA σ Char) (g : AV.GNFA σ Str) (h : fromDFA rxValid natName d = .ok g) :
    (absGNFA rxValid g).validate = .ok () ∧ (absGNFA rxValid g).WF :=
  have hv := (C19_gnfa_validate_bridge_ok rxValid g).mpr (Alphabet.fromDFA_ok h).1
  ⟨hv, (C19_gnfa_validate_iff _).mp hv⟩

/-- The same for `GNFA.from_nfa`. -/
theorem C19_from_nfa_result_valid_abs (rxValid : Str → Res Bool) (natName : Nat → σ)
    (n : NFA σ Char) (g : AV.GNFA σ Str) (h : fromNFA rxValid natName n = .ok g) :
    (absGNFA rxValid g).validate = .ok () ∧ (absGNFA rxValid g).WF :=
  have hv := (C19_gnfa_validate_bridge_ok rxValid g).mpr (Alphabet.fromNFA_ok h).1
  ⟨hv, (C19_gnfa_validate_iff _).mp hv⟩

/-- The GNFA fields of `ResultsValid` (Props/C19b.lean) restated with the `validate` of C19's own
GNFA model: `GNFA.from_dfa(d)` / `GNFA.from_nfa(n)` on a valid source over literal symbols return
a GNFA that passes `VA.GNFA.validate`. -/
structure GnfaResultsValidAbs : Prop where
  gnfa_from_dfa : ∀ {σ : Type} [DecidableEq σ] (natName : Nat → σ), Function.Injective natName →
    ∀ d : DFA σ Char, d.validate = .ok () → (∀ a ∈ d.syms, IsLit a) →
    ∃ g, fromDFA simpleRxValid natName d = .ok g ∧ (absGNFA simpleRxValid g).validate = .ok ()
  gnfa_from_nfa : ∀ {σ : Type} [DecidableEq σ] (natName : Nat → σ), Function.Injective natName →
    ∀ n : NFA σ Char, n.validate = .ok () → (∀ kv ∈ n.trans, (akeys kv.2).Nodup) →
    (∀ kv ∈ n.trans, ∀ e ∈ kv.2, e.2.Nodup) → (∀ a ∈ n.syms, IsLit a) →
    ∃ g, fromNFA simpleRxValid natName n = .ok g ∧ (absGNFA simpleRxValid g).validate = .ok ()

/-- **C19_gnfa_results_valid_abs** — derived from `C19_results_valid` through the bridge. -/
theorem C19_gnfa_results_valid_abs : GnfaResultsValidAbs where
  gnfa_from_dfa := fun natName hinj d hv hlit =>
    let ⟨g, h, v⟩ := C19_results_valid.gnfa_from_dfa natName hinj d hv hlit
    ⟨g, h, (C19_gnfa_validate_bridge_ok simpleRxValid g).mpr v⟩
  gnfa_from_nfa := fun natName hinj n hv hkeys htgts hlit =>
    let ⟨g, h, v⟩ := C19_results_valid.gnfa_from_nfa natName hinj n hv hkeys htgts hlit
    ⟨g, h, (C19_gnfa_validate_bridge_ok simpleRxValid g).mpr v⟩

/-- On the examples of C12: the GNFAs `from_dfa` / `from_nfa` build pass the abstract model. -/
example : (absGNFA simpleRxValid C12.exG).validate = .ok () :=
  (C19_from_dfa_result_valid_abs simpleRxValid id C12.exDFA C12.exG (by decide)).1
example : (absGNFA simpleRxValid C12.exGN).validate = .ok () :=
  (C19_from_nfa_result_valid_abs simpleRxValid id C12.exNFA C12.exGN (by decide)).1
example : (absGNFA simpleRxValid C12.exG).validate = .ok () := by decide

/-- The negative result of C12b (`loop_space`: a white-space input symbol makes the constructor
of `from_dfa`'s result raise `LexerError`) holds in the abstract model with the same class. -/
theorem C19_loop_space_abs {c : Char} (hsp : pyIsSpace c = true) (h1 : c ≠ ' ') (h2 : c ≠ '\t') :
    (absGNFA simpleRxValid (C12.loopG c)).validate = .error (.lib .lexerError) :=
  C19_gnfa_validateStr_error simpleRxValid simpleRxValid_error _ _ (C12.loop_space hsp h1 h2)

example : (absGNFA simpleRxValid (C12.loopG '\n')).validate = .error (.lib .lexerError) :=
  C19_loop_space_abs (by decide) (by decide) (by decide)

/-! ## Part 2 — `_minify(retain_names=False)`: validity does not depend on how the states are numbered

`ResultsValid` (Props/C19b.lean) states the `retain_names=False` results with `DFA.renumber` (the
BFS discovery index); after `_minify` the code numbers the blocks with `enumerate` instead — some
other injective numbering of the same blocks.  The theorems below make the remark "the same DFA
up to an injective renaming" a statement: `validate` returns the same (`ok`, or the same
exception) on a DFA and on every renaming of it that is injective on the names that occur, and
for "valid stays valid" no injectivity is needed at all.  `MinifyAnyNumbering` restates every
`…_renumbered` field that goes through `_minify` for an arbitrary numbering `f`. -/

section RenameSec
variable {σ τ α : Type} [DecidableEq σ] [DecidableEq τ] [DecidableEq α]

/-- **C19_dfa_validate_rename_invariant** — `DFA.validate` is invariant under every renaming of
the states that is injective on the names occurring in the definition (states, row keys,
transition targets, initial state, final states): same `ok`, same exception. -/
theorem C19_dfa_validate_rename_invariant (f : σ → τ) (d : DFA σ α)
    (hinj : C04.InjOn f (RenameValidate.names d)) : (d.rename f).validate = d.validate :=
  RenameValidate.validate_rename f d hinj

/-- The same for a globally injective renaming. -/
theorem C19_dfa_validate_rename_injective (f : σ → τ) (hf : Function.Injective f) (d : DFA σ α) :
    (d.rename f).validate = d.validate :=
  RenameValidate.validate_rename f d (RenameValidate.injOn_of_injective f hf _)

/-- Validity of a DFA is invariant under any injective renaming of its states. -/
theorem C19_dfa_valid_iff_of_injective_renaming (f : σ → τ) (hf : Function.Injective f)
    (d : DFA σ α) : (d.rename f).validate = .ok () ↔ d.validate = .ok () := by
  rw [C19_dfa_validate_rename_injective f hf d]

/-- "Valid stays valid" needs no injectivity (`C04.rename_valid`); with injectivity on the states
and row keys the renamed DFA is also duplicate-free (a Python value) and accepts the same words. -/
theorem C19_dfa_valid_of_renaming (f : σ → τ) (d : DFA σ α) (hv : d.validate = .ok ()) :
    (d.rename f).validate = .ok () ∧
    (C04.InjOn f (d.states ++ akeys d.trans) →
      (d.PyShape → (d.rename f).PyShape) ∧ ∀ w, (d.rename f).accepts w = d.accepts w) :=
  ⟨C04.rename_valid f hv, fun hinj =>
    ⟨fun p => C04.rename_pyShape f ((DFA.validate_eq_ok d).mp hv) p hinj,
     fun w => C04.rename_accepts f ((DFA.validate_eq_ok d).mp hv) hinj w⟩⟩

/-- `renumber` is one such renaming. -/
example (d : DFA σ α) (hv : d.validate = .ok ()) : d.renumber.validate = .ok () :=
  (C19_dfa_valid_of_renaming (fun s => indexOf s d.states) d hv).1

end RenameSec

/-- Every `retain_names=False` result that goes through `_minify`, for an ARBITRARY numbering `f`
of the states of the `retain_names=True` result (the code's `enumerate(blocks)`, the model's
`renumber`, or any other): it passes `validate`. -/
structure MinifyAnyNumbering : Prop where
  dfa_binop_min : ∀ {σ α τ : Type} [DecidableEq σ] [DecidableEq α] [DecidableEq τ] (op : DFA.BinOp)
    (A B : DFA σ α) (pick : List Nat → Nat),
    A.validate = .ok () → B.validate = .ok () → A.PyShape → A.symsEq B = true →
    ∃ M, A.binopMin op B pick = .ok M ∧ ∀ f : _ → τ, (M.rename f).validate = .ok ()
  dfa_complement_min : ∀ {σ α τ : Type} [DecidableEq σ] [DecidableEq α] [DecidableEq τ]
    (d : DFA σ α) (trap : σ) (pick : List Nat → Nat),
    d.validate = .ok () → d.PyShape → trap ∉ d.states →
    ∃ M, d.complementMinFull trap pick = .ok M ∧ ∀ f : _ → τ, (M.rename f).validate = .ok ()
  dfa_to_partial_min : ∀ {σ α τ : Type} [DecidableEq σ] [DecidableEq α] [DecidableEq τ]
    (d : DFA σ α) (pick : List Nat → Nat), d.validate = .ok () → d.PyShape →
    ∀ f : _ → τ, ((d.toPartialMin pick).rename f).validate = .ok ()
  dfa_minify : ∀ {σ α τ : Type} [DecidableEq σ] [DecidableEq α] [DecidableEq τ] (d : DFA σ α)
    (pick : List Nat → Nat), d.validate = .ok () → d.PyShape →
    ∀ f : _ → τ, ((d.minify pick).rename f).validate = .ok ()
  dfa_from_nfa_min : ∀ {σ α τ : Type} [DecidableEq σ] [DecidableEq α] [DecidableEq τ] (n : NFA σ α)
    (pick : List Nat → Nat), n.validate = .ok () → n.PyShape →
    ∀ f : _ → τ, ((n.toDFAMin pick).rename f).validate = .ok ()

/-- **C19_minify_any_numbering** — from `C19_results_valid` and `C19_dfa_valid_of_renaming`. -/
theorem C19_minify_any_numbering : MinifyAnyNumbering where
  dfa_binop_min := fun op A B pick hA hB pA hs =>
    let ⟨M, h, v⟩ := C19_results_valid.dfa_binop_min op A B pick hA hB pA hs
    ⟨M, h, fun f => (C19_dfa_valid_of_renaming f M v).1⟩
  dfa_complement_min := fun d trap pick hd pd ht =>
    let ⟨M, h, v⟩ := C19_results_valid.dfa_complement_min d trap pick hd pd ht
    ⟨M, h, fun f => (C19_dfa_valid_of_renaming f M v).1⟩
  dfa_to_partial_min := fun d pick hd pd f =>
    (C19_dfa_valid_of_renaming f _ (C19_results_valid.dfa_to_partial_min d pick hd pd)).1
  dfa_minify := fun d pick hd pd f =>
    (C19_dfa_valid_of_renaming f _ (C19_results_valid.dfa_minify d pick hd pd)).1
  dfa_from_nfa_min := fun n pick hv ps f =>
    (C19_dfa_valid_of_renaming f _ (C19_results_valid.dfa_from_nfa_min n pick hv ps)).1

/-! ### non-vacuity -/

/-- A renaming of the C04 example DFA by a non-monotone injective map: same verdict of
`validate` (here `ok`), as `C19_dfa_validate_rename_invariant` says. -/
def swapName (q : Nat) : Nat := if q = 0 then 5 else if q = 1 then 3 else q + 10

example : C04.InjOn swapName (RenameValidate.names C04.exA) := by decide
example : (C04.exA.rename swapName).validate = .ok () := by decide
example : (C04.exA.rename swapName).validate = C04.exA.validate :=
  C19_dfa_validate_rename_invariant swapName C04.exA (by decide)

/-- … and on an INVALID definition (a transition into a state that does not exist) both raise
the same class. -/
def exBadTarget : AV.DFA Nat Nat :=
  { states := [0, 1], syms := [0, 1], trans := [(0, [(0, 0), (1, 7)]), (1, [(0, 0)])],
    init := 0, finals := [1], allowPartial := true }
example : exBadTarget.validate = .error (.lib .invalidStateError) := by decide
example : (exBadTarget.rename swapName).validate = .error (.lib .invalidStateError) := by
  rw [C19_dfa_validate_rename_invariant swapName exBadTarget (by decide)]; decide

/-- Injectivity on the occurring names is needed for the invariance (not for "valid stays
valid"): collapsing the missing target 7 onto the state 0 makes an invalid definition valid. -/
example : (exBadTarget.rename fun q => if q = 7 then 0 else q).validate = .ok () := by decide

/-- The minified symmetric difference of the two C04 examples (the default call `exA ^ exB`),
with its blocks numbered by an arbitrary function, passes `validate`. -/
example : (match C04.exA.binopMin .symm C04.exB (fun _ => 0) with
           | .ok M => (M.rename fun q => 100 - 7 * indexOf q M.states).validate
           | .error e => .error e) = .ok () := by decide

end AV.Props.C19
