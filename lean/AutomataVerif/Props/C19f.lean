/-
Props/C19f.lean — C19: the bridge between the two models of `GNFA.validate`
(automata/fa/gnfa.py), and what it gives for the GNFA clause of "results are valid".

The framework has two models of `GNFA.validate`, written from the same source lines:

* `AV.GNFA.validateStr rxValid` (Model/GNFAValidate.lean) — labels are strings (`Str`), the regex
  validator `re._validate` is the parameter `rxValid`; this is the model C12 and its driver use,
  and the one `C19_results_valid` (Props/C19b.lean) checks the GNFA results with;
* `AV.VA.GNFA.validate` (Model/ValidateAll.lean) — labels are abstract (`GLabel α`: a list of
  `GChar α` — an input symbol or a literally written character — plus the verdict of the
  validator); this is the model of `C19_gnfa_validate_iff` / `C19_gnfa_rules` / the corruption
  theorems.

`absGNFA rxValid g` (Proofs/GnfaBridge.lean) reads a string-labelled GNFA as an abstract-labelled
one (same states, alphabet, table keys in the same order; a character `c` of a label is `.sym c`
if it is an input symbol and `.extra (String.singleton c)` otherwise; the verdict is what
`rxValid` says about the label).  The theorems below say that **the two models do not differ**:
on every GNFA, the abstract model on `absGNFA rxValid g` returns what the string model returns on
`g` — `ok`, or the same exception — for every validator whose only escaping exception is
`LexerError` (the only kind the abstract verdict can express), e.g. `simpleRxValid`; for an
arbitrary validator, up to reading every escaping exception as `LexerError`, and in particular
with the same acceptance.  No input on which the models disagree exists.

Consequence: every GNFA result statement of C12 / C19b of the form `g.validateStr … = .ok ()`
is also a statement `(absGNFA … g).validate = .ok ()`, i.e. (by `C19_gnfa_validate_iff`) the
result is well-formed in the sense `VA.GNFA.WF` of C19.

Part 2 (end of file): validity of a DFA is invariant under *any* renaming of states that is
injective on the names that occur (`C19_dfa_valid_of_injective_renaming`) — the statement behind
"`_minify(retain_names=False)` is modelled up to an injective renaming of states".
-/
import AutomataVerif.Props.C19b
import AutomataVerif.Props.C12b
import AutomataVerif.Proofs.GnfaBridge

namespace AV.Props.C19
open AV AV.VA AV.GNFA AV.GnfaSpec AV.GnfaBridge

variable {σ : Type} [DecidableEq σ]

/-! ## the bridge -/

/-- **C19_gnfa_validate_bridge** — the two models of `GNFA.validate` agree: for every regex
validator that lets only `LexerError` escape and every string-labelled GNFA `g`, the
abstract-label model (`VA.GNFA.validate`, the one of `C19_gnfa_validate_iff`) run on the
abstraction of `g` returns exactly what the string-label model (`GNFA.validateStr`, the one of
C12) returns on `g`: `ok`, or the same exception. -/
theorem C19_gnfa_validate_bridge (rxValid : Str → Res Bool)
    (hrx : ∀ s e, rxValid s = .error e → e = .lib .lexerError) (g : AV.GNFA σ Str) :
    (absGNFA rxValid g).validate = g.validateStr rxValid :=
  validate_absGNFA rxValid hrx g

/-- The hypothesis of the bridge holds for the character-level model of `re._validate` that
C12 uses: the only exception that escapes it is `LexerError`. -/
theorem C19_simpleRxValid_only_lexerError (s : Str) (e : Exn)
    (h : simpleRxValid s = .error e) : e = .lib .lexerError :=
  simpleRxValid_error s e h

/-- The bridge for C12's validator, without hypothesis. -/
theorem C19_gnfa_validate_bridge_simple (g : AV.GNFA σ Str) :
    (absGNFA simpleRxValid g).validate = g.validateStr simpleRxValid :=
  validate_absGNFA simpleRxValid simpleRxValid_error g

/-- **The bridge for an arbitrary validator** (no hypothesis): the abstract model is the string
model with every exception that escapes the validator read as `LexerError` — the abstract
verdict has no other way to say "an exception escaped". -/
theorem C19_gnfa_validate_bridge_any (rxValid : Str → Res Bool) (g : AV.GNFA σ Str) :
    (absGNFA rxValid g).validate = g.validateStr (normRx rxValid) :=
  validate_absGNFA_norm rxValid g

/-- Acceptance agrees for every validator. -/
theorem C19_gnfa_validate_bridge_ok (rxValid : Str → Res Bool) (g : AV.GNFA σ Str) :
    (absGNFA rxValid g).validate = .ok () ↔ g.validateStr rxValid = .ok () :=
  validate_absGNFA_ok rxValid g

/-- What the string model accepts is well-formed in the sense of C19 (`VA.GNFA.WF`: the
declarative reading of `GNFA.validate` proved in `C19_gnfa_validate_iff`), and conversely. -/
theorem C19_gnfa_validateStr_iff_WF (rxValid : Str → Res Bool) (g : AV.GNFA σ Str) :
    g.validateStr rxValid = .ok () ↔ (absGNFA rxValid g).WF :=
  (C19_gnfa_validate_bridge_ok rxValid g).symm.trans (C19_gnfa_validate_iff _)

/-- When the string model raises, the abstract model raises the same class, and (by
`C19_gnfa_rules`) that class is the documented class of a violated rule of the GNFA rule
system with no earlier-checked rule violated: the rule-system reading of C19 applies to the
string model of C12. -/
theorem C19_gnfa_validateStr_error (rxValid : Str → Res Bool)
    (hrx : ∀ s e, rxValid s = .error e → e = .lib .lexerError) (g : AV.GNFA σ Str) (e : Exn)
    (h : g.validateStr rxValid = .error e) : (absGNFA rxValid g).validate = .error e := by
  rw [C19_gnfa_validate_bridge rxValid hrx g, h]

/-! ### the models agree on concrete GNFAs (accepted, and rejected with each class) -/

/-- A GNFA with compound labels over `{a, b}` and the operator characters: initial state 2,
final state 3. -/
def brG : AV.GNFA Nat Str :=
  { states := [0, 1, 2, 3], syms := ['a', 'b'],
    trans := [(0, [(0, some ['(', 'a', 'b', ')', '*']), (1, some ['a', '|', 'b']), (3, some [])]),
              (1, [(0, some ['b', '?']), (1, none), (3, none)]),
              (2, [(0, some []), (1, none), (3, none)])],
    init := 2, final := 3 }

example : brG.validateStr simpleRxValid = .ok () := by decide
example : (absGNFA simpleRxValid brG).validate = .ok () := by decide
/-- The abstraction is not trivial: operator characters become `.extra`, symbols `.sym`. -/
example : absLabel ['a', 'b'] simpleRxValid ['a', '|', 'b'] =
    { chars := [.sym 'a', .extra "|", .sym 'b'], verdict := .valid } := by decide

/-- A character outside Σ ∪ {*|()?} in a label: `InvalidRegexError` in both models. -/
def brBadChar : AV.GNFA Nat Str := { brG with trans := brG.trans.map fun kv =>
  (kv.1, kv.2.map fun e => (e.1, if e.2 = some ['b', '?'] then some ['c', '?'] else e.2)) }
example : brBadChar.validateStr simpleRxValid = .error (.lib .invalidRegexError) := by decide
example : (absGNFA simpleRxValid brBadChar).validate = .error (.lib .invalidRegexError) := by decide

/-- A label over the right characters that is not a regex (`b|`): `InvalidRegexError`. -/
def brBadRegex : AV.GNFA Nat Str := { brG with trans := brG.trans.map fun kv =>
  (kv.1, kv.2.map fun e => (e.1, if e.2 = some ['b', '?'] then some ['b', '|'] else e.2)) }
example : brBadRegex.validateStr simpleRxValid = .error (.lib .invalidRegexError) := by decide
example : (absGNFA simpleRxValid brBadRegex).validate = .error (.lib .invalidRegexError) := by decide

/-- A line feed as input symbol and label: the `LexerError` escapes `validate` in both models. -/
def brLexer : AV.GNFA Nat Str :=
  { states := [0, 1, 2], syms := ['\n'],
    trans := [(0, [(0, some ['\n']), (2, some [])]), (1, [(0, some []), (2, none)])],
    init := 1, final := 2 }
example : brLexer.validateStr simpleRxValid = .error (.lib .lexerError) := by decide
example : (absGNFA simpleRxValid brLexer).validate = .error (.lib .lexerError) := by decide

/-- A structural defect (a labelled transition into the initial state): same class again. -/
def brIntoInit : AV.GNFA Nat Str := { brG with trans := brG.trans.map fun kv =>
  (kv.1, if kv.1 = 1 then kv.2 ++ [(2, some ['a'])] else kv.2) }
example : brIntoInit.validateStr simpleRxValid = .error (.lib .invalidStateError) := by decide
example : (absGNFA simpleRxValid brIntoInit).validate = .error (.lib .invalidStateError) := by decide

/-- The hypotheses of `C19_gnfa_validate_bridge` are met by `simpleRxValid` on `brG`. -/
example : (absGNFA simpleRxValid brG).validate = brG.validateStr simpleRxValid :=
  C19_gnfa_validate_bridge simpleRxValid C19_simpleRxValid_only_lexerError brG

/-! ## GNFA results are valid in the abstract model too -/

/-- Whatever `GNFA.from_dfa` returns (any validator, any fresh-name function, any source) passes
the abstract-label `GNFA.validate` of C19 and is well-formed (`VA.GNFA.WF`). -/
theorem C19_from_dfa_result_valid_abs (rxValid : Str → Res Bool) (natName : Nat → σ)
    (d : DFA σ Char) (g : AV.GNFA σ Str) (h : fromDFA rxValid natName d = .ok g) :
    (absGNFA rxValid g).validate = .ok () ∧ (absGNFA rxValid g).WF :=
  have hv := (C19_gnfa_validate_bridge_ok rxValid g).mpr (Alphabet.fromDFA_ok h).1
  ⟨hv, (C19_gnfa_validate_iff _).mp hv⟩

/-- The same for `GNFA.from_nfa`. -/
theorem C19_from_nfa_result_valid_abs (rxValid : Str → Res Bool) (natName : Nat → σ)
    (n : NFA σ Char) (g : AV.GNFA σ Str) (h : fromNFA rxValid natName n = .ok g) :
    (absGNFA rxValid g).validate = .ok () ∧ (absGNFA rxValid g).WF :=
  have hv := (C19_gnfa_validate_bridge_ok rxValid g).mpr (Alphabet.fromNFA_ok h).1
  ⟨hv, (C19_gnfa_validate_iff _).mp hv⟩

/-- The GNFA fields of `ResultsValid` (Props/C19b.lean) restated with the `validate` of C19's own
GNFA model: `GNFA.from_dfa(d)` / `GNFA.from_nfa(n)` on a valid source over literal symbols return
a GNFA that passes `VA.GNFA.validate`. -/
structure GnfaResultsValidAbs : Prop where
  gnfa_from_dfa : ∀ {σ : Type} [DecidableEq σ] (natName : Nat → σ), Function.Injective natName →
    ∀ d : DFA σ Char, d.validate = .ok () → (∀ a ∈ d.syms, IsLit a) →
    ∃ g, fromDFA simpleRxValid natName d = .ok g ∧ (absGNFA simpleRxValid g).validate = .ok ()
  gnfa_from_nfa : ∀ {σ : Type} [DecidableEq σ] (natName : Nat → σ), Function.Injective natName →
    ∀ n : NFA σ Char, n.validate = .ok () → (∀ kv ∈ n.trans, (akeys kv.2).Nodup) →
    (∀ kv ∈ n.trans, ∀ e ∈ kv.2, e.2.Nodup) → (∀ a ∈ n.syms, IsLit a) →
    ∃ g, fromNFA simpleRxValid natName n = .ok g ∧ (absGNFA simpleRxValid g).validate = .ok ()

/-- **C19_gnfa_results_valid_abs** — derived from `C19_results_valid` through the bridge. -/
theorem C19_gnfa_results_valid_abs : GnfaResultsValidAbs where
  gnfa_from_dfa := fun natName hinj d hv hlit =>
    let ⟨g, h, v⟩ := C19_results_valid.gnfa_from_dfa natName hinj d hv hlit
    ⟨g, h, (C19_gnfa_validate_bridge_ok simpleRxValid g).mpr v⟩
  gnfa_from_nfa := fun natName hinj n hv hkeys htgts hlit =>
    let ⟨g, h, v⟩ := C19_results_valid.gnfa_from_nfa natName hinj n hv hkeys htgts hlit
    ⟨g, h, (C19_gnfa_validate_bridge_ok simpleRxValid g).mpr v⟩

/-- On the examples of C12: the GNFAs `from_dfa` / `from_nfa` build pass the abstract model. -/
example : (absGNFA simpleRxValid C12.exG).validate = .ok () :=
  (C19_from_dfa_result_valid_abs simpleRxValid id C12.exDFA C12.exG (by decide)).1
example : (absGNFA simpleRxValid C12.exGN).validate = .ok () :=
  (C19_from_nfa_result_valid_abs simpleRxValid id C12.exNFA C12.exGN (by decide)).1
example : (absGNFA simpleRxValid C12.exG).validate = .ok () := by decide

/-- The negative result of C12b (`loop_space`: a white-space input symbol makes the constructor
of `from_dfa`'s result raise `LexerError`) holds in the abstract model with the same class. -/
theorem C19_loop_space_abs {c : Char} (hsp : pyIsSpace c = true) (h1 : c ≠ ' ') (h2 : c ≠ '\t') :
    (absGNFA simpleRxValid (C12.loopG c)).validate = .error (.lib .lexerError) :=
  C19_gnfa_validateStr_error simpleRxValid simpleRxValid_error _ _ (C12.loop_space hsp h1 h2)

example : (absGNFA simpleRxValid (C12.loopG '\n')).validate = .error (.lib .lexerError) :=
  C19_loop_space_abs (by decide) (by decide) (by decide)

end AV.Props.C19
