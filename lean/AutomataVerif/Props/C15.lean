/-
Props/C15.lean — C15: language constructors build exactly the specified language, minimal if
promised.

English statement (properties.jsonl): the DFA constructors for 'has prefix', 'has suffix',
'contains substring', 'contains one of several substrings', 'contains subsequence', 'length
(of counted symbols) in a range', 'count of symbols modulo k', 'n-th symbol from start / from
end', a given finite language, the universal and the empty language accept exactly the strings
satisfying that predicate, and exactly its complement when complementation is requested, in
both partial and complete form.  Where the documentation promises the minimal DFA, no
equivalent DFA of the same kind has fewer states (for non-empty patterns over alphabets of at
least two symbols).

Reading of the statements below.
* `Builds r syms L`: the constructor call `r` returns (no exception, no fuel exhaustion) a DFA
  `d` that passes `validate`, is over the alphabet `syms`, and accepts exactly the words over
  `syms` that satisfy `L` — acceptance is `DFA.accepts`, which C01 proves equal to Mathlib's
  `DFA.accepts` of the table completed with a sink.  "The complement when complementation is
  requested" is `L w ↔ contains = true` with the flag `contains : Bool`.
* The predicates are the library notions of Lean core: `p <+: w` (prefix), `p <:+ w` (suffix),
  `p <:+: w` (contiguous substring), `List.Sublist p w` (subsequence), `countIn cnt w` (number
  of symbols of `w` in `cnt`), `w[i]?` (symbol at a position).
* Minimality: `MinimalShape d` (no repeated state, every state reachable by a word over the
  alphabet, any two states distinguished by a word over the alphabet; for partial results
  `MinimalPartialShape` adds: every state is live) and its consequence, by the counting lemmas
  of `Proofs/Minimal.lean` (`C15_minimal_of_shape`, `C15_minimal_of_partial_shape`),
  `MinimalAmongComplete d` / `MinimalAmongAll d`: every valid complete DFA (over an alphabet
  containing that of `d`) / every valid DFA whatsoever with the same language has at least as
  many (live) states.
-/
import AutomataVerif.Proofs.CtorNth
import AutomataVerif.Proofs.CtorPrefix
import AutomataVerif.Proofs.CtorKMPDfa
import AutomataVerif.Proofs.CtorACDfa
import AutomataVerif.Proofs.CtorFLMinimal
import AutomataVerif.Proofs.Minimal
import AutomataVerif.Proofs.CtorErrors

namespace AV.Props.C15
open AV AV.Ctor

variable {α : Type} [DecidableEq α] {σ : Type} [DecidableEq σ]

/-- The constructor call `r` returns a valid DFA over `syms` whose language is
`{w ∈ syms* | L w}`. -/
def Builds (r : Res (DFA σ α)) (syms : List α) (L : List α → Prop) : Prop :=
  ∃ d, r = .ok d ∧ d.validate = .ok () ∧ d.syms = syms ∧
    ∀ w, d.accepts w = true ↔ (Over syms w ∧ L w)

/-- No valid *complete* DFA with the same language, over an alphabet containing that of `d`, has
fewer states. -/
def MinimalAmongComplete (d : DFA σ α) : Prop :=
  ∀ (σ' : Type) [DecidableEq σ'] (d' : DFA σ' α), d'.validate = .ok () → d'.allowPartial = false →
    (∀ a ∈ d.syms, a ∈ d'.syms) → (∀ w, d'.accepts w = d.accepts w) →
    d.states.length ≤ d'.states.length

/-- No valid DFA at all (partial or complete, any alphabet) with the same language has fewer
states — not even fewer *live* states. -/
def MinimalAmongAll (d : DFA σ α) : Prop :=
  ∀ (σ' : Type) [DecidableEq σ'] (d' : DFA σ' α), d'.validate = .ok () →
    (∀ w, d'.accepts w = d.accepts w) →
    d.states.length ≤ d'.liveStates.length ∧ d'.liveStates.length ≤ d'.states.length

/-- **Counting lemma** (`Proofs/Minimal.lean`, shared with C05).  All states reachable and
pairwise distinguishable ⇒ no equivalent complete DFA has fewer states. -/
theorem C15_minimal_of_shape (d : DFA σ α) (wf : d.WF) (h : MinimalShape d) : MinimalAmongComplete d := by
  intro σ' _ d' hv hc hs hl
  exact DFA.minimal_of_reachable_distinguishable_complete d d' wf h.nodup
    (fun q hq => let ⟨w, _, hw⟩ := h.reach q hq; ⟨w, hw⟩)
    (fun p hp q hq hne => let ⟨w, _, hw⟩ := h.dist p hp q hq hne; ⟨w, hw⟩)
    ((DFA.validate_eq_ok d').mp hv) hc hs hl

/-- All states reachable, pairwise distinguishable and live ⇒ no equivalent DFA, partial or
complete, has fewer (live) states. -/
theorem C15_minimal_of_partial_shape (d : DFA σ α) (h : MinimalPartialShape d) :
    MinimalAmongAll d := by
  intro σ' _ d' hv hl
  exact DFA.minimal_of_reachable_distinguishable_partial d d' h.nodup
    (fun q hq => let ⟨w, _, hw⟩ := h.reach q hq; ⟨w, hw⟩)
    (fun p hp q hq hne => let ⟨w, _, hw⟩ := h.dist p hp q hq hne; ⟨w, hw⟩)
    (fun q hq => let ⟨w, _, hw⟩ := h.live q hq; ⟨w, hw⟩)
    ((DFA.validate_eq_ok d').mp hv) hl

private theorem builds_of (syms : List α) {D : DFA σ α} {r : Res (DFA σ α)} (hr : r = build D)
    (wf : D.WF) (hs : D.syms = syms) {L : List α → Prop}
    (hl : ∀ w, D.accepts w = true ↔ (Over syms w ∧ L w)) : Builds r syms L :=
  ⟨D, by rw [hr]; exact build_ok_of_wf wf, (DFA.validate_eq_ok D).mpr wf, hs, hl⟩

private theorem eq_of_build {D d : DFA σ α} {r : Res (DFA σ α)} (hr : r = build D)
    (h : r = .ok d) : d = D := by
  rw [hr] at h; exact (build_ok_iff.mp h).1

private theorem wf_of_build {D d : DFA σ α} {r : Res (DFA σ α)} (hr : r = build D)
    (h : r = .ok d) : D.WF := by
  rw [hr] at h; exact (build_ok_iff.mp h).2

/-! ## universal_language, empty_language -/

/-- `universal_language(Σ)` is a valid complete one-state DFA accepting exactly `Σ*`; it is
minimal. -/
theorem C15_universal (syms : List α) :
    Builds (universalLanguage syms) syms (fun _ => True) ∧
    ∀ d, universalLanguage syms = .ok d →
      d.allowPartial = false ∧ MinimalShape d ∧ MinimalAmongComplete d := by
  refine ⟨builds_of syms rfl (loopDFA_wf 0 syms true) rfl (fun w => by
    rw [loopDFA_accepts]; simp), ?_⟩
  intro d hd
  have hwf := wf_of_build rfl hd
  rw [eq_of_build rfl hd]
  exact ⟨rfl, loopDFA_minimal 0 syms true, C15_minimal_of_shape _ hwf (loopDFA_minimal 0 syms true)⟩

/-- `empty_language(Σ)` is a valid complete one-state DFA accepting nothing; it is minimal. -/
theorem C15_empty (syms : List α) :
    Builds (emptyLanguage syms) syms (fun _ => False) ∧
    ∀ d, emptyLanguage syms = .ok d →
      d.allowPartial = false ∧ MinimalShape d ∧ MinimalAmongComplete d := by
  refine ⟨builds_of syms rfl (loopDFA_wf 0 syms false) rfl (fun w => by
    rw [loopDFA_accepts]; simp), ?_⟩
  intro d hd
  have hwf := wf_of_build rfl hd
  rw [eq_of_build rfl hd]
  exact ⟨rfl, loopDFA_minimal 0 syms false, C15_minimal_of_shape _ hwf (loopDFA_minimal 0 syms false)⟩

example : Builds (universalLanguage ['a', 'b']) ['a', 'b'] (fun _ => True) := (C15_universal _).1

/-! ## count_mod -/

/-- `count_mod(Σ, k, remainders, symbols_to_count)` with `k > 0` and remainders in `range(k)`:
a valid complete DFA accepting exactly the words over `Σ` whose number of counted symbols is,
modulo `k`, one of the remainders (defaults: `{0}`, all symbols). -/
theorem C15_count_mod (syms : List α) (k : Int) (hk : 0 < k) (remainders : Option (List Int))
    (count : Option (List α)) (hrem : ∀ r ∈ remainders.getD [0], 0 ≤ r ∧ r < k) :
    Builds (countMod syms k remainders count) syms
      (fun w => ((countIn (count.getD syms) w : Int) % k) ∈ remainders.getD [0]) := by
  have hkn : 0 < k.toNat := by omega
  have hfin : ∀ r ∈ remainders.getD [0], 0 ≤ r ∧ r < (k.toNat : Int) := by
    intro r hr; have := hrem r hr; omega
  refine builds_of syms (countMod_eq syms k hk remainders count)
    (countModDFA_wf syms k.toNat _ hkn _ hfin) rfl (fun w => ?_)
  rw [countModDFA_accepts syms k.toNat _ hkn _ hfin]
  have : nat (countIn (count.getD syms) w % k.toNat) = (countIn (count.getD syms) w : Int) % k := by
    rw [nat_cast, Int.natCast_emod, Int.toNat_of_nonneg (by omega)]
  rw [this]

/-- `count_mod` raises `ValueError` when `k ≤ 0`. -/
theorem C15_count_mod_nonpositive (syms : List α) (k : Int) (hk : k ≤ 0)
    (remainders : Option (List Int)) (count : Option (List α)) :
    countMod syms k remainders count = .error (.py .valueError) := by
  unfold countMod; simp [hk]

example : Builds (countMod ['a', 'b'] 3 (some [1, 2]) (some ['a'])) ['a', 'b']
    (fun w => ((countIn ['a'] w : Int) % 3) ∈ [1, 2]) :=
  C15_count_mod _ 3 (by decide) _ _ (by decide)

/-! ## of_length -/

/-- `of_length(Σ, min_length, max_length, symbols_to_count)`, general form: a valid complete DFA
accepting exactly the words over `Σ` whose number of counted symbols lies between `min_length`
and `max_length` (no upper bound for `None`) — all parameter values, degenerate ones included
(`min > max`, `max < 0`, nothing counted, negative `min_length` without a maximum), with the one
exception stated by `C15_of_length_negative_min` below (negative `min_length` together with a
non-negative `max_length` and a counted symbol in `Σ`: the code raises). -/
theorem C15_of_length_general (syms : List α) (minLen : Int) (maxLen : Option Int)
    (count : Option (List α))
    (h : 0 ≤ minLen ∨ maxLen = none ∨ (∃ mx, maxLen = some mx ∧ mx < 0) ∨
      (∀ a ∈ syms, a ∉ count.getD syms)) :
    Builds (ofLength syms minLen maxLen count) syms
      (fun w => minLen ≤ countIn (count.getD syms) w ∧
        ∀ mx, maxLen = some mx → (countIn (count.getD syms) w : Int) ≤ mx) := by
  cases hdis : isDisjoint syms (count.getD syms) with
  | true =>
    -- first early return: nothing counted, every word has counted length 0
    have hd := (isDisjoint_iff syms _).mp hdis
    refine builds_of syms (ofLength_eq_disjoint syms minLen maxLen count hdis) (loopDFA_wf 0 syms _) rfl
      (fun w => ?_)
    rw [loopDFA_accepts, zeroInRange_iff]
    refine and_congr_right fun hw => ?_
    rw [countIn_eq_zero_of_disjoint hd hw]
    simp
  | false =>
    cases hemp : emptyRange minLen maxLen with
    | true =>
      -- second early return: empty range of lengths
      obtain ⟨mx, rfl, hmx⟩ := (emptyRange_iff _ _).mp hemp
      refine builds_of syms (ofLength_eq_emptyRange syms minLen _ count hdis hemp) (loopDFA_wf 0 syms false)
        rfl (fun w => ?_)
      rw [loopDFA_accepts]
      simp only [Bool.false_eq_true, and_false, false_iff, not_and]
      intro _ h1 h2
      have := h2 mx rfl
      omega
    | false =>
      have hne : ¬ ∃ mx, maxLen = some mx ∧ (mx < minLen ∨ mx < 0) := by
        rw [← emptyRange_iff, hemp]; simp
      obtain ⟨c, hc, hcc⟩ := (isDisjoint_eq_false_iff syms _).mp hdis
      cases maxLen with
      | none =>
        have hfin : ∀ r ∈ [nat minLen.toNat], 0 ≤ r ∧ r ≤ (minLen.toNat : Int) := by
          intro r hr
          simp only [List.mem_singleton] at hr
          rw [hr, nat_cast]; omega
        refine builds_of syms (ofLength_eq syms minLen none count hdis hemp) (ofLengthDFA_wf syms _ _ _ hfin) rfl
          (fun w => ?_)
        rw [ofLengthDFA_accepts syms _ _ _ hfin]
        simp only [List.mem_singleton, nat_inj, reduceCtorEq, false_implies, implies_true, and_true]
        constructor
        · rintro ⟨h1, h2⟩; exact ⟨h1, by omega⟩
        · rintro ⟨h1, h2⟩; exact ⟨h1, by omega⟩
      | some mx =>
        have hmx : minLen ≤ mx ∧ 0 ≤ mx := by
          constructor
          · exact Int.not_lt.mp fun hlt => hne ⟨mx, rfl, Or.inl hlt⟩
          · exact Int.not_lt.mp fun hlt => hne ⟨mx, rfl, Or.inr hlt⟩
        have hmin : 0 ≤ minLen := by
          rcases h with h | h | ⟨m, hm, hm0⟩ | h
          · exact h
          · cases h
          · cases hm; omega
          · exact absurd hcc (h c hc)
        have hfin : ∀ r ∈ (List.range (mx + 1 - minLen).toNat).map (fun j => minLen + nat j),
            0 ≤ r ∧ r ≤ ((mx + 1).toNat : Int) := by
          intro r hr
          simp only [List.mem_map, List.mem_range] at hr
          obtain ⟨j, hj, rfl⟩ := hr
          rw [nat_cast]; omega
        refine builds_of syms (ofLength_eq syms minLen (some mx) count hdis hemp)
          (ofLengthDFA_wf syms _ _ _ hfin) rfl (fun w => ?_)
        rw [ofLengthDFA_accepts syms _ _ _ hfin]
        simp only [List.mem_map, List.mem_range, Option.some.injEq, forall_eq']
        generalize countIn (count.getD syms) w = c
        constructor
        · rintro ⟨h1, j, hj, e⟩
          rw [nat_cast, nat_cast] at e
          exact ⟨h1, by omega, by omega⟩
        · rintro ⟨h1, h2, h3⟩
          refine ⟨h1, (c - minLen).toNat, by omega, ?_⟩
          rw [nat_cast, nat_cast]; omega

/-- `of_length` with `min_length ≥ 0` (lengths are naturals): all parameter values, degenerate
ones included (`min > max`, nothing counted). -/
theorem C15_of_length (syms : List α) (minLen : Int) (hmin : 0 ≤ minLen) (maxLen : Option Int)
    (count : Option (List α)) :
    Builds (ofLength syms minLen maxLen count) syms
      (fun w => minLen ≤ countIn (count.getD syms) w ∧
        ∀ mx, maxLen = some mx → (countIn (count.getD syms) w : Int) ≤ mx) :=
  C15_of_length_general syms minLen maxLen count (Or.inl hmin)

/-- `of_length` without a maximum: every `min_length`, negative ones included (the language is
then `Σ*`). -/
theorem C15_of_length_unbounded (syms : List α) (minLen : Int) (count : Option (List α)) :
    Builds (ofLength syms minLen none count) syms
      (fun w => minLen ≤ countIn (count.getD syms) w) := by
  obtain ⟨d, h1, h2, h3, h4⟩ := C15_of_length_general syms minLen none count (Or.inr (Or.inl rfl))
  exact ⟨d, h1, h2, h3, fun w => by rw [h4]; simp⟩

/-- The error outcome of `of_length`: a negative `min_length` with a non-negative `max_length`
and some counted symbol in the alphabet makes `final_states = range(min_length, max_length + 1)`
contain negative numbers, which are not states — the constructor raises `InvalidStateError`
(no DFA, in particular no wrong DFA, is returned).  Together with `C15_of_length_general` this
covers every input. -/
theorem C15_of_length_negative_min (syms : List α) (minLen : Int) (hmin : minLen < 0) (mx : Int)
    (hmx : 0 ≤ mx) (count : Option (List α)) (c : α) (hc : c ∈ syms) (hcc : c ∈ count.getD syms) :
    ofLength syms minLen (some mx) count = .error (.lib .invalidStateError) := by
  have hdis : isDisjoint syms (count.getD syms) = false :=
    (isDisjoint_eq_false_iff syms _).mpr ⟨c, hc, hcc⟩
  have hemp : emptyRange minLen (some mx) = false := by
    rw [← Bool.not_eq_true, emptyRange_iff]
    rintro ⟨m, hm, h⟩
    cases hm; omega
  rw [ofLength_eq syms minLen (some mx) count hdis hemp]
  exact ofLengthDFA_negative_min syms _ minLen hmin mx hmx

/-- Minimality of `of_length` for **all** parameters (since the repair bcfb456 the degenerate
ones — empty range, nothing counted — return the one-state automaton): whenever a DFA is
returned it is complete with all states reachable and pairwise distinguishable, hence no
equivalent complete DFA is smaller. -/
theorem C15_of_length_minimal (syms : List α) (minLen : Int) (maxLen : Option Int)
    (count : Option (List α)) :
    ∀ d, ofLength syms minLen maxLen count = .ok d →
      d.allowPartial = false ∧ MinimalShape d ∧ MinimalAmongComplete d := by
  intro d hd
  cases hdis : isDisjoint syms (count.getD syms) with
  | true =>
    have e := ofLength_eq_disjoint syms minLen maxLen count hdis
    have hwf := wf_of_build e hd
    rw [eq_of_build e hd]
    exact ⟨by cases zeroInRange minLen maxLen <;> rfl, loopDFA_minimal 0 syms _,
      C15_minimal_of_shape _ hwf (loopDFA_minimal 0 syms _)⟩
  | false =>
    cases hemp : emptyRange minLen maxLen with
    | true =>
      have e := ofLength_eq_emptyRange syms minLen maxLen count hdis hemp
      have hwf := wf_of_build e hd
      rw [eq_of_build e hd]
      exact ⟨rfl, loopDFA_minimal 0 syms false, C15_minimal_of_shape _ hwf (loopDFA_minimal 0 syms false)⟩
    | false =>
      have hne : ¬ ∃ mx, maxLen = some mx ∧ (mx < minLen ∨ mx < 0) := by
        rw [← emptyRange_iff, hemp]; simp
      obtain ⟨c, hc, hcc⟩ := (isDisjoint_eq_false_iff syms _).mp hdis
      cases maxLen with
      | none =>
        have hwf := wf_of_build (ofLength_eq syms minLen none count hdis hemp) hd
        rw [eq_of_build (ofLength_eq syms minLen none count hdis hemp) hd]
        have h : MinimalShape (ofLengthDFA syms minLen.toNat (count.getD syms) [nat minLen.toNat]) := by
          apply ofLengthDFA_minimal syms _ _ _ c hc hcc
          intro i j hij hj
          refine ⟨minLen.toNat - j, ?_⟩
          simp only [List.mem_singleton, nat_inj]
          have h1 : ¬ min minLen.toNat (i + (minLen.toNat - j)) = minLen.toNat := by omega
          have h2 : min minLen.toNat (j + (minLen.toNat - j)) = minLen.toNat := by omega
          simp [h1, h2]
        exact ⟨rfl, h, C15_minimal_of_shape _ hwf h⟩
      | some mx =>
        have hm : minLen ≤ mx := Int.not_lt.mp fun hlt => hne ⟨mx, rfl, Or.inl hlt⟩
        have hm0 : 0 ≤ mx := Int.not_lt.mp fun hlt => hne ⟨mx, rfl, Or.inr hlt⟩
        have hwf := wf_of_build (ofLength_eq syms minLen (some mx) count hdis hemp) hd
        rw [eq_of_build (ofLength_eq syms minLen (some mx) count hdis hemp) hd]
        have h : MinimalShape (ofLengthDFA syms (mx + 1).toNat (count.getD syms)
            ((List.range (mx + 1 - minLen).toNat).map fun j => minLen + nat j)) := by
          apply ofLengthDFA_minimal syms _ _ _ c hc hcc
          intro i j hij hj
          refine ⟨mx.toNat - i, ?_⟩
          have h1 : nat (min (mx + 1).toNat (i + (mx.toNat - i))) ∈
              (List.range (mx + 1 - minLen).toNat).map (fun j => minLen + nat j) := by
            simp only [List.mem_map, List.mem_range]
            refine ⟨(mx - minLen).toNat, by omega, ?_⟩
            rw [nat_cast, nat_cast]; omega
          have h2 : ¬ nat (min (mx + 1).toNat (j + (mx.toNat - i))) ∈
              (List.range (mx + 1 - minLen).toNat).map (fun j => minLen + nat j) := by
            simp only [List.mem_map, List.mem_range, not_exists, not_and]
            intro x hx e
            rw [nat_cast, nat_cast] at e
            omega
          simp [h1, h2]
        exact ⟨rfl, h, C15_minimal_of_shape _ hwf h⟩

/-- The number of states `of_length` returns: one for the two early returns, otherwise one per
counter value `0 … min` resp. `0 … max + 1`. -/
theorem C15_of_length_size (syms : List α) (minLen : Int) (maxLen : Option Int)
    (count : Option (List α)) :
    ∀ d, ofLength syms minLen maxLen count = .ok d →
      d.states.length =
        if isDisjoint syms (count.getD syms) || emptyRange minLen maxLen then 1
        else match maxLen with
          | none => minLen.toNat + 1
          | some mx => (mx + 1).toNat + 1 := by
  intro d hd
  have hlen : ∀ n cnt, (akeys (ofLengthTable syms n cnt)).length = n + 1 := by
    intro n cnt
    unfold ofLengthTable
    rw [akeys, List.length_map, length_ainsert_new]
    · simp
    · rw [akeys_rangeMap]
      simp only [List.mem_map, List.mem_range, not_exists, not_and, nat_inj]
      intro x hx e; omega
  cases hdis : isDisjoint syms (count.getD syms) with
  | true =>
    rw [eq_of_build (ofLength_eq_disjoint syms minLen maxLen count hdis) hd]
    simp [loopDFA]
  | false =>
    cases hemp : emptyRange minLen maxLen with
    | true =>
      rw [eq_of_build (ofLength_eq_emptyRange syms minLen maxLen count hdis hemp) hd]
      simp [loopDFA]
    | false =>
      rw [eq_of_build (ofLength_eq syms minLen maxLen count hdis hemp) hd]
      cases maxLen <;> simp [ofLengthDFA, hlen]

example : Builds (ofLength ['a', 'b'] 1 (some 2) (some ['a'])) ['a', 'b']
    (fun w => (1 : Int) ≤ countIn ['a'] w ∧ ∀ mx, some (2 : Int) = some mx → (countIn ['a'] w : Int) ≤ mx) :=
  C15_of_length _ 1 (by decide) _ _

example : ofLength ['a', 'b'] (-2) (some 1) (some ['b']) = .error (.lib .invalidStateError) :=
  C15_of_length_negative_min _ _ (by decide) _ (by decide) _ 'b' (by decide) (by decide)

/-! ## nth_from_start, nth_from_end -/

/-- `nth_from_start(Σ, s, n)` with `n ≥ 1`, `s ∈ Σ`: a valid complete DFA accepting exactly the
words over `Σ` whose `n`-th symbol (index `n-1`) is `s` — also over a one-symbol alphabet,
where the code delegates to `of_length`. -/
theorem C15_nth_from_start (syms : List α) (s : α) (n : Int) (hn : 1 ≤ n) (hs : s ∈ syms) :
    Builds (nthFromStart syms s n) syms (fun w => w[n.toNat - 1]? = some s) := by
  by_cases hlen : syms.length = 1
  · have hfin : ∀ r ∈ [nat n.toNat], 0 ≤ r ∧ r ≤ (n.toNat : Int) := by
      intro r hr
      simp only [List.mem_singleton] at hr
      rw [hr, nat_cast]; omega
    refine builds_of syms ((nthFromStart_eq_single syms s n hn hs hlen).trans (ofLength_eq_all syms n (by rintro rfl; cases hs)))
      (ofLengthDFA_wf syms _ _ _ hfin) rfl (fun w => ?_)
    rw [ofLengthDFA_accepts syms _ _ _ hfin]
    simp only [List.mem_singleton, nat_inj, Option.getD_none]
    constructor
    · rintro ⟨h1, h2⟩
      refine ⟨h1, (getElem?_single hlen hs h1 _).mpr ?_⟩
      rw [countIn_all h1] at h2; omega
    · rintro ⟨h1, h2⟩
      refine ⟨h1, ?_⟩
      have := (getElem?_single hlen hs h1 _).mp h2
      rw [countIn_all h1]; omega
  · refine builds_of syms (nthFromStart_eq syms s n hn hs hlen) (nthStartDFA_wf syms s _ hs) rfl
      (fun w => ?_)
    exact nthStartDFA_accepts syms s _ hs (by omega) w

/-- `nth_from_end(Σ, s, n)` with `n ≥ 1`, `s ∈ Σ`: a valid complete DFA accepting exactly the
words over `Σ` of length `≥ n` whose `n`-th symbol from the end (index `|w| - n`) is `s`. -/
theorem C15_nth_from_end (syms : List α) (s : α) (n : Int) (hn : 1 ≤ n) (hs : s ∈ syms) :
    Builds (nthFromEnd syms s n) syms
      (fun w => n.toNat ≤ w.length ∧ w[w.length - n.toNat]? = some s) := by
  have hrev : ∀ w : List α, w.reverse[n.toNat - 1]? = some s ↔
      (n.toNat ≤ w.length ∧ w[w.length - n.toNat]? = some s) := by
    intro w
    by_cases h : n.toNat - 1 < w.length
    · rw [List.getElem?_reverse h]
      have e : w.length - 1 - (n.toNat - 1) = w.length - n.toNat := by omega
      rw [e]
      constructor
      · intro h2; exact ⟨by omega, h2⟩
      · exact fun h2 => h2.2
    · rw [List.getElem?_eq_none (by rw [List.length_reverse]; omega)]
      constructor
      · intro h2; cases h2
      · rintro ⟨h2, _⟩; omega
  by_cases hlen : syms.length = 1
  · have hfin : ∀ r ∈ [nat n.toNat], 0 ≤ r ∧ r ≤ (n.toNat : Int) := by
      intro r hr
      simp only [List.mem_singleton] at hr
      rw [hr, nat_cast]; omega
    refine builds_of syms ((nthFromEnd_eq_single syms s n hn hs hlen).trans (ofLength_eq_all syms n (by rintro rfl; cases hs)))
      (ofLengthDFA_wf syms _ _ _ hfin) rfl (fun w => ?_)
    rw [ofLengthDFA_accepts syms _ _ _ hfin]
    simp only [List.mem_singleton, nat_inj, Option.getD_none]
    constructor
    · rintro ⟨h1, h2⟩
      rw [countIn_all h1] at h2
      exact ⟨h1, by omega, (getElem?_single hlen hs h1 _).mpr (by omega)⟩
    · rintro ⟨h1, h2, _⟩
      refine ⟨h1, ?_⟩
      rw [countIn_all h1]; omega
  · refine builds_of syms (nthFromEnd_eq syms s n hn hs hlen) (nthEndDFA_wf syms s _) rfl (fun w => ?_)
    rw [nthEndDFA_accepts syms s _ (by omega) w, hrev]

/-- The announced errors of `nth_from_start` / `nth_from_end`: `ValueError` for `n < 1`,
`InvalidSymbolError` for a symbol outside the alphabet. -/
theorem C15_nth_errors (syms : List α) (s : α) (n : Int) :
    (n < 1 → nthFromStart syms s n = .error (.py .valueError) ∧
             nthFromEnd syms s n = .error (.py .valueError)) ∧
    (1 ≤ n → s ∉ syms → nthFromStart syms s n = .error (.lib .invalidSymbolError) ∧
             nthFromEnd syms s n = .error (.lib .invalidSymbolError)) := by
  constructor
  · intro h; unfold nthFromStart nthFromEnd; simp [h]
  · intro h hs
    have : ¬ n < 1 := by omega
    unfold nthFromStart nthFromEnd; simp [this, hs]

/-- Minimality of `nth_from_start` and `nth_from_end` over alphabets with a second symbol
`t ≠ s`: `n + 2` resp. `2ⁿ` states, all reachable and pairwise distinguishable. -/
theorem C15_nth_minimal (syms : List α) (s : α) (n : Int) (hn : 1 ≤ n) (hs : s ∈ syms)
    (t : α) (ht : t ∈ syms) (hts : t ≠ s) :
    (∀ d, nthFromStart syms s n = .ok d →
      d.allowPartial = false ∧ d.states.length = n.toNat + 2 ∧ MinimalShape d ∧ MinimalAmongComplete d) ∧
    (∀ d, nthFromEnd syms s n = .ok d →
      d.allowPartial = false ∧ d.states.length = 2 ^ n.toNat ∧ MinimalShape d ∧ MinimalAmongComplete d) := by
  have hlen : syms.length ≠ 1 := by
    intro h
    obtain ⟨x, hx⟩ := List.length_eq_one_iff.mp h
    rw [hx] at hs ht
    simp only [List.mem_singleton] at hs ht
    exact hts (ht.trans hs.symm)
  constructor
  · intro d hd
    have hwf := wf_of_build (nthFromStart_eq syms s n hn hs hlen) hd
    rw [eq_of_build (nthFromStart_eq syms s n hn hs hlen) hd]
    have h := nthStartDFA_minimal syms s n.toNat hs (by omega) t ht hts
    refine ⟨rfl, ?_, h, C15_minimal_of_shape _ hwf h⟩
    show (akeys (nthStartTable syms s n.toNat)).length = _
    unfold nthStartTable
    rw [akeys, List.length_map, length_ainsert_new, length_ainsert_new]
    · simp
    · rw [akeys_rangeMap]
      simp only [List.mem_map, List.mem_range, not_exists, not_and, nat_inj]
      intro x hx e; omega
    · rw [mem_akeys_ainsert, akeys_rangeMap]
      simp only [List.mem_map, List.mem_range, not_or, not_exists, not_and, nat_succ, nat_inj]
      exact ⟨by omega, fun x hx e => by omega⟩
  · intro d hd
    have hwf := wf_of_build (nthFromEnd_eq syms s n hn hs hlen) hd
    rw [eq_of_build (nthFromEnd_eq syms s n hn hs hlen) hd]
    have h := nthEndDFA_minimal syms s n.toNat hs (by omega) t ht hts
    exact ⟨rfl, by simp [nthEndDFA], h, C15_minimal_of_shape _ hwf h⟩

/-- Over a one-symbol alphabet `nth_from_start` / `nth_from_end` delegate to
`of_length(min_length = n)`: `n + 1` states, minimal as well. -/
theorem C15_nth_minimal_single (syms : List α) (s : α) (n : Int) (hn : 1 ≤ n) (hs : s ∈ syms)
    (hlen : syms.length = 1) :
    (∀ d, nthFromStart syms s n = .ok d →
      d.allowPartial = false ∧ d.states.length = n.toNat + 1 ∧ MinimalShape d ∧ MinimalAmongComplete d) ∧
    (∀ d, nthFromEnd syms s n = .ok d →
      d.allowPartial = false ∧ d.states.length = n.toNat + 1 ∧ MinimalShape d ∧ MinimalAmongComplete d) := by
  have hne : syms ≠ [] := by rintro rfl; cases hs
  have hdis : isDisjoint syms ((none : Option (List α)).getD syms) = false := by
    rw [isDisjoint_eq_false_iff]; exact ⟨s, hs, hs⟩
  have key : ∀ d, ofLength syms n none none = .ok d →
      d.allowPartial = false ∧ d.states.length = n.toNat + 1 ∧ MinimalShape d ∧ MinimalAmongComplete d := by
    intro d hd
    obtain ⟨h1, h2, h3⟩ := C15_of_length_minimal syms n none none d hd
    have h4 := C15_of_length_size syms n none none d hd
    rw [hdis] at h4
    exact ⟨h1, by simpa [emptyRange] using h4, h2, h3⟩
  constructor
  · intro d hd
    rw [nthFromStart_eq_single syms s n hn hs hlen] at hd
    exact key d hd
  · intro d hd
    rw [nthFromEnd_eq_single syms s n hn hs hlen] at hd
    exact key d hd

/-- Minimality of `nth_from_start` / `nth_from_end` over **every** alphabet (a Python set:
duplicate-free) containing the symbol: one symbol (`C15_nth_minimal_single`) or more
(`C15_nth_minimal`). -/
theorem C15_nth_minimal_all (syms : List α) (hsyms : syms.Nodup) (s : α) (n : Int) (hn : 1 ≤ n)
    (hs : s ∈ syms) :
    (∀ d, nthFromStart syms s n = .ok d →
      d.allowPartial = false ∧ MinimalShape d ∧ MinimalAmongComplete d) ∧
    (∀ d, nthFromEnd syms s n = .ok d →
      d.allowPartial = false ∧ MinimalShape d ∧ MinimalAmongComplete d) := by
  by_cases hlen : syms.length = 1
  · obtain ⟨h1, h2⟩ := C15_nth_minimal_single syms s n hn hs hlen
    exact ⟨fun d hd => let ⟨a, _, b, c⟩ := h1 d hd; ⟨a, b, c⟩,
      fun d hd => let ⟨a, _, b, c⟩ := h2 d hd; ⟨a, b, c⟩⟩
  · obtain ⟨t, ht, hts⟩ : ∃ t ∈ syms, t ≠ s := by
      cases syms with
      | nil => cases hs
      | cons a rest =>
        cases rest with
        | nil => exact absurd rfl hlen
        | cons b rest' =>
          have hab : a ≠ b := by
            intro e
            rw [List.nodup_cons] at hsyms
            exact hsyms.1 (by simp [e])
          by_cases h : a = s
          · exact ⟨b, by simp, fun e => hab (h.trans e.symm)⟩
          · exact ⟨a, by simp, h⟩
    obtain ⟨h1, h2⟩ := C15_nth_minimal syms s n hn hs t ht hts
    exact ⟨fun d hd => let ⟨a, _, b, c⟩ := h1 d hd; ⟨a, b, c⟩,
      fun d hd => let ⟨a, _, b, c⟩ := h2 d hd; ⟨a, b, c⟩⟩

example : ∀ d, nthFromStart ['a'] 'a' 3 = .ok d →
    d.allowPartial = false ∧ d.states.length = (3 : Int).toNat + 1 ∧ MinimalShape d ∧ MinimalAmongComplete d :=
  (C15_nth_minimal_single ['a'] 'a' 3 (by decide) (by decide) rfl).1

example : Builds (nthFromEnd ['a', 'b'] 'a' 2) ['a', 'b']
    (fun w => (2 : Int).toNat ≤ w.length ∧ w[w.length - (2 : Int).toNat]? = some 'a') :=
  C15_nth_from_end _ _ 2 (by decide) (by decide)

/-! ## from_subsequence -/

/-- `from_subsequence(Σ, p, contains)` for a pattern over `Σ`: a valid complete DFA accepting
exactly the words over `Σ` that contain `p` as a (scattered) subsequence — or exactly those
that do not, when `contains = False`. -/
theorem C15_from_subsequence (syms p : List α) (hp : ∀ c ∈ p, c ∈ syms) (contains : Bool) :
    Builds (fromSubsequence syms p contains) syms (fun w => p.Sublist w ↔ contains = true) :=
  builds_of syms (fromSubsequence_eq syms p contains) (subseqDFA_wf syms p hp contains) rfl
    (subseqDFA_accepts syms p hp contains)

/-- Minimality of `from_subsequence`: `|p| + 1` states, all reachable, pairwise
distinguishable. -/
theorem C15_from_subsequence_minimal (syms p : List α) (hp : ∀ c ∈ p, c ∈ syms) (contains : Bool) :
    ∀ d, fromSubsequence syms p contains = .ok d →
      d.allowPartial = false ∧ MinimalShape d ∧ MinimalAmongComplete d := by
  intro d hd
  have hwf := wf_of_build (fromSubsequence_eq syms p contains) hd
  rw [eq_of_build (fromSubsequence_eq syms p contains) hd]
  have h := subseqDFA_minimal syms p hp contains
  exact ⟨rfl, h, C15_minimal_of_shape _ hwf h⟩

example : Builds (fromSubsequence ['a', 'b'] ['a', 'b', 'a'] false) ['a', 'b']
    (fun w => ['a', 'b', 'a'].Sublist w ↔ false = true) :=
  C15_from_subsequence _ _ (by decide) _

/-! ## from_prefix -/

/-- `from_prefix(Σ, p, contains, as_partial)` for a prefix over `Σ`, all four flag
combinations: a valid DFA accepting exactly the words over `Σ` that start with `p` (or exactly
those that do not, when `contains = False`). -/
theorem C15_from_prefix (syms p : List α) (hp : ∀ c ∈ p, c ∈ syms) (contains asPartial : Bool) :
    Builds (fromPrefix syms p contains asPartial) syms (fun w => p <+: w ↔ contains = true) := by
  by_cases h : (!asPartial || !contains) = true
  · refine builds_of syms ((fromPrefix_eq syms p contains asPartial).trans
      (by rw [prefixDFA_complete syms p contains asPartial h]))
      (prefCompleteDFA_wf syms p hp contains asPartial) rfl
      (prefCompleteDFA_accepts syms p hp contains asPartial)
  · have h1 : asPartial = true := by cases asPartial <;> simp_all
    have h2 : contains = true := by cases contains <;> simp_all
    subst h1 h2
    refine builds_of syms (fromPrefix_eq syms p true true) (prefPartialDFA_wf syms p hp) rfl (fun w => ?_)
    rw [show prefixDFA syms p true true = prefPartialDFA syms p from rfl,
      prefPartialDFA_accepts syms p hp w]
    simp

/-- The two forms of `from_prefix`.  Partial form (`as_partial` and `contains`): no trap
state — states `0 … |p|`, all reachable, live and pairwise distinguishable, hence no DFA at
all is smaller.  Complete form (otherwise): every state has a transition on every symbol
(`allow_partial = False` for a duplicate-free alphabet), and for a non-empty prefix over an
alphabet with a symbol `b` different from its first character all `|p| + 2` states are
reachable and pairwise distinguishable, hence no complete DFA is smaller. -/
theorem C15_from_prefix_minimal (syms p : List α) (hp : ∀ c ∈ p, c ∈ syms) :
    (∀ d, fromPrefix syms p true true = .ok d → MinimalPartialShape d ∧ MinimalAmongAll d) ∧
    (∀ contains asPartial d, (!asPartial || !contains) = true →
      fromPrefix syms p contains asPartial = .ok d →
      (∀ q ∈ d.states, ∀ a ∈ syms, ∃ q' ∈ d.states, d.step? (some q) a = some q') ∧
      (∀ b ∈ syms, p[0]? ≠ some b → p ≠ [] → MinimalShape d ∧ MinimalAmongComplete d)) := by
  constructor
  · intro d hd
    have hwf := wf_of_build (fromPrefix_eq syms p true true) hd
    rw [eq_of_build (fromPrefix_eq syms p true true) hd]
    have h := prefPartialDFA_minimal syms p hp
    exact ⟨h, C15_minimal_of_partial_shape _ h⟩
  · intro contains asPartial d hflag hd
    have e : d = prefCompleteDFA syms p contains asPartial := by
      rw [eq_of_build (fromPrefix_eq syms p contains asPartial) hd,
        prefixDFA_complete syms p contains asPartial hflag]
    rw [e]
    constructor
    · intro q hq a ha
      obtain ⟨s, hs, rfl⟩ := (prefComplete_states syms p contains asPartial q).mp hq
      refine ⟨_, ?_, prefComplete_step syms p contains asPartial s hs a ha⟩
      exact (prefComplete_states syms p contains asPartial _).mpr
        ⟨_, prefComplete_inv syms p s hs a, rfl⟩
    · intro b hb hb0 hne
      have h := prefCompleteDFA_minimal syms p hp contains asPartial b hb hb0 hne
      exact ⟨h, C15_minimal_of_shape _ (prefCompleteDFA_wf syms p hp contains asPartial) h⟩

example : Builds (fromPrefix ['a', 'b'] ['a', 'a', 'b'] false true) ['a', 'b']
    (fun w => ['a', 'a', 'b'] <+: w ↔ false = true) :=
  C15_from_prefix _ _ (by decide) _ _

/-! ## from_substring, from_suffix (Knuth–Morris–Pratt) -/

/-- The early return for patterns that every word satisfies (`if not substring: …`,
`if "" in substrings: …`): the universal language, or the empty one for the complement. -/
private theorem builds_trivial (syms : List α) (contains : Bool) (L : List α → Prop)
    (hL : ∀ w, L w) :
    Builds (if contains then universalLanguage syms else emptyLanguage syms) syms
      (fun w => L w ↔ contains = true) := by
  cases contains with
  | true =>
    refine builds_of syms rfl (loopDFA_wf 0 syms true) rfl (fun w => ?_)
    rw [loopDFA_accepts]; simp [hL w]
  | false =>
    refine builds_of syms rfl (loopDFA_wf 0 syms false) rfl (fun w => ?_)
    rw [loopDFA_accepts]; simp [hL w]

/-- `from_substring(Σ, p, contains)` (default `must_be_suffix=False`), for **every** pattern —
self-overlapping ones, the empty one (early return), patterns with symbols outside `Σ`: the KMP
table is built without error and the result is a valid complete DFA accepting exactly the words
over `Σ` that contain `p` as a contiguous substring (or exactly those that do not, when
`contains = False`). -/
theorem C15_from_substring (syms p : List α) (contains : Bool) :
    Builds (fromSubstring syms p contains false) syms (fun w => p <:+: w ↔ contains = true) := by
  by_cases hp : p = []
  · subst hp
    rw [KMP.fromSubstring_empty]
    exact builds_trivial syms contains (fun w => [] <:+: w) (fun w => List.nil_infix)
  · obtain ⟨T, hk, hT⟩ := KMP.kmpTable_ok p
    have hsf : false = true → p ≠ [] := fun _ => hp
    refine builds_of syms (KMP.fromSubstring_eq syms p T hT hk contains false hp)
      (KMP.kmpDFA_wf syms p T hT contains false hsf) rfl (fun w => ?_)
    rw [KMP.kmpDFA_accepts syms p T hT contains false hsf w]
    simp

/-- `from_suffix(Σ, p, contains)` = `from_substring(…, must_be_suffix=True)` for **every**
pattern (the empty one included, since the repair of finding F10a): a valid complete DFA
accepting exactly the words over `Σ` that end with `p` (or exactly those that do not). -/
theorem C15_from_suffix (syms p : List α) (contains : Bool) :
    Builds (fromSuffix syms p contains) syms (fun w => p <:+ w ↔ contains = true) ∧
    Builds (fromSubstring syms p contains true) syms (fun w => p <:+ w ↔ contains = true) := by
  have h : Builds (fromSubstring syms p contains true) syms (fun w => p <:+ w ↔ contains = true) := by
    by_cases hp : p = []
    · subst hp
      rw [KMP.fromSubstring_empty]
      exact builds_trivial syms contains (fun w => [] <:+ w) (fun w => List.nil_suffix)
    · obtain ⟨T, hk, hT⟩ := KMP.kmpTable_ok p
      have hsf : true = true → p ≠ [] := fun _ => hp
      refine builds_of syms (KMP.fromSubstring_eq syms p T hT hk contains true hp)
        (KMP.kmpDFA_wf syms p T hT contains true hsf) rfl (fun w => ?_)
      rw [KMP.kmpDFA_accepts syms p T hT contains true hsf w]
      simp
  exact ⟨h, h⟩

/-- The KMP invariant itself: in the suffix automaton of a non-empty pattern the state reached
on a word `w` over `Σ` is the length of the longest prefix of the pattern that is a suffix of
`w`. -/
theorem C15_from_suffix_state (syms p : List α) (hp : p ≠ []) (contains : Bool) :
    ∀ d, fromSuffix syms p contains = .ok d → ∀ w, Over syms w →
      ∃ k, d.run (some d.init) w = some (nat k) ∧
        (k ≤ p.length ∧ p.take k <:+ w) ∧ ∀ j, (j ≤ p.length ∧ p.take j <:+ w) → j ≤ k := by
  intro d hd w hw
  obtain ⟨T, hk, hT⟩ := KMP.kmpTable_ok p
  have hsf : true = true → p ≠ [] := fun _ => hp
  have hwf := wf_of_build (KMP.fromSubstring_eq syms p T hT hk contains true hp) hd
  rw [eq_of_build (KMP.fromSubstring_eq syms p T hT hk contains true hp) hd]
  refine ⟨w.foldl (KMP.kmpStepN p T true) 0, ?_, KMP.kmp_inv_suffix p T hT hp w⟩
  exact (KMP.kmpDFA_run syms p T hT contains true hsf 0 (Nat.zero_le _) w hw).1

/-- Minimality of `from_substring` / `from_suffix` for a pattern over `Σ` (the one-state
automaton of the empty pattern included): `|p| + 1` states, all reachable and pairwise
distinguishable, hence no equivalent complete DFA is smaller. -/
theorem C15_from_substring_minimal (syms p : List α) (hp : ∀ c ∈ p, c ∈ syms) (contains sf : Bool) :
    ∀ d, fromSubstring syms p contains sf = .ok d →
      d.allowPartial = false ∧ d.states.length = p.length + 1 ∧ MinimalShape d ∧
        MinimalAmongComplete d := by
  intro d hd
  by_cases hpe : p = []
  · subst hpe
    rw [KMP.fromSubstring_empty] at hd
    cases contains with
    | true =>
      have hr : universalLanguage syms = build (loopDFA 0 syms true) := rfl
      have hwf := wf_of_build hr hd
      rw [eq_of_build hr hd]
      exact ⟨rfl, rfl, loopDFA_minimal 0 syms true, C15_minimal_of_shape _ hwf (loopDFA_minimal 0 syms true)⟩
    | false =>
      have hr : emptyLanguage syms = build (loopDFA 0 syms false) := rfl
      have hwf := wf_of_build hr hd
      rw [eq_of_build hr hd]
      exact ⟨rfl, rfl, loopDFA_minimal 0 syms false, C15_minimal_of_shape _ hwf (loopDFA_minimal 0 syms false)⟩
  · obtain ⟨T, hk, hT⟩ := KMP.kmpTable_ok p
    have hsf : sf = true → p ≠ [] := fun _ => hpe
    have hwf := wf_of_build (KMP.fromSubstring_eq syms p T hT hk contains sf hpe) hd
    rw [eq_of_build (KMP.fromSubstring_eq syms p T hT hk contains sf hpe) hd]
    have h := KMP.kmpDFA_minimal syms p T hT hp contains sf hsf
    refine ⟨rfl, ?_, h, C15_minimal_of_shape _ hwf h⟩
    show (akeys (KMP.kmpTrans syms p T sf)).length = _
    unfold KMP.kmpTrans
    rw [akeys_rangeMap]; simp

example : Builds (fromSubstring ['a', 'b'] ['a', 'b', 'a', 'b'] true false) ['a', 'b']
    (fun w => ['a', 'b', 'a', 'b'] <:+: w ↔ true = true) := C15_from_substring _ _ _

example : Builds (fromSuffix ['a', 'b'] ['a', 'a', 'b', 'a', 'a'] false) ['a', 'b']
    (fun w => ['a', 'a', 'b', 'a', 'a'] <:+ w ↔ false = true) :=
  (C15_from_suffix _ _ _).1

example : Builds (fromSuffix ['a', 'b'] [] true) ['a', 'b'] (fun w => [] <:+ w ↔ true = true) :=
  (C15_from_suffix _ _ _).1

/-! ## from_substrings (Aho–Corasick) and from_finite_language

The models (`fromSubstrings`: trie with labels in insertion order, failure links, output links,
absorbing end state unless suffix mode; `fromFiniteLanguage`: sorted insertion into a trie with
a signature register and compression of the non-shared suffix of the previous word,
`_to_complete` with trap `0`) are executable and tied to the code by the correspondence run.
Their theorems are proved in general below. -/

/-- The verdict of the DFA returned by a constructor call (`none` if the call raised). -/
def verdict (r : Res (DFA σ α)) (w : List α) : Option Bool :=
  match r with
  | .ok d => some (d.accepts w)
  | .error _ => none

/-- Number of states of the DFA returned by a constructor call. -/
def size (r : Res (DFA σ α)) : Option Nat :=
  match r with
  | .ok d => some d.states.length
  | .error _ => none

/-- The exception raised by a constructor call, if any. -/
def raised (r : Res (DFA σ α)) : Option Exn :=
  match r with
  | .ok _ => none
  | .error e => some e

/-- Regression witnesses of the repaired finding F15 (fix bcfb456), evaluated on the model:
`of_length({'a'}, 3, 1)` and `of_length({'a','b'}, 2, 3, symbols_to_count={'c'})` have one state
and reject everything (before the repair: 3 resp. 5 states); a non-degenerate call keeps its
ladder; a negative minimum with a maximum raises `InvalidStateError`. -/
theorem C15_of_length_regressions :
    size (ofLength ['a'] 3 (some 1) none) = some 1 ∧
    verdict (ofLength ['a'] 3 (some 1) none) ['a', 'a'] = some false ∧
    size (ofLength ['a', 'b'] 2 (some 3) (some ['c'])) = some 1 ∧
    verdict (ofLength ['a', 'b'] 2 (some 3) (some ['c'])) ['a', 'b'] = some false ∧
    size (ofLength ['a', 'b'] 0 (some 3) (some ['c'])) = some 1 ∧
    verdict (ofLength ['a', 'b'] 0 (some 3) (some ['c'])) ['a', 'b'] = some true ∧
    size (ofLength ['a', 'b'] 1 (some 3) (some ['a', 'c'])) = some 5 ∧
    raised (ofLength ['a'] (-1) (some 1) none) = some (.lib .invalidStateError) := by decide

/-- `from_substrings(Σ, S, contains, must_be_suffix)` (Aho–Corasick) for every duplicate-free
alphabet, **every** list of patterns — over the alphabet or with symbols outside it (trie nodes
below such a symbol get a label but no row: the second BFS only follows symbols of `Σ`, and
`end_state = len(labels)` stays above every label, the repair of finding F20), in **every**
insertion order, with patterns that are prefixes / suffixes / infixes of one another, with the
empty pattern (early return, the repair of finding F10b) — and both values of both flags: the trie, the failure links and the output links
are built without error and the result is a valid complete DFA accepting exactly the words over
`Σ` that contain (resp. end with) one of the patterns, or exactly the others when
`contains = False`.  (The documentation does not promise minimality.)  Behind it
(`Proofs/CtorAC*.lean`): the insertion loop builds a trie of the prefixes of the patterns
(`acTrie_spec`); the first BFS sets every failure link to the node of the longest proper suffix
in the trie and makes the output chain non-empty iff a non-empty suffix is a pattern
(`acFailBfs_spec`, with the BFS-order invariant "everything not deeper than the head of the
queue is linked"); the goto function leads to the node of the longest suffix of `x·a` in the
trie (`acGoto_spec`); the state after `w` is the node of the longest suffix of `w` that is a
prefix of a pattern (`acState_spec`) — for a word over `Σ` that node is one of the tabulated
ones (`acState_vis`, `Tabulated`: one row per node whose string is over `Σ`) —, absorbing in
substring mode into the fresh state `len(labels)` (`acSub_inv`). -/
theorem C15_from_substrings_general (syms : List α) (hsyms : syms.Nodup) (pats : List (List α))
    (contains sf : Bool) :
    Builds (fromSubstrings syms pats contains sf) syms
      (fun w => (∃ p ∈ pats, if sf then p <:+ w else p <:+: w) ↔ contains = true) := by
  by_cases hne : [] ∈ pats
  · rw [AC.fromSubstrings_empty syms pats contains sf hne]
    apply builds_trivial syms contains (fun w => ∃ p ∈ pats, if sf then p <:+ w else p <:+: w)
    intro w
    refine ⟨[], hne, ?_⟩
    cases sf
    · exact List.nil_infix
    · exact List.nil_suffix
  · obtain ⟨nodes, paths, acc, hL, hTab, he⟩ :=
      AC.fromSubstrings_eq syms pats contains sf hsyms hne
    cases sf with
    | true =>
      refine builds_of syms he (AC.acSuffix_wf syms acc hL hTab contains) rfl (fun w => ?_)
      rw [AC.acSuffix_accepts syms acc hL hTab contains hne w]
      simp
    | false =>
      refine builds_of syms he (AC.acSub_wf syms acc hL hTab contains) rfl (fun w => ?_)
      rw [AC.acSub_accepts syms acc hL hTab contains w]
      simp

/-- The same for patterns over the alphabet (the form used by C19). -/
theorem C15_from_substrings (syms : List α) (hsyms : syms.Nodup) (pats : List (List α))
    (contains sf : Bool) (hover : ∀ p ∈ pats, ∀ c ∈ p, c ∈ syms) :
    Builds (fromSubstrings syms pats contains sf) syms
      (fun w => (∃ p ∈ pats, if sf then p <:+ w else p <:+: w) ↔ contains = true) :=
  C15_from_substrings_general syms hsyms pats contains sf

/-- Patterns with symbols outside the alphabet need no special treatment in the statement: a
word over `Σ` cannot contain them, so the language is that of the patterns over `Σ` alone. -/
theorem C15_from_substrings_foreign (syms : List α) (hsyms : syms.Nodup) (pats : List (List α))
    (contains sf : Bool) :
    Builds (fromSubstrings syms pats contains sf) syms
      (fun w => (∃ p ∈ pats.filter (fun p => p.all fun c => decide (c ∈ syms)),
        if sf then p <:+ w else p <:+: w) ↔ contains = true) := by
  obtain ⟨d, h1, h2, h3, h4⟩ := C15_from_substrings_general syms hsyms pats contains sf
  refine ⟨d, h1, h2, h3, fun w => ?_⟩
  rw [h4]
  refine and_congr_right fun hw => ?_
  have : (∃ p ∈ pats, if sf then p <:+ w else p <:+: w) ↔
      (∃ p ∈ pats.filter (fun p => p.all fun c => decide (c ∈ syms)),
        if sf then p <:+ w else p <:+: w) := by
    constructor
    · rintro ⟨p, hp, h⟩
      refine ⟨p, List.mem_filter.mpr ⟨hp, ?_⟩, h⟩
      rw [List.all_eq_true]
      intro c hc
      have hsub : c ∈ w := by
        cases sf
        · exact (List.IsInfix.subset h) hc
        · exact (List.IsSuffix.subset h) hc
      exact decide_eq_true (hw c hsub)
    · rintro ⟨p, hp, h⟩
      exact ⟨p, (List.mem_filter.mp hp).1, h⟩
  show (_ ↔ contains = true) ↔ (_ ↔ contains = true)
  rw [this]

example : Builds (fromSubstrings ['a', 'b'] [['c', 'c'], ['a', 'b'], ['b', 'c', 'a']] true false) ['a', 'b']
    (fun w => (∃ p ∈ [['c', 'c'], ['a', 'b'], ['b', 'c', 'a']], if false then p <:+ w else p <:+: w) ↔
      true = true) :=
  C15_from_substrings_general _ (by decide) _ _ _

example : Builds (fromSubstrings ['a', 'b'] [['a', 'a', 'b'], ['a', 'b'], ['b', 'b']] true true) ['a', 'b']
    (fun w => (∃ p ∈ [['a', 'a', 'b'], ['a', 'b'], ['b', 'b']], if true then p <:+ w else p <:+: w) ↔
      true = true) :=
  C15_from_substrings _ (by decide) _ _ _ (by decide)

/-- Regression witnesses of the repaired findings, evaluated on the model: with the empty
pattern in the set (F10b) the complement DFA in suffix mode rejects `"c"`; with a pattern
carrying a symbol outside the alphabet (F20, `["cc", "ab"]` over `{a, b}`) `"a"` is rejected
and `"ab"` accepted (symbols `a, b, c` = `0, 1, 2`). -/
theorem C15_from_substrings_regressions :
    verdict (fromSubstrings [0, 1, 2] [[], [2, 0, 1]] false true) [2] = some false ∧
    verdict (fromSubstrings [0, 1] [[2, 2], [0, 1]] true false) [0] = some false ∧
    verdict (fromSubstrings [0, 1] [[2, 2], [0, 1]] true false) [0, 1] = some true := by decide

/-- `from_finite_language(Σ, L, as_partial)` for every duplicate-free alphabet ordered by a strict
total order (`sorted` compares code points), every duplicate-free list of words over it — with
words that are prefixes of one another, shared suffixes, the empty word, the empty language —
and both values of `as_partial`: the incremental construction (sorted insertion, signature
register, compression of the non-shared suffix of the previous word, redirection through the
back map) runs without `KeyError` and returns a valid DFA — partial (`allow_partial = True`, no
trap) resp. complete (`_to_complete` with trap `0`) — accepting exactly the words of `L`.
Behind it (`Proofs/CtorFL*.lean`): the closed form of `add_to_trie` (`flAddWord_effect`), the
invariant "the table is a quotient of the trie of the words added so far; the prefixes of the
current word up to position `k` are still trie nodes with their single parent in the back map,
every other state is registered with its current signature and registered states only point to
registered states" (`FLInv`), its preservation by `add_to_trie` given the contiguity of common
prefixes in a sorted list (`add_inv`, `prefix_between`) and by one `compress` iteration in both
branches (`compressAt_inv`), and the run of the final table along the trie (`runO_spec`). -/
theorem C15_from_finite_language (lt : α → α → Bool) (ho : FL.StrictTotal lt) (syms : List α)
    (hsyms : syms.Nodup) (lang : List (List α)) (hnd : lang.Nodup) (asPartial : Bool)
    (hover : ∀ w ∈ lang, ∀ c ∈ w, c ∈ syms) :
    Builds (fromFiniteLanguage lt syms lang asPartial) syms (fun w => w ∈ lang) ∧
    ∀ d, fromFiniteLanguage lt syms lang asPartial = .ok d →
      d.allowPartial = (asPartial && !lang.isEmpty) := by
  by_cases hne : lang = []
  · subst hne
    have hr : fromFiniteLanguage lt syms [] asPartial = build (loopDFA FLName.zero syms false) := rfl
    refine ⟨builds_of syms hr (loopDFA_wf _ syms false) rfl (fun w => by
      rw [loopDFA_accepts]; simp), ?_⟩
    intro d hd
    rw [eq_of_build hr hd]; simp [loopDFA]
  · obtain ⟨added, last, s, φ, hmem, hadd, inv, he⟩ :=
      FL.fromFiniteLanguage_eq ho syms lang asPartial hne hnd
    have hover' : ∀ w ∈ added, ∀ c ∈ w, c ∈ syms := fun w hw => hover w ((hmem w).mp hw)
    have hemp : lang.isEmpty = false := by
      cases lang with
      | nil => exact absurd rfl hne
      | cons a t => rfl
    cases asPartial with
    | true =>
      simp only [if_true] at he
      refine ⟨builds_of syms he (FL.flPartial_wf syms inv hadd hover') rfl (fun w => ?_), ?_⟩
      · rw [FL.flPartial_accepts syms inv hadd hover' w, hmem]
      · intro d hd
        rw [eq_of_build he hd]; simp [FL.flPartialDFA, hemp]
    | false =>
      simp only [Bool.false_eq_true, if_false] at he
      refine ⟨builds_of syms he (FL.flComplete_wf syms inv hadd hover' hsyms) rfl (fun w => ?_), ?_⟩
      · rw [FL.flComplete_accepts syms inv hadd hover' hsyms w, hmem]
      · intro d hd
        rw [eq_of_build he hd]; simp [FL.flCompleteDFA]

example : Builds (fromFiniteLanguage (fun a b : Nat => decide (a < b)) [0, 1]
    [[1, 0, 1], [0, 1], [1, 1], [], [0, 0, 1]] true) [0, 1]
    (fun w => w ∈ [[1, 0, 1], [0, 1], [1, 1], [], [0, 0, 1]]) :=
  (C15_from_finite_language _ FL.strictTotal_nat _ (by decide) _ (by decide) _ (by decide)).1

/-- **Minimality of `from_finite_language`** (the documentation promises the minimal DFA), under
the hypotheses of `C15_from_finite_language`.  Partial form of a non-empty language: every state
is reachable, live, and any two states are distinguishable — no DFA at all is smaller.
Complete form over a non-empty alphabet (and the empty language, for which the code returns
`empty_language(Σ)`): every state, the trap included, is reachable and any two are
distinguishable — no complete DFA is smaller.  Behind it (`Proofs/CtorFLMinimal.lean`): the
registered states are pairwise distinguishable at every point of the construction (`RegDist`;
a state is registered only if no registered state has its signature, `compressAt_invD`, and the
registered part of the table is frozen, `frozen_acc`), the root is told apart from every other
state by a longest word of the language (`root_dist`). -/
theorem C15_from_finite_language_minimal (lt : α → α → Bool) (ho : FL.StrictTotal lt) (syms : List α)
    (lang : List (List α)) (hnd : lang.Nodup) (asPartial : Bool)
    (hover : ∀ w ∈ lang, ∀ c ∈ w, c ∈ syms) :
    ∀ d, fromFiniteLanguage lt syms lang asPartial = .ok d →
      (asPartial = true → lang ≠ [] → MinimalPartialShape d ∧ MinimalAmongAll d) ∧
      ((asPartial = false ∨ lang = []) → syms ≠ [] → MinimalShape d ∧ MinimalAmongComplete d) := by
  intro d hd
  by_cases hne : lang = []
  · subst hne
    have hr : fromFiniteLanguage lt syms [] asPartial = build (loopDFA FLName.zero syms false) := rfl
    have hwf := wf_of_build hr hd
    rw [eq_of_build hr hd]
    exact ⟨fun _ h => absurd rfl h, fun _ _ =>
      ⟨loopDFA_minimal _ syms false, C15_minimal_of_shape _ hwf (loopDFA_minimal _ syms false)⟩⟩
  · obtain ⟨added, last, s, φ, hmem, hadd, inv, hD, he⟩ :=
      FL.fromFiniteLanguage_eqD ho syms lang asPartial hne hnd
    have hover' : ∀ w ∈ added, ∀ c ∈ w, c ∈ syms := fun w hw => hover w ((hmem w).mp hw)
    cases asPartial with
    | true =>
      simp only [if_true] at he
      rw [eq_of_build he hd]
      refine ⟨fun _ _ => ?_, fun h => ?_⟩
      · have h := FL.flPartial_minimal syms inv hadd hover' hD
        exact ⟨h, C15_minimal_of_partial_shape _ h⟩
      · rcases h with h | h
        · cases h
        · exact absurd h hne
    | false =>
      simp only [Bool.false_eq_true, if_false] at he
      have hwf := wf_of_build he hd
      rw [eq_of_build he hd]
      refine ⟨(fun h => nomatch h), fun _ hs => ?_⟩
      obtain ⟨a, ha⟩ := List.exists_mem_of_ne_nil syms hs
      have h := FL.flComplete_minimal syms inv hadd hover' hD a ha
      exact ⟨h, C15_minimal_of_shape _ hwf h⟩

/-- Concrete instance: a language with shared prefixes and shared suffixes gets 4 states in
partial and 5 in complete form (the Myhill–Nerode numbers), and its verdicts on the listed words
are those of the language (kernel evaluation of the model). -/
theorem C15_from_finite_language_instance :
    (∀ w ∈ [[], [0], [1], [0, 0], [0, 1], [1, 0], [1, 1], [0, 1, 1], [1, 0, 1], [0, 0, 1]],
      verdict (fromFiniteLanguage (fun a b => decide (a < b)) [0, 1]
          [[1, 0, 1], [0, 1], [1, 1], [0, 0, 1]] true) w =
        some (decide (w ∈ [[1, 0, 1], [0, 1], [1, 1], [0, 0, 1]]))) ∧
    size (fromFiniteLanguage (fun a b => decide (a < b)) [0, 1]
          [[1, 0, 1], [0, 1], [1, 1], [0, 0, 1]] true) = some 4 ∧
    size (fromFiniteLanguage (fun a b => decide (a < b)) [0, 1]
          [[1, 0, 1], [0, 1], [1, 1], [0, 0, 1]] false) = some 5 := by
  refine ⟨by decide, by decide, by decide⟩

/-! ## Error outcomes

Inputs outside the hypotheses of the language theorems above: the constructors do **not** return
a (wrong) DFA, they raise.  Together with `C15_nth_errors`, `C15_count_mod_nonpositive` and
`C15_of_length_negative_min` every excluded input class has its outcome stated. -/

/-- `from_prefix` with a pattern symbol outside the alphabet: the symbol becomes a key of the
transition table and `cls(...)` refuses it with a library exception (`InvalidSymbolError`, or
`MissingSymbolError` when the foreign key makes an incomplete row look complete). -/
theorem C15_from_prefix_foreign (syms p : List α) (contains asPartial : Bool)
    (h : ∃ c ∈ p, c ∉ syms) : ∃ e, fromPrefix syms p contains asPartial = .error (.lib e) := by
  obtain ⟨c, hc, hcs⟩ := h
  rw [fromPrefix_eq]
  exact build_error_of_not_wf (prefixDFA_not_wf syms p contains asPartial c hc hcs)

/-- `from_subsequence` with a pattern symbol outside the alphabet
(`transitions[prev_state][char] = next_state` adds the key): a library exception. -/
theorem C15_from_subsequence_foreign (syms p : List α) (contains : Bool)
    (h : ∃ c ∈ p, c ∉ syms) : ∃ e, fromSubsequence syms p contains = .error (.lib e) := by
  obtain ⟨c, hc, hcs⟩ := h
  rw [fromSubsequence_eq]
  exact build_error_of_not_wf (subseqDFA_not_wf syms p contains c hc hcs)

/-- `from_finite_language` with a word carrying a symbol outside the alphabet: the incremental
construction still runs to its end without `KeyError` (the invariant does not depend on the
alphabet), and the table is refused by `cls(...)` / `_to_complete` with a library exception —
in both forms. -/
theorem C15_from_finite_language_foreign (lt : α → α → Bool) (ho : FL.StrictTotal lt)
    (syms : List α) (lang : List (List α)) (hnd : lang.Nodup) (asPartial : Bool)
    (h : ∃ w ∈ lang, ∃ c ∈ w, c ∉ syms) :
    ∃ e, fromFiniteLanguage lt syms lang asPartial = .error (.lib e) := by
  obtain ⟨w, hw, c, hc, hcs⟩ := h
  have hne : lang ≠ [] := by rintro rfl; cases hw
  obtain ⟨added, last, s, φ, hmem, hadd, inv, he⟩ :=
    FL.fromFiniteLanguage_eq ho syms lang asPartial hne hnd
  have hw' : w ∈ added := (hmem w).mpr hw
  rw [he]
  cases asPartial with
  | true => exact build_error_of_not_wf (FL.flPartial_not_wf syms inv hadd w hw' c hc hcs)
  | false => exact build_error_of_not_wf (FL.flComplete_not_wf syms inv hadd w hw' c hc hcs)

/-- `count_mod` with a remainder outside `range(k)` (`k > 0`): `final_states = remainders`
contains a non-state, `InvalidStateError`. -/
theorem C15_count_mod_bad_remainder (syms : List α) (k : Int) (hk : 0 < k)
    (remainders : Option (List Int)) (count : Option (List α))
    (h : ∃ r ∈ remainders.getD [0], r < 0 ∨ k ≤ r) :
    countMod syms k remainders count = .error (.lib .invalidStateError) := by
  obtain ⟨r, hr, hbad⟩ := h
  rw [countMod_eq syms k hk]
  exact countModDFA_bad_remainder syms k.toNat _ (by omega) _ r hr (by omega)

/-- Concrete error outcomes, evaluated on the model (symbols `a, b, c` = `0, 1, 2`):
`from_prefix({a,b}, "ac")` and `from_subsequence({a,b}, "ca")` raise `InvalidSymbolError`,
`from_prefix({a}, "ab")` raises `MissingSymbolError` (the foreign key makes the row look
complete), `from_finite_language({a,b}, {"ac"})` raises `InvalidSymbolError` in both forms,
`count_mod({a,b}, 3, {3})` raises `InvalidStateError`. -/
theorem C15_error_instances :
    raised (fromPrefix [0, 1] [0, 2] true true) = some (.lib .invalidSymbolError) ∧
    raised (fromPrefix [0] [0, 1] true true) = some (.lib .missingSymbolError) ∧
    raised (fromPrefix [0, 1] [0, 2] false true) = some (.lib .invalidSymbolError) ∧
    raised (fromSubsequence [0, 1] [2, 0] true) = some (.lib .invalidSymbolError) ∧
    raised (fromFiniteLanguage (fun a b => decide (a < b)) [0, 1] [[0, 2]] true) =
      some (.lib .invalidSymbolError) ∧
    raised (fromFiniteLanguage (fun a b => decide (a < b)) [0, 1] [[0, 2]] false) =
      some (.lib .invalidSymbolError) ∧
    raised (countMod [0, 1] 3 (some [3]) none) = some (.lib .invalidStateError) := by decide

example : ∃ e, fromPrefix ['a', 'b'] ['a', 'c'] true false = .error (.lib e) :=
  C15_from_prefix_foreign _ _ _ _ ⟨'c', by decide, by decide⟩

example : countMod ['a', 'b'] 3 (some [0, 5]) none = .error (.lib .invalidStateError) :=
  C15_count_mod_bad_remainder _ 3 (by decide) _ _ ⟨5, by decide, by decide⟩

end AV.Props.C15
