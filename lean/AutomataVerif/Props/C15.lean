import AutomataVerif.Model.DfaCtor
