/-
Props/C19c.lean — C19, part B continued: operator-level corruption theorems for the named
corruptions of the English statement that Props/C19.lean only covers through the general theorem
`C19_corruption_raises`:

  nondeterministic DPDA                      C19_dpda_corrupt_nondeterministic
  invalid stack symbol in a PDA transition   C19_dpda_corrupt_stack_symbol, C19_npda_corrupt_stack_symbol
  PDA / TM final state outside the state set C19_dpda_corrupt_final, C19_npda_corrupt_final, C19_dtm_corrupt_final
  bad direction                              C19_dtm_corrupt_direction
  bad tape symbol (read / written)           C19_dtm_corrupt_read_symbol, C19_dtm_corrupt_write_symbol
  unknown end state (TM, GNFA)               C19_dtm_corrupt_end_state, C19_gnfa_corrupt_end_state
  final TM state with transitions            C19_dtm_corrupt_final_row
  malformed GNFA label                       C19_gnfa_corrupt_label

Each takes a *valid* definition, performs one Python-level edit of the transition table
(`transitions[q][…] = …`, edit operators in Proofs/CorruptOps2.lean) and states the class the
constructor raises.  All are instances of the rule-system theorems (`*.rules_correct`): the edit
violates the named rule, and every other rule it could violate has the same class or is checked
later — the rules checked in the same loop with another class are shown not to be violated.
-/
import AutomataVerif.Props.C19
import AutomataVerif.Proofs.CorruptOps2
import AutomataVerif.Proofs.KwargsBridge

namespace AV.Props.C19
open AV AV.VA

set_option linter.unusedSectionVars false

variable {σ α γ : Type} [DecidableEq σ] [DecidableEq α] [DecidableEq γ]

/-! ## PDA -/

/-- Every entry of a row of the edited DPDA table: the new entry, or an entry of the old table. -/
private theorem dpda_setMove_entries (d : DPDA σ α γ) (q : σ) (a : Option α) (g : γ) (r : σ × List γ)
    (kv' : σ × List (Option α × List (γ × (σ × List γ)))) (hkv' : kv' ∈ (DPDA.setMove d q a g r).trans) :
    ∃ kv ∈ d.trans, (kv' = kv ∨ kv'.2 = rowSetMove a g r kv.2) ∧
      ∀ en ∈ kv'.2, en = (a, ainsert g r ((alookup a kv.2).getD [])) ∨ en ∈ kv.2 := by
  obtain ⟨kv, hkv, _, h2⟩ := mem_editRow q (rowSetMove a g r) d.trans kv' hkv'
  refine ⟨kv, hkv, ?_, ?_⟩
  · rcases h2 with h | ⟨_, h⟩
    · exact Or.inl h
    · exact Or.inr h
  · rcases h2 with rfl | ⟨_, h2⟩
    · exact fun en hen => Or.inr hen
    · rw [h2]; exact fun en hen => mem_rowSetMove a g r kv.2 en hen

/-- DPDA / **nondeterminism**: in a valid DPDA, `transitions[q][e][g] = r` such that afterwards the
stack symbol `g` has both a λ-move and a move on an input symbol in the row of `q` — either a
λ-move (`e = ""`) is added where an input symbol already moves on `g`, or a move on an input
symbol is added where a λ-move on `g` exists — raises `NondeterminismError`, wherever the entry
sits in the row.  (`e` is `""` or an input symbol and `g` a stack symbol, so nothing else is
broken.) -/
theorem C19_dpda_corrupt_nondeterministic (isEmptyStr : γ → Bool) (d : DPDA σ α γ)
    (wf : d.WFDef isEmptyStr) (kv : σ × List (Option α × List (γ × (σ × List γ)))) (hkv : kv ∈ d.trans)
    (e : Option α) (he : ∀ a, e = some a → a ∈ d.syms) (g : γ) (hg : g ∈ d.stackSyms) (r : σ × List γ)
    (hconf : (e = none ∧ ∃ en ∈ kv.2, ∃ a, en.1 = some a ∧ g ∈ akeys en.2) ∨
             (∃ a, e = some a ∧ g ∈ akeys (DPDA.lamRow kv.2))) :
    (DPDA.setMove d kv.1 e g r).validateDef isEmptyStr = .error (.lib .nondeterminismError) := by
  show (pdaValidateReserved isEmptyStr d.stackSyms).andThen _ = _
  rw [wf.reservedOk, Res.ok_andThen]
  have hrow : (kv.1, rowSetMove e g r kv.2) ∈ (DPDA.setMove d kv.1 e g r).trans :=
    editRow_mem kv.1 (rowSetMove e g r) d.trans kv hkv rfl
  have hv : DPDA.rules.Violates (DPDA.setMove d kv.1 e g r) .nondeterministic := by
    refine ⟨_, hrow, ?_⟩
    intro hdet
    rcases hconf with ⟨rfl, en, hen, a, ha, hga⟩ | ⟨a, rfl, hgl⟩
    · -- a λ-move on `g` added; the entry on `a` is still there
      have hen' : en ∈ rowSetMove none g r kv.2 :=
        rowSetMove_mem_of_ne none g r kv.2 en hen (by rw [ha]; simp)
      have := hdet en hen' a ha g hga
      rw [DPDA.lamRow_rowSetMove_none] at this
      exact this (va_akeys_ainsert_self g r _)
    · -- a move on `a` added on `g`; the λ-entry is untouched
      have := hdet _ (rowSetMove_mem_self (some a) g r kv.2) a rfl g (va_akeys_ainsert_self g r _)
      rw [DPDA.lamRow_rowSetMove_some] at this
      exact this hgl
  refine DPDA.rules_correct.corrupt_raises _ .nondeterministic hv ?_
  intro r' hv'
  cases r'
  · -- unknownInputSymbol: the new entry is keyed by `""` or an input symbol
    exfalso
    obtain ⟨kv', hkv', en, hen, a, ha, hna⟩ := hv'
    obtain ⟨kv0, hkv0, _, hent⟩ := dpda_setMove_entries d kv.1 e g r kv' hkv'
    rcases hent en hen with rfl | hen0
    · exact hna (he a ha)
    · exact hna (wf.symsOk kv0 hkv0 en hen0 a ha)
  · exact Or.inl rfl
  · -- unknownStackSymbol: the new entry maps `g` and what the old entry mapped
    exfalso
    obtain ⟨kv', hkv', en, hen, x, hx, hnx⟩ := hv'
    obtain ⟨kv0, hkv0, _, hent⟩ := dpda_setMove_entries d kv.1 e g r kv' hkv'
    rcases hent en hen with rfl | hen0
    · rcases rowSetMove_new_keys e g r kv0.2 x hx with rfl | ⟨m, hm, hxm⟩
      · exact hnx hg
      · exact hnx (wf.stackOk kv0 hkv0 _ hm x hxm)
    · exact hnx (wf.stackOk kv0 hkv0 en hen0 x hx)
  · right; rw [DPDA.rules_stage]; decide
  · right; rw [DPDA.rules_stage]; decide
  · right; rw [DPDA.rules_stage]; decide
  · right; rw [DPDA.rules_stage]; decide

/-- DPDA / **invalid stack symbol in a transition**: in a valid DPDA, `transitions[q][e][g] = r`
with `g` not a stack symbol (`e` is `""` or an input symbol) raises `InvalidSymbolError` — the
foreign symbol cannot clash with any existing move, so determinism is kept. -/
theorem C19_dpda_corrupt_stack_symbol (isEmptyStr : γ → Bool) (d : DPDA σ α γ)
    (wf : d.WFDef isEmptyStr) (kv : σ × List (Option α × List (γ × (σ × List γ)))) (hkv : kv ∈ d.trans)
    (e : Option α) (he : ∀ a, e = some a → a ∈ d.syms) (g : γ) (hg : g ∉ d.stackSyms) (r : σ × List γ) :
    (DPDA.setMove d kv.1 e g r).validateDef isEmptyStr = .error (.lib .invalidSymbolError) := by
  show (pdaValidateReserved isEmptyStr d.stackSyms).andThen _ = _
  rw [wf.reservedOk, Res.ok_andThen]
  have hrow : (kv.1, rowSetMove e g r kv.2) ∈ (DPDA.setMove d kv.1 e g r).trans :=
    editRow_mem kv.1 (rowSetMove e g r) d.trans kv hkv rfl
  have hv : DPDA.rules.Violates (DPDA.setMove d kv.1 e g r) .unknownStackSymbol :=
    ⟨_, hrow, _, rowSetMove_mem_self e g r kv.2, g, va_akeys_ainsert_self g r _, hg⟩
  -- the λ-entry of an old row only mentions stack symbols
  have lamOk : ∀ kv0 ∈ d.trans, ∀ x ∈ akeys (DPDA.lamRow kv0.2), x ∈ d.stackSyms := by
    intro kv0 hkv0 x hx
    rcases DPDA.lamRow_mem kv0.2 with h | h
    · rw [h] at hx; simp [akeys] at hx
    · exact wf.stackOk kv0 hkv0 _ h x hx
  refine DPDA.rules_correct.corrupt_raises _ .unknownStackSymbol hv ?_
  intro r' hv'
  cases r'
  · exact Or.inl rfl
  · -- nondeterministic: every row is still deterministic
    exfalso
    obtain ⟨kv', hkv', hnd⟩ := hv'
    apply hnd
    obtain ⟨kv0, hkv0, hshape, hent⟩ := dpda_setMove_entries d kv.1 e g r kv' hkv'
    rcases hshape with rfl | hshape
    · exact wf.det kv' hkv0
    · rw [hshape]
      intro en hen a ha x hx
      have hen := mem_rowSetMove e g r kv0.2 en hen
      cases e with
      | none =>
        -- the new entry is the λ-entry: symbol entries are old, λ-keys are `g` or old
        rw [DPDA.lamRow_rowSetMove_none]
        intro hxl
        rcases hen with rfl | hen0
        · cases ha
        · have hxs : x ∈ d.stackSyms := wf.stackOk kv0 hkv0 en hen0 x hx
          rcases va_akeys_ainsert g r _ x hxl with rfl | hxl
          · exact hg hxs
          · exact wf.det kv0 hkv0 en hen0 a ha x hx hxl
      | some b =>
        rw [DPDA.lamRow_rowSetMove_some]
        intro hxl
        rcases hen with rfl | hen0
        · rcases rowSetMove_new_keys (some b) g r kv0.2 x hx with rfl | ⟨m, hm, hxm⟩
          · exact hg (lamOk kv0 hkv0 _ hxl)
          · exact wf.det kv0 hkv0 _ hm b rfl x hxm hxl
        · exact wf.det kv0 hkv0 en hen0 a ha x hx hxl
  · exact Or.inl rfl
  · right; rw [DPDA.rules_stage]; decide
  · exact Or.inl rfl
  · right; rw [DPDA.rules_stage]; decide
  · right; rw [DPDA.rules_stage]; decide

/-- NPDA / invalid stack symbol in a transition → `InvalidSymbolError`. -/
theorem C19_npda_corrupt_stack_symbol (isEmptyStr : γ → Bool) (d : NPDA σ α γ)
    (wf : d.WFDef isEmptyStr) (kv : σ × List (Option α × List (γ × List (σ × List γ)))) (hkv : kv ∈ d.trans)
    (e : Option α) (g : γ) (hg : g ∉ d.stackSyms) (rs : List (σ × List γ)) :
    (NPDA.setMove d kv.1 e g rs).validateDef isEmptyStr = .error (.lib .invalidSymbolError) := by
  show (pdaValidateReserved isEmptyStr d.stackSyms).andThen _ = _
  rw [wf.reservedOk, Res.ok_andThen]
  have hrow : (kv.1, rowSetMove e g rs kv.2) ∈ (NPDA.setMove d kv.1 e g rs).trans :=
    editRow_mem kv.1 (rowSetMove e g rs) d.trans kv hkv rfl
  have hv : NPDA.rules.Violates (NPDA.setMove d kv.1 e g rs) .unknownStackSymbol :=
    ⟨_, hrow, _, rowSetMove_mem_self e g rs kv.2, g, va_akeys_ainsert_self g rs _, hg⟩
  refine NPDA.rules_correct.corrupt_raises _ .unknownStackSymbol hv ?_
  intro r' hv'
  -- every other rule of the row loop has the same class
  cases r' <;> first
    | exact Or.inl rfl
    | exact (hv' : False).elim
    | (right; rw [NPDA.rules_stage]; decide)

/-- DPDA / a final state outside the state set → `InvalidStateError`. -/
theorem C19_dpda_corrupt_final (isEmptyStr : γ → Bool) (d : DPDA σ α γ) (wf : d.WFDef isEmptyStr)
    (q : σ) (hq : q ∉ d.states) :
    ({ d with finals := q :: d.finals } : DPDA σ α γ).validateDef isEmptyStr =
      .error (.lib .invalidStateError) := by
  show (pdaValidateReserved isEmptyStr d.stackSyms).andThen _ = _
  rw [wf.reservedOk, Res.ok_andThen]
  have hno := (DPDA.wf_iff d).mp wf.toWF
  refine DPDA.rules_correct.corrupt_raises _ .badFinal ⟨q, by simp, hq⟩ ?_
  intro r' hv'
  cases r' <;> first
    | exact Or.inl rfl
    | exact absurd hv' (hno .unknownInputSymbol)
    | exact absurd hv' (hno .nondeterministic)
    | exact absurd hv' (hno .unknownStackSymbol)
    | exact absurd hv' (hno .badInitialStackSymbol)
    | (right; rw [DPDA.rules_stage]; decide)

/-- NPDA / a final state outside the state set → `InvalidStateError`. -/
theorem C19_npda_corrupt_final (isEmptyStr : γ → Bool) (d : NPDA σ α γ) (wf : d.WFDef isEmptyStr)
    (q : σ) (hq : q ∉ d.states) :
    ({ d with finals := q :: d.finals } : NPDA σ α γ).validateDef isEmptyStr =
      .error (.lib .invalidStateError) := by
  show (pdaValidateReserved isEmptyStr d.stackSyms).andThen _ = _
  rw [wf.reservedOk, Res.ok_andThen]
  have hno := (NPDA.wf_iff d).mp wf.toWF
  refine NPDA.rules_correct.corrupt_raises _ .badFinal ⟨q, by simp, hq⟩ ?_
  intro r' hv'
  cases r' <;> first
    | exact Or.inl rfl
    | exact absurd hv' (hno .unknownInputSymbol)
    | exact absurd hv' (hno .nondeterministic)
    | exact absurd hv' (hno .unknownStackSymbol)
    | exact absurd hv' (hno .badInitialStackSymbol)
    | (right; rw [NPDA.rules_stage]; decide)

/-! ## DTM -/

/-- What a violated row-loop rule of the edited table `transitions[q][s] = r` comes down to: the
defect is in the new entry (the old table being valid). -/
private theorem dtm_setEntry_loop (d : DTM σ γ) (wf : d.WF) (q : σ) (s : γ) (r : TMResult σ γ) :
    (DTM.rules.Violates (DTM.setEntry d q s r) .unknownTransitionState → False) ∧
    (DTM.rules.Violates (DTM.setEntry d q s r) .badReadSymbol → s ∉ d.tapeSyms) ∧
    (DTM.rules.Violates (DTM.setEntry d q s r) .unknownResultState → r.1 ∉ d.states) ∧
    (DTM.rules.Violates (DTM.setEntry d q s r) .badWriteSymbol → r.2.1 ∉ d.tapeSyms) ∧
    (DTM.rules.Violates (DTM.setEntry d q s r) .badDirection → r.2.2 ∉ Gen.Validate.dtmDirections) := by
  refine ⟨?_, ?_, ?_, ?_, ?_⟩
  · rintro ⟨kv', hkv', hn⟩
    obtain ⟨kv, hkv, h1, _⟩ := DTM.setEntry_rows d q s r kv' hkv'
    exact hn (h1 ▸ wf.keysOk kv hkv)
  · rintro ⟨kv', hkv', x, hx, hnx⟩
    obtain ⟨kv, hkv, _, hent⟩ := DTM.setEntry_rows d q s r kv' hkv'
    obtain ⟨en, hen, rfl⟩ := List.mem_map.mp hx
    rcases hent en hen with rfl | hen0
    · exact hnx
    · exact absurd (wf.readOk kv hkv en.1 (List.mem_map.mpr ⟨en, hen0, rfl⟩)) hnx
  · rintro ⟨kv', hkv', x, hx, hnx⟩
    obtain ⟨kv, hkv, _, hent⟩ := DTM.setEntry_rows d q s r kv' hkv'
    obtain ⟨en, hen, rfl⟩ := List.mem_map.mp hx
    rcases hent en hen with rfl | hen0
    · exact hnx
    · exact absurd (wf.resultsOk kv hkv en.2 (List.mem_map.mpr ⟨en, hen0, rfl⟩)).1 hnx
  · rintro ⟨kv', hkv', x, hx, hnx⟩
    obtain ⟨kv, hkv, _, hent⟩ := DTM.setEntry_rows d q s r kv' hkv'
    obtain ⟨en, hen, rfl⟩ := List.mem_map.mp hx
    rcases hent en hen with rfl | hen0
    · exact hnx
    · exact absurd (wf.resultsOk kv hkv en.2 (List.mem_map.mpr ⟨en, hen0, rfl⟩)).2.1 hnx
  · rintro ⟨kv', hkv', x, hx, hnx⟩
    obtain ⟨kv, hkv, _, hent⟩ := DTM.setEntry_rows d q s r kv' hkv'
    obtain ⟨en, hen, rfl⟩ := List.mem_map.mp hx
    rcases hent en hen with rfl | hen0
    · exact hnx
    · exact absurd (wf.resultsOk kv hkv en.2 (List.mem_map.mpr ⟨en, hen0, rfl⟩)).2.2 hnx

/-- The new entry is in the edited table. -/
private theorem dtm_setEntry_new (d : DTM σ γ) (kv : σ × List (γ × TMResult σ γ)) (hkv : kv ∈ d.trans)
    (s : γ) (r : TMResult σ γ) :
    ∃ kv' ∈ (DTM.setEntry d kv.1 s r).trans, s ∈ DTM.rowReads kv' ∧ r ∈ DTM.rowResults kv' :=
  ⟨(kv.1, ainsert s r kv.2), editRow_mem kv.1 (ainsert s r) d.trans kv hkv rfl,
    List.mem_map.mpr ⟨(s, r), ainsert_mem_self s r kv.2, rfl⟩,
    List.mem_map.mpr ⟨(s, r), ainsert_mem_self s r kv.2, rfl⟩⟩

set_option hygiene false in
/-- the rules outside the row loop: head rules (earlier, untouched by the edit) and tail rules (later) -/
local macro "dtm_outside_loop" : tactic => `(tactic| first
  | exact Or.inl rfl
  | exact absurd hv' (hno .inputNotProperSubset)
  | exact absurd hv' (hno .badBlank)
  | (right; rw [DTM.rules_stage]; decide))

/-- DTM / **bad direction**: in a valid DTM, `transitions[q][s] = (t, w, dir)` with `t` a state,
`s`, `w` tape symbols and `dir` not one of the direction letters → `InvalidDirectionError`. -/
theorem C19_dtm_corrupt_direction (d : DTM σ γ) (wf : d.WF) (kv : σ × List (γ × TMResult σ γ))
    (hkv : kv ∈ d.trans) (s : γ) (hs : s ∈ d.tapeSyms) (t : σ) (ht : t ∈ d.states) (w : γ)
    (hw : w ∈ d.tapeSyms) (dir : String) (hdir : dir ∉ Gen.Validate.dtmDirections) :
    (DTM.setEntry d kv.1 s (t, w, dir)).validate = .error (.lib .invalidDirectionError) := by
  have hno := (DTM.wf_iff d).mp wf
  obtain ⟨l0, l1, l2, l3, _⟩ := dtm_setEntry_loop d wf kv.1 s (t, w, dir)
  obtain ⟨kv', hkv', _, hres⟩ := dtm_setEntry_new d kv hkv s (t, w, dir)
  refine DTM.rules_correct.corrupt_raises _ .badDirection ⟨kv', hkv', _, hres, hdir⟩ ?_
  intro r' hv'
  cases r'
  case unknownTransitionState => exact (l0 hv').elim
  case badReadSymbol => exact absurd hs (l1 hv')
  case unknownResultState => exact absurd ht (l2 hv')
  case badWriteSymbol => exact absurd hw (l3 hv')
  all_goals dtm_outside_loop

/-- DTM / **bad tape symbol (read)**: `transitions[q][s] = (t, w, dir)` with `s` not a tape symbol
(state and direction of the result legal; the written symbol may be anything: a foreign one raises
the same class) → `InvalidSymbolError`. -/
theorem C19_dtm_corrupt_read_symbol (d : DTM σ γ) (wf : d.WF) (kv : σ × List (γ × TMResult σ γ))
    (hkv : kv ∈ d.trans) (s : γ) (hs : s ∉ d.tapeSyms) (t : σ) (ht : t ∈ d.states) (w : γ)
    (dir : String) (hdir : dir ∈ Gen.Validate.dtmDirections) :
    (DTM.setEntry d kv.1 s (t, w, dir)).validate = .error (.lib .invalidSymbolError) := by
  have hno := (DTM.wf_iff d).mp wf
  obtain ⟨l0, _, l2, _, l4⟩ := dtm_setEntry_loop d wf kv.1 s (t, w, dir)
  obtain ⟨kv', hkv', hrd, _⟩ := dtm_setEntry_new d kv hkv s (t, w, dir)
  refine DTM.rules_correct.corrupt_raises _ .badReadSymbol ⟨kv', hkv', s, hrd, hs⟩ ?_
  intro r' hv'
  cases r'
  case unknownTransitionState => exact (l0 hv').elim
  case unknownResultState => exact absurd ht (l2 hv')
  case badDirection => exact absurd hdir (l4 hv')
  all_goals dtm_outside_loop

/-- DTM / **bad tape symbol (written)**: `transitions[q][s] = (t, w, dir)` with `w` not a tape
symbol (state and direction legal) → `InvalidSymbolError`. -/
theorem C19_dtm_corrupt_write_symbol (d : DTM σ γ) (wf : d.WF) (kv : σ × List (γ × TMResult σ γ))
    (hkv : kv ∈ d.trans) (s : γ) (t : σ) (ht : t ∈ d.states) (w : γ)
    (hw : w ∉ d.tapeSyms) (dir : String) (hdir : dir ∈ Gen.Validate.dtmDirections) :
    (DTM.setEntry d kv.1 s (t, w, dir)).validate = .error (.lib .invalidSymbolError) := by
  have hno := (DTM.wf_iff d).mp wf
  obtain ⟨l0, _, l2, _, l4⟩ := dtm_setEntry_loop d wf kv.1 s (t, w, dir)
  obtain ⟨kv', hkv', _, hres⟩ := dtm_setEntry_new d kv hkv s (t, w, dir)
  refine DTM.rules_correct.corrupt_raises _ .badWriteSymbol ⟨kv', hkv', _, hres, hw⟩ ?_
  intro r' hv'
  cases r'
  case unknownTransitionState => exact (l0 hv').elim
  case unknownResultState => exact absurd ht (l2 hv')
  case badDirection => exact absurd hdir (l4 hv')
  all_goals dtm_outside_loop

/-- DTM / **unknown end state**: `transitions[q][s] = (t, w, dir)` with `t` not a state →
`InvalidStateError`. -/
theorem C19_dtm_corrupt_end_state (d : DTM σ γ) (wf : d.WF) (kv : σ × List (γ × TMResult σ γ))
    (hkv : kv ∈ d.trans) (s : γ) (hs : s ∈ d.tapeSyms) (t : σ) (ht : t ∉ d.states) (w : γ)
    (hw : w ∈ d.tapeSyms) (dir : String) (hdir : dir ∈ Gen.Validate.dtmDirections) :
    (DTM.setEntry d kv.1 s (t, w, dir)).validate = .error (.lib .invalidStateError) := by
  have hno := (DTM.wf_iff d).mp wf
  obtain ⟨_, l1, _, l3, l4⟩ := dtm_setEntry_loop d wf kv.1 s (t, w, dir)
  obtain ⟨kv', hkv', _, hres⟩ := dtm_setEntry_new d kv hkv s (t, w, dir)
  refine DTM.rules_correct.corrupt_raises _ .unknownResultState ⟨kv', hkv', _, hres, ht⟩ ?_
  intro r' hv'
  cases r'
  case badReadSymbol => exact absurd hs (l1 hv')
  case badWriteSymbol => exact absurd hw (l3 hv')
  case badDirection => exact absurd hdir (l4 hv')
  all_goals dtm_outside_loop

/-- DTM / a final state outside the state set → `InvalidStateError` (the new name is not the
initial state, so the `InitialStateError` check before it passes). -/
theorem C19_dtm_corrupt_final (d : DTM σ γ) (wf : d.WF) (q : σ) (hq : q ∉ d.states) :
    ({ d with finals := q :: d.finals } : DTM σ γ).validate = .error (.lib .invalidStateError) := by
  have hno := (DTM.wf_iff d).mp wf
  refine DTM.rules_correct.corrupt_raises _ .badFinal ⟨q, by simp, hq⟩ ?_
  intro r' hv'
  cases r'
  case initialIsFinal =>
    exfalso
    rcases List.mem_cons.mp hv' with h | h
    · exact hq (h ▸ wf.tail.initOk)
    · exact wf.tail.initNotFinal h
  case inputNotProperSubset => exact absurd hv' (hno .inputNotProperSubset)
  case badBlank => exact absurd hv' (hno .badBlank)
  case unknownTransitionState => exact Or.inl rfl
  case badReadSymbol => exact absurd hv' (hno .badReadSymbol)
  case unknownResultState => exact Or.inl rfl
  case badWriteSymbol => exact absurd hv' (hno .badWriteSymbol)
  case badDirection => exact absurd hv' (hno .badDirection)
  case badInitial => exact Or.inl rfl
  case initialNoRow => exact absurd hv' (hno .initialNoRow)
  case badFinal => exact Or.inl rfl
  case finalHasTransitions => right; rw [DTM.rules_stage]; decide
  case badTapeCount => right; rw [DTM.rules_stage]; decide

/-- DTM / **final state with transitions**: in a valid DTM, `transitions[f] = {}` for a final
state `f` → `FinalStateError` (the last check; nothing else is affected by an empty row of a
state). -/
theorem C19_dtm_corrupt_final_row (d : DTM σ γ) (wf : d.WF) (f : σ) (hf : f ∈ d.finals) :
    (DTM.addEmptyRow d f).validate = .error (.lib .finalStateError) := by
  have hno := (DTM.wf_iff d).mp wf
  have hrows : ∀ kv' ∈ (DTM.addEmptyRow d f).trans, kv' ∈ d.trans ∨ kv' = (f, []) := by
    intro kv' h
    simp only [DTM.addEmptyRow, List.mem_append, List.mem_singleton] at h
    exact h
  have hkeys : ∀ x, x ∈ akeys d.trans → x ∈ akeys (DTM.addEmptyRow d f).trans := by
    intro x hx
    simp only [DTM.addEmptyRow, akeys, List.map_append, List.mem_append]
    exact Or.inl hx
  have hv : DTM.rules.Violates (DTM.addEmptyRow d f) .finalHasTransitions := by
    refine ⟨f, hf, ?_⟩
    simp [DTM.addEmptyRow, akeys]
  refine DTM.rules_correct.corrupt_raises _ .finalHasTransitions hv ?_
  intro r' hv'
  cases r'
  case inputNotProperSubset => exact absurd hv' (hno .inputNotProperSubset)
  case badBlank => exact absurd hv' (hno .badBlank)
  case unknownTransitionState =>
    exfalso
    obtain ⟨kv', hkv', hn⟩ := hv'
    rcases hrows kv' hkv' with h | rfl
    · exact hn (wf.keysOk kv' h)
    · exact hn (wf.tail.finalsOk f hf)
  case badReadSymbol =>
    exfalso
    obtain ⟨kv', hkv', x, hx, hn⟩ := hv'
    rcases hrows kv' hkv' with h | rfl
    · exact hn (wf.readOk kv' h x hx)
    · simp [DTM.rowReads, akeys] at hx
  case unknownResultState =>
    exfalso
    obtain ⟨kv', hkv', x, hx, hn⟩ := hv'
    rcases hrows kv' hkv' with h | rfl
    · exact hn (wf.resultsOk kv' h x hx).1
    · simp [DTM.rowResults, avals] at hx
  case badWriteSymbol =>
    exfalso
    obtain ⟨kv', hkv', x, hx, hn⟩ := hv'
    rcases hrows kv' hkv' with h | rfl
    · exact hn (wf.resultsOk kv' h x hx).2.1
    · simp [DTM.rowResults, avals] at hx
  case badDirection =>
    exfalso
    obtain ⟨kv', hkv', x, hx, hn⟩ := hv'
    rcases hrows kv' hkv' with h | rfl
    · exact hn (wf.resultsOk kv' h x hx).2.2
    · simp [DTM.rowResults, avals] at hx
  case badInitial => exact absurd hv' (hno .badInitial)
  case initialNoRow =>
    exfalso
    obtain ⟨h1, h2⟩ := hv'
    rcases wf.tail.initRow with h | h
    · exact h1 (hkeys _ h)
    · exact absurd h2 (by show ¬ 1 < d.states.length; omega)
  case initialIsFinal => exact absurd hv' (hno .initialIsFinal)
  case badFinal => exact absurd hv' (hno .badFinal)
  case finalHasTransitions => exact Or.inl rfl
  case badTapeCount => exact absurd hv' (by simp [DTM.rules])

/-! ## GNFA -/

/-- Rows of `transitions[q][t] = l`: an old row, or the old row of `q` with the entry set. -/
private theorem gnfa_setEntry_shape (g : GNFA σ α) (q t : σ) (l : Option (GLabel α))
    (kv' : σ × List (σ × Option (GLabel α))) (hkv' : kv' ∈ (GNFA.setEntry g q t l).trans) :
    ∃ kv ∈ g.trans, kv'.1 = kv.1 ∧ (∀ e ∈ kv'.2, e = (t, l) ∨ e ∈ kv.2) ∧
      (∀ x ∈ akeys kv.2, x ∈ akeys kv'.2) ∧ (kv' = kv ∨ (kv.1 = q ∧ kv'.2 = ainsert t l kv.2)) := by
  obtain ⟨kv, hkv, h1, h2⟩ := GNFA.setEntry_rows g q t l kv' hkv'
  refine ⟨kv, hkv, h1, ?_, ?_, h2⟩
  · rcases h2 with rfl | ⟨_, h2⟩
    · exact fun e he => Or.inr he
    · rw [h2]; exact fun e he => mem_ainsert t l kv.2 e he
  · rcases h2 with rfl | ⟨_, h2⟩
    · exact fun x hx => hx
    · rw [h2]; exact fun x hx => akeys_ainsert_sup t l kv.2 x hx

/-- `paths.get(init)` after `paths[t] = l` with `t ≠ init`. -/
private theorem gnfa_entersInit_ainsert (g : GNFA σ α) (t : σ) (l : Option (GLabel α))
    (paths : List (σ × Option (GLabel α))) (ht : t ≠ g.init) :
    g.entersInit (ainsert t l paths) = g.entersInit paths := by
  unfold GNFA.entersInit
  rw [va_alookup_ainsert_ne l paths (fun h => ht h.symm)]

/-- What the rules of the GNFA row loop come down to on `transitions[q][t] = l` (`q` a non-final
state with a row, `t ≠ initial`): a defect of the new entry. -/
private theorem gnfa_setEntry_loop (g : GNFA σ α) (wf : g.WF) (kv : σ × List (σ × Option (GLabel α)))
    (hq : kv.1 ≠ g.final) (t : σ) (hti : t ≠ g.init) (l : Option (GLabel α)) :
    (GNFA.rules.Violates (GNFA.setEntry g kv.1 t l) .malformedLabel → ∃ l', l = some l' ∧ g.Malformed l') ∧
    (GNFA.rules.Violates (GNFA.setEntry g kv.1 t l) .labelLexerError → ∃ l', l = some l' ∧ l'.verdict = .lexerError) ∧
    (GNFA.rules.Violates (GNFA.setEntry g kv.1 t l) .finalHasTransitions → False) ∧
    (GNFA.rules.Violates (GNFA.setEntry g kv.1 t l) .missingEntry → False) ∧
    (GNFA.rules.Violates (GNFA.setEntry g kv.1 t l) .unknownEndState → t ∉ g.states) ∧
    (GNFA.rules.Violates (GNFA.setEntry g kv.1 t l) .transitionIntoInitial → False) := by
  have labOk : ∀ kv0 ∈ g.trans, ∀ l', some l' ∈ avals kv0.2 → ¬ g.Malformed l' ∧ l'.verdict ≠ .lexerError := by
    intro kv0 hkv0 l' hl'
    have := wf.labelsOk kv0 hkv0 (some l') hl'
    obtain ⟨h1, h2⟩ := this
    refine ⟨?_, by rw [h2]; simp⟩
    rintro (⟨⟨c, hc, hbad⟩, hne⟩ | hinv)
    · rcases h1 with h1 | h1
      · rw [h1 c hc] at hbad; cases hbad
      · exact hne h1
    · rw [h2] at hinv; cases hinv
  refine ⟨?_, ?_, ?_, ?_, ?_, ?_⟩
  · rintro ⟨kv', hkv', l', hl', hm⟩
    obtain ⟨kv0, hkv0, _, hent, _, _⟩ := gnfa_setEntry_shape g kv.1 t l kv' hkv'
    obtain ⟨en, hen, hl2⟩ := List.mem_map.mp hl'
    rcases hent en hen with rfl | hen0
    · exact ⟨l', hl2, hm⟩
    · exact absurd hm (labOk kv0 hkv0 l' (List.mem_map.mpr ⟨en, hen0, hl2⟩)).1
  · rintro ⟨kv', hkv', l', hl', hm⟩
    obtain ⟨kv0, hkv0, _, hent, _, _⟩ := gnfa_setEntry_shape g kv.1 t l kv' hkv'
    obtain ⟨en, hen, hl2⟩ := List.mem_map.mp hl'
    rcases hent en hen with rfl | hen0
    · exact ⟨l', hl2, hm⟩
    · exact absurd hm (labOk kv0 hkv0 l' (List.mem_map.mpr ⟨en, hen0, hl2⟩)).2
  · rintro ⟨kv', hkv', hfin, hne⟩
    obtain ⟨kv0, hkv0, h1, _, _, h2⟩ := gnfa_setEntry_shape g kv.1 t l kv' hkv'
    rcases h2 with rfl | ⟨hk, _⟩
    · exact hne (wf.finalRowEmpty _ hkv0 hfin)
    · exact hq (by rw [← hk, ← h1]; exact hfin)
  · rintro ⟨kv', hkv', hnf, x, hx, hnx, hxi⟩
    obtain ⟨kv0, hkv0, h1, _, hsup, _⟩ := gnfa_setEntry_shape g kv.1 t l kv' hkv'
    rcases wf.complete kv0 hkv0 (h1 ▸ hnf) x hx with h | h
    · exact hnx (hsup x h)
    · exact hxi h
  · rintro ⟨kv', hkv', x, hx, hnx⟩
    obtain ⟨kv0, hkv0, _, hent, _, _⟩ := gnfa_setEntry_shape g kv.1 t l kv' hkv'
    obtain ⟨en, hen, rfl⟩ := List.mem_map.mp hx
    rcases hent en hen with rfl | hen0
    · exact hnx
    · exact absurd (wf.tgtOk kv0 hkv0 en.1 (List.mem_map.mpr ⟨en, hen0, rfl⟩)) hnx
  · rintro ⟨kv', hkv', hen⟩
    obtain ⟨kv0, hkv0, _, _, _, h2⟩ := gnfa_setEntry_shape g kv.1 t l kv' hkv'
    have hen : g.entersInit kv'.2 = true := hen
    rcases h2 with rfl | ⟨_, h2⟩
    · rw [wf.noEnter _ hkv0] at hen; cases hen
    · rw [h2, gnfa_entersInit_ainsert g t l kv0.2 hti, wf.noEnter kv0 hkv0] at hen; cases hen

set_option hygiene false in
/-- the GNFA rules outside the row loop are untouched by an edit of an entry (keys unchanged) -/
local macro "gnfa_outside_loop" : tactic => `(tactic| first
  | exact Or.inl rfl
  | exact absurd hv' (hno .badInitial)
  | exact absurd hv' (hno .badFinal)
  | exact absurd hv' (hno .initialEqualsFinal)
  | (exfalso
     obtain ⟨x, hx, hxf, hxk⟩ := hv'
     rw [show akeys (GNFA.setEntry g kv.1 t _).trans = akeys g.trans from editRow_keys _ _ _] at hxk
     rcases wf.rows x hx with h | h
     · exact hxf h
     · exact hxk h)
  | (right; rw [GNFA.rules_stage]; decide))

/-- GNFA / **malformed label**: in a valid GNFA, `transitions[q][t] = label` (`q` a non-final state,
`t` a state other than the initial one) with a label that uses a character outside the input
symbols and `* | ( ) ?`, or that the regex validator rejects → `InvalidRegexError`.  (When the
label only uses legal characters the validator is asked and must not let a `LexerError` escape —
that is the separate rule `labelLexerError`.) -/
theorem C19_gnfa_corrupt_label (g : GNFA σ α) (wf : g.WF) (kv : σ × List (σ × Option (GLabel α)))
    (hkv : kv ∈ g.trans) (hq : kv.1 ≠ g.final) (t : σ) (ht : t ∈ g.states) (hti : t ≠ g.init)
    (l : GLabel α) (hl : g.Malformed l) (hlex : l.verdict ≠ .lexerError) :
    (GNFA.setEntry g kv.1 t (some l)).validate = .error (.lib .invalidRegexError) := by
  have hno := (GNFA.wf_iff g).mp wf
  obtain ⟨_, l1, l2, l3, l4, l5⟩ := gnfa_setEntry_loop g wf kv hq t hti (some l)
  have hv : GNFA.rules.Violates (GNFA.setEntry g kv.1 t (some l)) .malformedLabel :=
    ⟨(kv.1, ainsert t (some l) kv.2), editRow_mem kv.1 (ainsert t (some l)) g.trans kv hkv rfl, l,
      List.mem_map.mpr ⟨(t, some l), ainsert_mem_self t (some l) kv.2, rfl⟩, hl⟩
  refine GNFA.rules_correct.corrupt_raises _ .malformedLabel hv ?_
  intro r' hv'
  cases r'
  case labelLexerError =>
    obtain ⟨l', h1, h2⟩ := l1 hv'
    cases h1; exact absurd h2 hlex
  case finalHasTransitions => exact (l2 hv').elim
  case missingEntry => exact (l3 hv').elim
  case unknownEndState => exact absurd ht (l4 hv')
  case transitionIntoInitial => exact (l5 hv').elim
  all_goals gnfa_outside_loop

/-- GNFA / **unknown end state**: in a valid GNFA, `transitions[q][t] = None` (`q` a non-final
state) with `t` not a state → `InvalidStateError`. -/
theorem C19_gnfa_corrupt_end_state (g : GNFA σ α) (wf : g.WF) (kv : σ × List (σ × Option (GLabel α)))
    (hkv : kv ∈ g.trans) (hq : kv.1 ≠ g.final) (t : σ) (ht : t ∉ g.states) :
    (GNFA.setEntry g kv.1 t none).validate = .error (.lib .invalidStateError) := by
  have hno := (GNFA.wf_iff g).mp wf
  have hti : t ≠ g.init := fun h => ht (h ▸ wf.initOk)
  obtain ⟨l0, l1, l2, l3, _, l5⟩ := gnfa_setEntry_loop g wf kv hq t hti none
  have hv : GNFA.rules.Violates (GNFA.setEntry g kv.1 t none) .unknownEndState :=
    ⟨(kv.1, ainsert t none kv.2), editRow_mem kv.1 (ainsert t none) g.trans kv hkv rfl, t,
      List.mem_map.mpr ⟨(t, none), ainsert_mem_self t none kv.2, rfl⟩, ht⟩
  refine GNFA.rules_correct.corrupt_raises _ .unknownEndState hv ?_
  intro r' hv'
  cases r'
  case malformedLabel => obtain ⟨l', h1, _⟩ := l0 hv'; cases h1
  case labelLexerError => obtain ⟨l', h1, _⟩ := l1 hv'; cases h1
  case finalHasTransitions => exact (l2 hv').elim
  case missingEntry => exact (l3 hv').elim
  case transitionIntoInitial => exact (l5 hv').elim
  all_goals gnfa_outside_loop

/-! ## D continued: the options theorem for the typed DFA validator on Python-value arguments

`C19_options_kwargs` (Props/C19.lean) is stated for *any* validator that reads the abstract value
of the keyword arguments.  Here the hypothesis is discharged for the DFA validator: the decoder
from keyword arguments to the typed definition reads only the abstract value
(`decodeDFA_normKw`, Proofs/KwargsBridge.lean), so the theorem applies to
`DFA.validateDef ∘ decodeDFA`. -/

/-- Constructor keyword arguments (Python values, containers of any kind — `set` or `frozenset`,
`dict` or `frozendict`) that decode to a typed DFA definition `d` passing `validate`: under all
four combinations of `should_validate_automata` / `allow_mutable_automata` the constructor
succeeds, and what it stores (frozen or not) decodes to the same definition `d` — so every
operation, being a function of the definition, gives the same answer. -/
theorem C19_options_kwargs_dfa (kwargs : List (String × PyVal)) (d : DFA Atom Atom)
    (hd : decodeDFA kwargs = some d) (hvalid : DFA.validateDef Reserved.atoms d = .ok ())
    (shouldValidate allowMutable : Bool) :
    ∃ stored, construct normKw (storeKwargs false) validateDFAKwargs false shouldValidate allowMutable
        kwargs = .ok stored ∧ decodeDFA stored = some d := by
  have hv : validateDFAKwargs (kwargs.map fun kv => (kv.1, kv.2.norm)) = .ok () := by
    show validateDFAKwargs (normKw kwargs) = .ok ()
    unfold validateDFAKwargs
    rw [decodeDFA_normKw, hd]
    exact hvalid
  obtain ⟨stored, hs, heq⟩ := C19_options_kwargs validateDFAKwargs false kwargs hv shouldValidate allowMutable
  refine ⟨stored, hs, ?_⟩
  have : normKw stored = normKw kwargs := heq
  rw [← decodeDFA_normKw stored, this, decodeDFA_normKw, hd]

/-- An invalid definition: the same error under both values of `allow_mutable_automata`. -/
theorem C19_options_kwargs_dfa_invalid (kwargs : List (String × PyVal)) (d : DFA Atom Atom)
    (hd : decodeDFA kwargs = some d) (e : Exn) (hinvalid : DFA.validateDef Reserved.atoms d = .error e)
    (allowMutable : Bool) :
    construct normKw (storeKwargs false) validateDFAKwargs false true allowMutable kwargs = .error e := by
  have hfz : ∀ c, normKw (storeKwargs false c) = normKw c := by
    intro c
    simp only [normKw, storeKwargs, List.map_map]
    apply List.map_congr_left
    intro kv _
    simp [PyVal.norm_freeze]
  have hv : validateDFAKwargs (normKw kwargs) = .error e := by
    unfold validateDFAKwargs
    rw [decodeDFA_normKw, hd]
    exact hinvalid
  exact (C19_options_invalid normKw (storeKwargs false) validateDFAKwargs hfz kwargs e hv allowMutable).1

/-! ## non-vacuity -/

/-- `DFA(states={"p","q"}, input_symbols={"a"}, transitions={"p": {"a": "q"}, "q": {"a": "q"}},
initial_state="p", final_states={"q"})` with mutable containers … -/
def exKwargs : List (String × PyVal) :=
  [("states", .set [.str "p", .str "q"]), ("input_symbols", .set [.str "a"]),
   ("transitions", .dict [(.str "p", .dict [(.str "a", .str "q")]), (.str "q", .dict [(.str "a", .str "q")])]),
   ("initial_state", .str "p"), ("final_states", .set [.str "q"]), ("allow_partial", .int 0)]

/-- … and as the constructor stores it (frozen): the same typed definition, which is valid. -/
example : decodeDFA (storeKwargs false exKwargs) = decodeDFA exKwargs := by rfl
example : (decodeDFA (storeKwargs false exKwargs)).map (DFA.validateDef Reserved.atoms) = some (.ok ()) := by
  decide
example : (decodeDFA exKwargs).map (DFA.validateDef Reserved.atoms) = some (.ok ()) := by decide
/-- `None` among the states (the harness sends `None` as the object with tag 0) is refused. -/
example : (decodeDFA (("states", .set [.str "p", .str "q", .other 0]) :: exKwargs.tail)).map
    (DFA.validateDef Reserved.atoms) = some (.error (.lib .invalidStateError)) := by decide

/-- a λ-move on stack symbol 0 added to the row of state 0, where input symbol 0 already moves on it -/
example : (DPDA.setMove exDPDA 0 none 0 (1, [])).validateDef (· == 77) =
    .error (.lib .nondeterminismError) := by decide
/-- a move on input symbol 0 added on stack symbol 1, where the λ-move lives -/
example : (DPDA.setMove exDPDA 0 (some 0) 1 (1, [])).validateDef (· == 77) =
    .error (.lib .nondeterminismError) := by decide
example : (DPDA.setMove exDPDA 0 (some 0) 5 (1, [])).validateDef (· == 77) =
    .error (.lib .invalidSymbolError) := by decide

def exDTM : DTM Nat Nat :=
  { states := [0, 1, 2], syms := [0], tapeSyms := [0, 9],
    trans := [(0, [(0, (1, 0, "R")), (9, (2, 9, "N"))]), (1, [(0, (0, 9, "L"))])],
    init := 0, blank := 9, finals := [2] }

example : exDTM.validate = .ok () := by decide
example : (DTM.setEntry exDTM 1 9 (0, 9, "X")).validate = .error (.lib .invalidDirectionError) := by decide
example : (DTM.setEntry exDTM 1 5 (0, 9, "L")).validate = .error (.lib .invalidSymbolError) := by decide
example : (DTM.setEntry exDTM 1 9 (0, 5, "L")).validate = .error (.lib .invalidSymbolError) := by decide
example : (DTM.setEntry exDTM 1 9 (7, 9, "L")).validate = .error (.lib .invalidStateError) := by decide
example : (DTM.addEmptyRow exDTM 2).validate = .error (.lib .finalStateError) := by decide
example : ({ exDTM with finals := [7, 2] } : DTM Nat Nat).validate = .error (.lib .invalidStateError) := by decide

example : (GNFA.setEntry exGNFA 1 1 (some ⟨[.sym 9], .valid⟩)).validate = .error (.lib .invalidRegexError) := by
  decide
example : (GNFA.setEntry exGNFA 1 2 (some ⟨[.sym 0, .extra "|"], .invalid⟩)).validate =
    .error (.lib .invalidRegexError) := by decide
example : (GNFA.setEntry exGNFA 0 7 none).validate = .error (.lib .invalidStateError) := by decide

end AV.Props.C19
