/-
Props/C16.lean — the edit-distance NFA accepts exactly the strings within the allowed
number of edits.

English statement (properties.jsonl C16): "For every alphabet, reference string, distance
bound k and every enabled subset of {insertion, deletion, substitution}, the constructed NFA
accepts a string exactly when it can be obtained from the reference string by at most k edits
of the enabled kinds.  A negative bound or no enabled edit kind is refused with ValueError."

Model: `NFA.editDistance` (Model/NFAEdit.lean) mirrors `NFA.edit_distance`: the two argument
checks, the `(position, errors)` grid states, the two loops with `add_transition` /
`add_any_transition`, the constructor's validation.

Specification, independent of the code: `AV.Edit.Edits ins del sub ref w n`
(Proofs/EpsOpsD.lean) — an alignment of `ref` and `w` with exactly `n` unit-cost edits of the
enabled kinds (matched symbols are free; substitution, deletion of a reference symbol,
insertion of a symbol cost 1 each).  "At most k edits" is `∃ n ≤ k, Edits … n`.

The OPERATIONAL reading of the English — a chain of at most `k` single edits, each one
insertion, deletion or substitution of one symbol at an arbitrary position (`Step1`, `Steps`,
`StepsLe`, Proofs/EditSteps.lean) — is proved equivalent to the alignment reading for every
set of enabled kinds (`C16_alignment_iff_operational`), and the main theorem is restated with
it (`C16_edit_distance_operational`).

Domain: the reference string is over the alphabet; otherwise the constructor refuses the
automaton with `InvalidSymbolError` (a transition on a symbol outside `input_symbols`):
`C16_ref_outside_alphabet`.  `k : ℤ` as in Python.
-/
import AutomataVerif.Proofs.EpsOpsD
import AutomataVerif.Proofs.EditSteps
import AutomataVerif.Proofs.NFAEditSpec
import AutomataVerif.Proofs.NFAEditRefuse
import AutomataVerif.Props.C01

namespace AV.Props.C16
open AV AV.NFA AV.Edit AV.Props.C01

variable {α : Type} [DecidableEq α]

/-- **C16 (language).**  For every alphabet `syms`, reference string `ref` over it, bound
`k ≥ 0` and every non-empty set of enabled edit kinds, `edit_distance` returns a valid NFA
`R`, and `R` accepts a word `w` exactly when `w` is over the alphabet and is obtained from
`ref` by at most `k` edits of the enabled kinds. -/
theorem C16_edit_distance (syms ref : List α) (k : Int) (ins del sub : Bool) (hk : 0 ≤ k)
    (hflag : (ins || del || sub) = true) (href : ∀ c ∈ ref, c ∈ syms) :
    ∃ R : AV.NFA (Nat × Nat) α, editDistance syms ref k ins del sub = .ok R ∧
      R.validate = .ok () ∧
      ∀ w : List α, R.accepts w = true ↔
        (∀ c ∈ w, c ∈ syms) ∧ ∃ n : Nat, (n : Int) ≤ k ∧ Edits ins del sub ref w n := by
  obtain ⟨R, hR, hval, hinit, _, hsome, hnone, hfin⟩ :=
    editDistance_spec syms ref k ins del sub hk hflag href
  refine ⟨R, hR, hval, ?_⟩
  intro w
  rw [C01_nfa_accepts_iff R hval w]
  have hacc := accepts_edit (nfaTextbook R) {c | c ∈ syms} ref k.toNat ins del sub
    (fun c hc => href c hc) (by simp [nfaTextbook, hinit]) ?_ ?_ ?_
  · rw [hacc]
    simp only [Set.mem_ofPred_eq]
    constructor
    · rintro ⟨h1, n, hn, he⟩
      exact ⟨h1, n, by omega, he⟩
    · rintro ⟨h1, n, hn, he⟩
      exact ⟨h1, n, by omega, he⟩
  · intro i e c hi he
    ext t
    exact hsome i e c t hi he
  · intro i e hi he
    ext t
    exact hnone i e t hi he
  · intro i e hi he
    exact hfin i e hi he

/-- **"At most k edits", alignment = operation sequence.**  For all strings, every bound and
every set of enabled edit kinds: an alignment of `r` and `w` with at most `k` unit-cost edits
exists iff `w` is reached from `r` by a chain of at most `k` single edits, each inserting,
deleting or replacing one symbol at an arbitrary position of the current string and writing
only symbols of the alphabet `syms` (`w` itself being over `syms`). -/
theorem C16_alignment_iff_operational (syms : List α) (ins del sub : Bool) (k : Nat) (r w : List α)
    (hw : ∀ c ∈ w, c ∈ syms) :
    (∃ n, n ≤ k ∧ Edits ins del sub r w n) ↔ StepsLe (· ∈ syms) ins del sub k r w :=
  edits_le_iff_stepsLe (· ∈ syms) ins del sub k r w hw

/-- … and allowing the chain to write arbitrary symbols (passing through strings outside the
alphabet) reaches no further word over the alphabet. -/
theorem C16_operational_any_symbols (syms : List α) (ins del sub : Bool) (k : Nat) (r w : List α)
    (hw : ∀ c ∈ w, c ∈ syms) :
    StepsLe (fun _ => True) ins del sub k r w ↔ StepsLe (· ∈ syms) ins del sub k r w :=
  stepsLe_restrict (· ∈ syms) ins del sub k r w hw

/-- **C16 (language), operational reading.**  For every alphabet `syms`, reference string
`ref` over it, bound `k ≥ 0` and every non-empty set of enabled edit kinds, `edit_distance`
returns a valid NFA `R`, and `R` accepts `w` exactly when `w` is over the alphabet and is
obtained from `ref` by a sequence of at most `k` single edits of the enabled kinds (one
symbol inserted, deleted or replaced at any position per edit). -/
theorem C16_edit_distance_operational (syms ref : List α) (k : Int) (ins del sub : Bool)
    (hk : 0 ≤ k) (hflag : (ins || del || sub) = true) (href : ∀ c ∈ ref, c ∈ syms) :
    ∃ R : AV.NFA (Nat × Nat) α, editDistance syms ref k ins del sub = .ok R ∧
      R.validate = .ok () ∧
      ∀ w : List α, R.accepts w = true ↔
        (∀ c ∈ w, c ∈ syms) ∧ StepsLe (· ∈ syms) ins del sub k.toNat ref w := by
  obtain ⟨R, hR, hval, hw⟩ := C16_edit_distance syms ref k ins del sub hk hflag href
  refine ⟨R, hR, hval, fun w => ?_⟩
  rw [hw w]
  constructor
  · rintro ⟨h1, n, hn, he⟩
    exact ⟨h1, (C16_alignment_iff_operational syms ins del sub k.toNat ref w h1).mp
      ⟨n, by omega, he⟩⟩
  · rintro ⟨h1, hs⟩
    obtain ⟨n, hn, he⟩ := (C16_alignment_iff_operational syms ins del sub k.toNat ref w h1).mpr hs
    exact ⟨h1, n, by omega, he⟩

/-- The same with unrestricted intermediate strings. -/
theorem C16_edit_distance_operational_any (syms ref : List α) (k : Int) (ins del sub : Bool)
    (hk : 0 ≤ k) (hflag : (ins || del || sub) = true) (href : ∀ c ∈ ref, c ∈ syms) :
    ∃ R : AV.NFA (Nat × Nat) α, editDistance syms ref k ins del sub = .ok R ∧
      R.validate = .ok () ∧
      ∀ w : List α, R.accepts w = true ↔
        (∀ c ∈ w, c ∈ syms) ∧ StepsLe (fun _ => True) ins del sub k.toNat ref w := by
  obtain ⟨R, hR, hval, hw⟩ := C16_edit_distance_operational syms ref k ins del sub hk hflag href
  refine ⟨R, hR, hval, fun w => ?_⟩
  rw [hw w]
  constructor
  · rintro ⟨h1, hs⟩
    exact ⟨h1, (C16_operational_any_symbols syms ins del sub k.toNat ref w h1).mpr hs⟩
  · rintro ⟨h1, hs⟩
    exact ⟨h1, (C16_operational_any_symbols syms ins del sub k.toNat ref w h1).mp hs⟩

/-- **C16 (reference string outside the alphabet).**  The language clause above speaks
about reference strings over the alphabet.  For every other reference string (with an
admissible bound and at least one enabled kind) no automaton is returned: the constructor
call at the end of `edit_distance` raises `InvalidSymbolError` — the grid's matching
transition on the foreign symbol is the first thing `validate` meets (every target is a grid
state, so no `InvalidStateError` comes first). -/
theorem C16_ref_outside_alphabet (syms ref : List α) (k : Int) (ins del sub : Bool) (hk : 0 ≤ k)
    (hflag : (ins || del || sub) = true) (hbad : ∃ c ∈ ref, c ∉ syms) :
    editDistance syms ref k ins del sub = .error (.lib .invalidSymbolError) :=
  EditRefuse.editDistance_ref_outside syms ref k ins del sub hk hflag hbad

/-- **C16 (refused arguments).**  A negative bound is refused with `ValueError` … -/
theorem C16_negative_bound (syms ref : List α) (k : Int) (ins del sub : Bool) (hk : k < 0) :
    editDistance syms ref k ins del sub = .error (.py .valueError) :=
  editDistance_negative syms ref k ins del sub hk

/-- … and so is a call with no enabled edit kind (whatever the bound). -/
theorem C16_no_edit_kind (syms ref : List α) (k : Int) :
    editDistance syms ref k false false false = .error (.py .valueError) :=
  editDistance_no_kind syms ref k

/-- Sanity of the specification: zero edits means equality … -/
theorem Edits_zero_iff (ins del sub : Bool) (r w : List α) : Edits ins del sub r w 0 ↔ r = w := by
  constructor
  · intro h
    generalize hn : 0 = n at h
    induction h with
    | nil => rfl
    | keep a _ ih => rw [ih hn]
    | subst _ _ _ _ _ => omega
    | delete _ _ _ _ => omega
    | insert _ _ _ _ => omega
  · rintro rfl
    induction r with
    | nil => exact Edits.nil
    | cons a r ih => exact Edits.keep a ih

/-- … hence with `k = 0` the automaton accepts exactly the reference string. -/
theorem C16_zero_bound (syms ref : List α) (ins del sub : Bool)
    (hflag : (ins || del || sub) = true) (href : ∀ c ∈ ref, c ∈ syms) :
    ∃ R : AV.NFA (Nat × Nat) α, editDistance syms ref 0 ins del sub = .ok R ∧
      ∀ w : List α, R.accepts w = true ↔ w = ref := by
  obtain ⟨R, hR, _, hw⟩ := C16_edit_distance syms ref 0 ins del sub (by omega) hflag href
  refine ⟨R, hR, fun w => ?_⟩
  rw [hw w]
  constructor
  · rintro ⟨_, n, hn, he⟩
    have : n = 0 := by omega
    subst this
    exact ((Edits_zero_iff ins del sub ref w).mp he).symm
  · rintro rfl
    exact ⟨href, 0, by omega, (Edits_zero_iff ins del sub w w).mpr rfl⟩

/-! ## non-vacuity -/

/-- Levenshtein automaton for `ab` over `{a, b}` (`a = 0`, `b = 1`) with `k = 1`. -/
def exLev : Res (AV.NFA (Nat × Nat) Nat) := editDistance [0, 1] [0, 1] 1 true true true

example : (match exLev with
    | .ok R => R.accepts [0, 1] && R.accepts [0] && R.accepts [1, 1] && R.accepts [0, 1, 1] &&
        !R.accepts [] && !R.accepts [1, 0] && !R.accepts [0, 7]
    | .error _ => false) = true := by decide

/-- Hamming distance (substitutions only): `aa` is within 1 of `ab`, `a` is not. -/
example : (match editDistance [0, 1] [0, 1] 1 false false true with
    | .ok R => R.accepts [0, 0] && !R.accepts [0]
    | .error _ => false) = true := by decide

/-- The reference string `ac` is not over `{a, b}`. -/
example : (match editDistance [0, 1] [0, 2] 1 true true true with
    | .error (.lib .invalidSymbolError) => true
    | _ => false) = true := by decide
example : editDistance [0, 1] [0, 2] 1 true true true = .error (.lib .invalidSymbolError) :=
  C16_ref_outside_alphabet _ _ _ _ _ _ (by decide) rfl ⟨2, by decide, by decide⟩

/-- `ab → b → bb`: two single edits (a deletion at position 0, an insertion at the end). -/
example : StepsLe (· ∈ [0, 1]) true true false 2 [0, 1] [1, 1] :=
  ⟨2, Nat.le_refl _, Steps.tail (Steps.tail (Steps.refl _) (Step1.delete [] [1] 0 rfl))
    (Step1.insert [1] [] 1 rfl (by decide))⟩

example : Edits true true true [0, 1] [1, 1] 1 := Edits.subst 0 1 rfl (Edits.keep 1 Edits.nil)
example : Edits false true false [0, 1] [1] 1 := Edits.delete 0 rfl (Edits.keep 1 Edits.nil)

end AV.Props.C16
