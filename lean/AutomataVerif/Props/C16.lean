import AutomataVerif.Model.NFAEdit
