/-
Props/C09b.lean — C09, the clause "the answer is the same as comparing their
determinisations", stated with the library's OWN functions: `A == B` (model `eqOp`, C09)
equals `DFA.from_nfa(A) == DFA.from_nfa(B)` (models `NFA.toDFA`, C07, and `DFA.eqv`, C06).
Kept in its own module because it imports the property files of C06 and C07.
-/
import AutomataVerif.Props.C09
import AutomataVerif.Props.C07
import AutomataVerif.Proofs.CompareEq

namespace AV.Props.C09
open AV AV.NFA

variable {σ α : Type} [DecidableEq σ] [DecidableEq α]

theorem toDFA_symsEq (A B : AV.NFA σ α) (hs : sameSyms A.syms B.syms = true) :
    A.toDFA.symsEq B.toDFA = true := by
  simpa [DFA.symsEq, sameSyms, NFA.toDFA, DFA.expand] using hs

/-- **Same as comparing the determinisations (library functions).**  For valid NFAs over a
common alphabet, `A == B` returns exactly what `DFA.from_nfa(A) == DFA.from_nfa(B)` returns,
for every choice of union–find representatives on either side. -/
theorem C09_eq_det_lib (pick₁ : Pick σ σ) (pick₂ : Pick σ σ) (A B : AV.NFA σ α)
    (hA : A.validate = .ok ()) (hB : B.validate = .ok ()) (pA : A.PyShape) (pB : B.PyShape)
    (hs : sameSyms A.syms B.syms = true) :
    eqOp pick₁ pick₂ A B = A.toDFA.eqv B.toDFA := by
  obtain ⟨v, hv, _, hiff⟩ := C09_eq_iff pick₁ pick₂ A B hA hB hs
  obtain ⟨b, hb, hbiff⟩ := DFA.eqv_spec A.toDFA B.toDFA
    (AV.Props.C07.C07_from_nfa_valid A hA) (AV.Props.C07.C07_from_nfa_valid B hB) (toDFA_symsEq A B hs)
  have hlang : (∀ w, A.toDFA.accepts w = B.toDFA.accepts w) ↔ (∀ w, A.accepts w = B.accepts w) := by
    constructor
    · intro h w
      rw [← AV.Props.C07.C07_from_nfa_lang A hA pA w, ← AV.Props.C07.C07_from_nfa_lang B hB pB w]
      exact h w
    · intro h w
      rw [AV.Props.C07.C07_from_nfa_lang A hA pA w, AV.Props.C07.C07_from_nfa_lang B hB pB w]
      exact h w
  have hvb : v = b := by
    have : v = true ↔ b = true := by rw [hiff, hbiff, hlang]
    cases v <;> cases b <;> simp_all
  rw [hv, hb, hvb]

/-- Generic form: `A == B` equals `DA == DB` for ANY two valid DFAs (over one state-name type)
that have the alphabets and the languages of `A` and `B`.  Every option combination of
`DFA.from_nfa` below is an instance. -/
theorem eq_det_of {τ : Type} [DecidableEq τ] (pick₁ : Pick σ σ) (pick₂ : Pick σ σ)
    (A B : AV.NFA σ α) (DA DB : AV.DFA τ α)
    (hA : A.validate = .ok ()) (hB : B.validate = .ok ()) (hs : sameSyms A.syms B.syms = true)
    (hvA : DA.validate = .ok ()) (hvB : DB.validate = .ok ())
    (hsA : DA.syms = A.syms) (hsB : DB.syms = B.syms)
    (hlA : ∀ w, DA.accepts w = A.accepts w) (hlB : ∀ w, DB.accepts w = B.accepts w) :
    eqOp pick₁ pick₂ A B = DA.eqv DB := by
  obtain ⟨v, hv, _, hiff⟩ := C09_eq_iff pick₁ pick₂ A B hA hB hs
  have hsy : DA.symsEq DB = true := by
    simpa [DFA.symsEq, sameSyms, hsA, hsB] using hs
  obtain ⟨b, hb, hbiff⟩ := DFA.eqv_spec DA DB hvA hvB hsy
  have : v = b := by
    have : v = true ↔ b = true := by
      rw [hiff, hbiff]
      constructor
      · intro h w; rw [hlA, hlB]; exact h w
      · intro h w; rw [← hlA, ← hlB]; exact h w
    cases v <;> cases b <;> simp_all
  rw [hv, hb, this]

theorem toDFAMin_syms (A : AV.NFA σ α) (pa : List Nat → Nat) : (A.toDFAMin pa).syms = A.syms := by
  unfold NFA.toDFAMin; simp only [DFA.minifyCore_syms]; simp [NFA.toDFA, DFA.expand]

theorem toDFAMinRenum_syms (A : AV.NFA σ α) (pa : List Nat → Nat) :
    (A.toDFAMinRenum pa).syms = A.syms := by
  unfold NFA.toDFAMinRenum; simp only [DFA.minifyCore_syms]; simp [NFA.toDFA, DFA.expand, DFA.renumber]

/-- **Same as comparing the determinisations, `minify=True, retain_names=True`.**  `A == B`
returns exactly what `DFA.from_nfa(A, retain_names=True) == DFA.from_nfa(B, retain_names=True)`
returns: each side is determinised AND minimised (for every pop order `pa`, `pb` of the two
Hopcroft loops), and the results are compared by `DFA.__eq__`. -/
theorem C09_eq_det_lib_default (pick₁ pick₂ : Pick σ σ) (pa pb : List Nat → Nat) (A B : AV.NFA σ α)
    (hA : A.validate = .ok ()) (hB : B.validate = .ok ()) (pA : A.PyShape) (pB : B.PyShape)
    (hs : sameSyms A.syms B.syms = true) :
    eqOp pick₁ pick₂ A B = (A.toDFAMin pa).eqv (B.toDFAMin pb) := by
  obtain ⟨hvA, hlA⟩ := AV.Props.C07.C07_from_nfa_min A hA pA pa
  obtain ⟨hvB, hlB⟩ := AV.Props.C07.C07_from_nfa_min B hB pB pb
  exact eq_det_of pick₁ pick₂ A B _ _ hA hB hs hvA hvB (toDFAMin_syms A pa) (toDFAMin_syms B pb)
    hlA hlB

/-- **Same as comparing the determinisations — the literal default call.**
`DFA.from_nfa(A) == DFA.from_nfa(B)` with the library's default options
(`retain_names=False, minify=True`: subset construction, renumbering by BFS discovery index,
`_minify` on the renumbered table — `NFA.toDFAMinRenum`, C07) returns exactly what `A == B`
returns, for every union–find representative choice and every pop order of the two
Hopcroft loops. -/
theorem C09_eq_det_lib_default_renumbered (pick₁ pick₂ : Pick σ σ) (pa pb : List Nat → Nat)
    (A B : AV.NFA σ α)
    (hA : A.validate = .ok ()) (hB : B.validate = .ok ()) (pA : A.PyShape) (pB : B.PyShape)
    (hs : sameSyms A.syms B.syms = true) :
    eqOp pick₁ pick₂ A B = (A.toDFAMinRenum pa).eqv (B.toDFAMinRenum pb) := by
  obtain ⟨hvA, hlA⟩ := AV.Props.C07.C07_from_nfa_min_renumbered A hA pA pa
  obtain ⟨hvB, hlB⟩ := AV.Props.C07.C07_from_nfa_min_renumbered B hB pB pb
  exact eq_det_of pick₁ pick₂ A B _ _ hA hB hs hvA hvB (toDFAMinRenum_syms A pa)
    (toDFAMinRenum_syms B pb) hlA hlB

/-- … and with `retain_names=False, minify=False` (renumbered subset DFAs). -/
theorem C09_eq_det_lib_renumbered (pick₁ pick₂ : Pick σ σ) (A B : AV.NFA σ α)
    (hA : A.validate = .ok ()) (hB : B.validate = .ok ()) (pA : A.PyShape) (pB : B.PyShape)
    (hs : sameSyms A.syms B.syms = true) :
    eqOp pick₁ pick₂ A B = A.toDFA.renumber.eqv B.toDFA.renumber := by
  obtain ⟨hvA, hlA⟩ := AV.Props.C07.C07_from_nfa_renumbered A hA pA
  obtain ⟨hvB, hlB⟩ := AV.Props.C07.C07_from_nfa_renumbered B hB pB
  exact eq_det_of pick₁ pick₂ A B _ _ hA hB hs hvA hvB
    (by simp [NFA.toDFA, DFA.expand, DFA.renumber]) (by simp [NFA.toDFA, DFA.expand, DFA.renumber])
    hlA hlB

/-! ### non-vacuity: the examples of Props/C09.lean through the default call -/

theorem exA_pyShape : exA.PyShape := ⟨by decide, by decide, by decide, by decide, by decide, by decide⟩
theorem exB_pyShape : exB.PyShape := ⟨by decide, by decide, by decide, by decide, by decide, by decide⟩
theorem exC_pyShape : exC.PyShape := ⟨by decide, by decide, by decide, by decide, by decide, by decide⟩

example : (exA.toDFAMinRenum).eqv (exB.toDFAMinRenum) = some true ∧
    (exA.toDFAMinRenum).eqv (exC.toDFAMinRenum) = some false := by decide
example : eqOp exPick exPick exA exB = (exA.toDFAMinRenum).eqv (exB.toDFAMinRenum) :=
  C09_eq_det_lib_default_renumbered _ _ _ _ exA exB (by decide) (by decide) exA_pyShape exB_pyShape
    (by decide)

end AV.Props.C09
