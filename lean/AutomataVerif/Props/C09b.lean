/-
Props/C09b.lean — C09, the clause "the answer is the same as comparing their
determinisations", stated with the library's OWN functions: `A == B` (model `eqOp`, C09)
equals `DFA.from_nfa(A) == DFA.from_nfa(B)` (models `NFA.toDFA`, C07, and `DFA.eqv`, C06).
Kept in its own module because it imports the property files of C06 and C07.
-/
import AutomataVerif.Props.C09
import AutomataVerif.Props.C07
import AutomataVerif.Proofs.CompareEq

namespace AV.Props.C09
open AV AV.NFA

variable {σ α : Type} [DecidableEq σ] [DecidableEq α]

theorem toDFA_symsEq (A B : AV.NFA σ α) (hs : sameSyms A.syms B.syms = true) :
    A.toDFA.symsEq B.toDFA = true := by
  simpa [DFA.symsEq, sameSyms, NFA.toDFA, DFA.expand] using hs

/-- **Same as comparing the determinisations (library functions).**  For valid NFAs over a
common alphabet, `A == B` returns exactly what `DFA.from_nfa(A) == DFA.from_nfa(B)` returns,
for every choice of union–find representatives on either side. -/
theorem C09_eq_det_lib (pick₁ : Pick σ σ) (pick₂ : Pick σ σ) (A B : AV.NFA σ α)
    (hA : A.validate = .ok ()) (hB : B.validate = .ok ()) (pA : A.PyShape) (pB : B.PyShape)
    (hs : sameSyms A.syms B.syms = true) :
    eqOp pick₁ pick₂ A B = A.toDFA.eqv B.toDFA := by
  obtain ⟨v, hv, _, hiff⟩ := C09_eq_iff pick₁ pick₂ A B hA hB hs
  obtain ⟨b, hb, hbiff⟩ := DFA.eqv_spec A.toDFA B.toDFA
    (AV.Props.C07.C07_from_nfa_valid A hA) (AV.Props.C07.C07_from_nfa_valid B hB) (toDFA_symsEq A B hs)
  have hlang : (∀ w, A.toDFA.accepts w = B.toDFA.accepts w) ↔ (∀ w, A.accepts w = B.accepts w) := by
    constructor
    · intro h w
      rw [← AV.Props.C07.C07_from_nfa_lang A hA pA w, ← AV.Props.C07.C07_from_nfa_lang B hB pB w]
      exact h w
    · intro h w
      rw [AV.Props.C07.C07_from_nfa_lang A hA pA w, AV.Props.C07.C07_from_nfa_lang B hB pB w]
      exact h w
  have hvb : v = b := by
    have : v = true ↔ b = true := by rw [hiff, hbiff, hlang]
    cases v <;> cases b <;> simp_all
  rw [hv, hb, hvb]

end AV.Props.C09
