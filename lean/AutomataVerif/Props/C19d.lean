/-
Props/C19d.lean — C19, part B continued: operator-level corruption theorems for the corruptions
that Props/C19.lean and Props/C19c.lean left to the general theorem `C19_corruption_raises`:

  NTM row-level edits (`transitions[q][s] = [results]`)
      C19_ntm_corrupt_direction, C19_ntm_corrupt_read_symbol, C19_ntm_corrupt_write_symbol,
      C19_ntm_corrupt_end_state, C19_ntm_corrupt_final, C19_ntm_corrupt_final_row
  MNTM row-level edits (`transitions[q][(s₁,…)] = [(state, moves)]`)
      C19_mntm_corrupt_direction, C19_mntm_corrupt_read_symbol, C19_mntm_corrupt_write_symbol,
      C19_mntm_corrupt_end_state, C19_mntm_corrupt_final, C19_mntm_corrupt_final_row
  PDA unknown input symbol      C19_dpda_corrupt_input_symbol, C19_npda_corrupt_input_symbol
  TM head rule Σ ⊊ Γ            C19_{dtm,ntm,mntm}_corrupt_input_symbols (any definition),
                                …_input_symbol_foreign, …_input_symbols_all
  TM row keyed by a non-state   C19_{dtm,ntm,mntm}_corrupt_row_key   (whatever the row contains)
  TM initial state without row  C19_{dtm,ntm,mntm}_corrupt_initial_row
  field-level, DTM-only so far  C19_{ntm,mntm}_corrupt_initial_is_final, C19_mntm_corrupt_blank
  MNTM tape count in one entry  C19_mntm_corrupt_entry_tape_count
  GNFA shape rules              C19_gnfa_corrupt_initial_equals_final('), C19_gnfa_corrupt_missing_row,
                                C19_gnfa_corrupt_missing_entry, C19_gnfa_corrupt_final_row,
                                C19_gnfa_corrupt_into_initial

Each takes a *valid* definition, performs one Python-level edit (`transitions[q][…] = …`,
`transitions[q] = …`, `del transitions[q]`, `del transitions[q][t]`, a changed field; edit operators
in Proofs/CorruptOps2.lean and Proofs/CorruptOps3.lean) and states the class the constructor raises.
Where the order of the checks in the code lets another class win, the hypothesis that excludes it is
stated (e.g. the results of a new NTM entry with a bad direction must name states and tape symbols:
`_validate_transition_result` tests state, symbol, direction in this order for each result).
-/
import AutomataVerif.Props.C19c
import AutomataVerif.Proofs.CorruptOps3

namespace AV.Props.C19
open AV AV.VA

set_option linter.unusedSectionVars false
set_option linter.unusedVariables false

variable {σ α γ : Type} [DecidableEq σ] [DecidableEq α] [DecidableEq γ]

/-! ## NTM: `transitions[q][s] = rs` -/

/-- What a violated row-loop rule of the edited table comes down to: a defect of the new entry. -/
private theorem ntm_setEntry_loop (d : NTM σ γ) (wf : d.WF) (q : σ) (s : γ) (rs : List (TMResult σ γ)) :
    (NTM.rules.Violates (NTM.setEntry d q s rs) .unknownTransitionState → False) ∧
    (NTM.rules.Violates (NTM.setEntry d q s rs) .badReadSymbol → s ∉ d.tapeSyms) ∧
    (NTM.rules.Violates (NTM.setEntry d q s rs) .unknownResultState → ∃ r ∈ rs, r.1 ∉ d.states) ∧
    (NTM.rules.Violates (NTM.setEntry d q s rs) .badWriteSymbol → ∃ r ∈ rs, r.2.1 ∉ d.tapeSyms) ∧
    (NTM.rules.Violates (NTM.setEntry d q s rs) .badDirection →
      ∃ r ∈ rs, r.2.2 ∉ Gen.Validate.ntmDirections) := by
  have old : ∀ kv ∈ d.trans, ∀ en ∈ kv.2, ∀ x ∈ en.2,
      TmResultOk d.states d.tapeSyms Gen.Validate.ntmDirections x :=
    fun kv hkv en hen x hx => wf.resultsOk kv hkv en.2 (List.mem_map.mpr ⟨en, hen, rfl⟩) x hx
  refine ⟨?_, ?_, ?_, ?_, ?_⟩
  · rintro ⟨kv', hkv', hn⟩
    obtain ⟨kv, hkv, h1, _⟩ := NTM.setEntry_rows d q s rs kv' hkv'
    exact hn (h1 ▸ wf.keysOk kv hkv)
  · rintro ⟨kv', hkv', x, hx, hnx⟩
    obtain ⟨kv, hkv, _, hent⟩ := NTM.setEntry_rows d q s rs kv' hkv'
    obtain ⟨en, hen, rfl⟩ := List.mem_map.mp hx
    rcases hent en hen with rfl | hen0
    · exact hnx
    · exact absurd (wf.readOk kv hkv en.1 (List.mem_map.mpr ⟨en, hen0, rfl⟩)) hnx
  · rintro ⟨kv', hkv', x, hx, hnx⟩
    obtain ⟨kv, hkv, _, hent⟩ := NTM.setEntry_rows d q s rs kv' hkv'
    obtain ⟨en, hen, hxe⟩ := NTM.mem_rowResults.mp hx
    rcases hent en hen with rfl | hen0
    · exact ⟨x, hxe, hnx⟩
    · exact absurd (old kv hkv en hen0 x hxe).1 hnx
  · rintro ⟨kv', hkv', x, hx, hnx⟩
    obtain ⟨kv, hkv, _, hent⟩ := NTM.setEntry_rows d q s rs kv' hkv'
    obtain ⟨en, hen, hxe⟩ := NTM.mem_rowResults.mp hx
    rcases hent en hen with rfl | hen0
    · exact ⟨x, hxe, hnx⟩
    · exact absurd (old kv hkv en hen0 x hxe).2.1 hnx
  · rintro ⟨kv', hkv', x, hx, hnx⟩
    obtain ⟨kv, hkv, _, hent⟩ := NTM.setEntry_rows d q s rs kv' hkv'
    obtain ⟨en, hen, hxe⟩ := NTM.mem_rowResults.mp hx
    rcases hent en hen with rfl | hen0
    · exact ⟨x, hxe, hnx⟩
    · exact absurd (old kv hkv en hen0 x hxe).2.2 hnx

/-- The new entry is in the edited table. -/
private theorem ntm_setEntry_new (d : NTM σ γ) (kv : σ × List (γ × List (TMResult σ γ))) (hkv : kv ∈ d.trans)
    (s : γ) (rs : List (TMResult σ γ)) :
    ∃ kv' ∈ (NTM.setEntry d kv.1 s rs).trans, s ∈ NTM.rowReads kv' ∧ ∀ r ∈ rs, r ∈ NTM.rowResults kv' :=
  ⟨(kv.1, ainsert s rs kv.2), editRow_mem kv.1 (ainsert s rs) d.trans kv hkv rfl,
    List.mem_map.mpr ⟨(s, rs), ainsert_mem_self s rs kv.2, rfl⟩,
    fun r hr => NTM.mem_rowResults.mpr ⟨(s, rs), ainsert_mem_self s rs kv.2, hr⟩⟩

set_option hygiene false in
/-- the rules outside the row loop: head rules (earlier, untouched by the edit) and tail rules (later) -/
local macro "ntm_outside_loop" : tactic => `(tactic| first
  | exact Or.inl rfl
  | exact absurd hv' (hno .inputNotProperSubset)
  | exact absurd hv' (hno .badBlank)
  | (right; rw [NTM.rules_stage]; decide))

/-- NTM / **bad direction**: in a valid NTM, `transitions[q][s] = rs` with `s` a tape symbol, every
result of `rs` naming a state and a tape symbol, and one of them a direction that is not a direction
letter → `InvalidDirectionError`. -/
theorem C19_ntm_corrupt_direction (d : NTM σ γ) (wf : d.WF) (kv : σ × List (γ × List (TMResult σ γ)))
    (hkv : kv ∈ d.trans) (s : γ) (hs : s ∈ d.tapeSyms) (rs : List (TMResult σ γ))
    (hok : ∀ r ∈ rs, r.1 ∈ d.states ∧ r.2.1 ∈ d.tapeSyms)
    (hbad : ∃ r ∈ rs, r.2.2 ∉ Gen.Validate.ntmDirections) :
    (NTM.setEntry d kv.1 s rs).validate = .error (.lib .invalidDirectionError) := by
  have hno := (NTM.wf_iff d).mp wf
  obtain ⟨l0, l1, l2, l3, _⟩ := ntm_setEntry_loop d wf kv.1 s rs
  obtain ⟨kv', hkv', _, hres⟩ := ntm_setEntry_new d kv hkv s rs
  obtain ⟨r, hr, hdir⟩ := hbad
  refine NTM.rules_correct.corrupt_raises _ .badDirection ⟨kv', hkv', r, hres r hr, hdir⟩ ?_
  intro r' hv'
  cases r'
  case unknownTransitionState => exact (l0 hv').elim
  case badReadSymbol => exact absurd hs (l1 hv')
  case unknownResultState => obtain ⟨x, hx, hn⟩ := l2 hv'; exact absurd (hok x hx).1 hn
  case badWriteSymbol => obtain ⟨x, hx, hn⟩ := l3 hv'; exact absurd (hok x hx).2 hn
  all_goals ntm_outside_loop

/-- NTM / **bad tape symbol (read)**: `transitions[q][s] = rs` with `s` not a tape symbol (states
and directions of the results legal; written symbols may be anything: a foreign one raises the same
class) → `InvalidSymbolError`. -/
theorem C19_ntm_corrupt_read_symbol (d : NTM σ γ) (wf : d.WF) (kv : σ × List (γ × List (TMResult σ γ)))
    (hkv : kv ∈ d.trans) (s : γ) (hs : s ∉ d.tapeSyms) (rs : List (TMResult σ γ))
    (hok : ∀ r ∈ rs, r.1 ∈ d.states ∧ r.2.2 ∈ Gen.Validate.ntmDirections) :
    (NTM.setEntry d kv.1 s rs).validate = .error (.lib .invalidSymbolError) := by
  have hno := (NTM.wf_iff d).mp wf
  obtain ⟨l0, _, l2, _, l4⟩ := ntm_setEntry_loop d wf kv.1 s rs
  obtain ⟨kv', hkv', hrd, _⟩ := ntm_setEntry_new d kv hkv s rs
  refine NTM.rules_correct.corrupt_raises _ .badReadSymbol ⟨kv', hkv', s, hrd, hs⟩ ?_
  intro r' hv'
  cases r'
  case unknownTransitionState => exact (l0 hv').elim
  case unknownResultState => obtain ⟨x, hx, hn⟩ := l2 hv'; exact absurd (hok x hx).1 hn
  case badDirection => obtain ⟨x, hx, hn⟩ := l4 hv'; exact absurd (hok x hx).2 hn
  all_goals ntm_outside_loop

/-- NTM / **bad tape symbol (written)**: `transitions[q][s] = rs` where one result writes a symbol
that is not a tape symbol (states and directions of all results legal) → `InvalidSymbolError`. -/
theorem C19_ntm_corrupt_write_symbol (d : NTM σ γ) (wf : d.WF) (kv : σ × List (γ × List (TMResult σ γ)))
    (hkv : kv ∈ d.trans) (s : γ) (rs : List (TMResult σ γ))
    (hok : ∀ r ∈ rs, r.1 ∈ d.states ∧ r.2.2 ∈ Gen.Validate.ntmDirections)
    (hbad : ∃ r ∈ rs, r.2.1 ∉ d.tapeSyms) :
    (NTM.setEntry d kv.1 s rs).validate = .error (.lib .invalidSymbolError) := by
  have hno := (NTM.wf_iff d).mp wf
  obtain ⟨l0, _, l2, _, l4⟩ := ntm_setEntry_loop d wf kv.1 s rs
  obtain ⟨kv', hkv', _, hres⟩ := ntm_setEntry_new d kv hkv s rs
  obtain ⟨r, hr, hw⟩ := hbad
  refine NTM.rules_correct.corrupt_raises _ .badWriteSymbol ⟨kv', hkv', r, hres r hr, hw⟩ ?_
  intro r' hv'
  cases r'
  case unknownTransitionState => exact (l0 hv').elim
  case unknownResultState => obtain ⟨x, hx, hn⟩ := l2 hv'; exact absurd (hok x hx).1 hn
  case badDirection => obtain ⟨x, hx, hn⟩ := l4 hv'; exact absurd (hok x hx).2 hn
  all_goals ntm_outside_loop

/-- NTM / **unknown end state**: `transitions[q][s] = rs` where one result names a non-state (`s` a
tape symbol, written symbols and directions of all results legal) → `InvalidStateError`. -/
theorem C19_ntm_corrupt_end_state (d : NTM σ γ) (wf : d.WF) (kv : σ × List (γ × List (TMResult σ γ)))
    (hkv : kv ∈ d.trans) (s : γ) (hs : s ∈ d.tapeSyms) (rs : List (TMResult σ γ))
    (hok : ∀ r ∈ rs, r.2.1 ∈ d.tapeSyms ∧ r.2.2 ∈ Gen.Validate.ntmDirections)
    (hbad : ∃ r ∈ rs, r.1 ∉ d.states) :
    (NTM.setEntry d kv.1 s rs).validate = .error (.lib .invalidStateError) := by
  have hno := (NTM.wf_iff d).mp wf
  obtain ⟨_, l1, _, l3, l4⟩ := ntm_setEntry_loop d wf kv.1 s rs
  obtain ⟨kv', hkv', _, hres⟩ := ntm_setEntry_new d kv hkv s rs
  obtain ⟨r, hr, ht⟩ := hbad
  refine NTM.rules_correct.corrupt_raises _ .unknownResultState ⟨kv', hkv', r, hres r hr, ht⟩ ?_
  intro r' hv'
  cases r'
  case badReadSymbol => exact absurd hs (l1 hv')
  case badWriteSymbol => obtain ⟨x, hx, hn⟩ := l3 hv'; exact absurd (hok x hx).1 hn
  case badDirection => obtain ⟨x, hx, hn⟩ := l4 hv'; exact absurd (hok x hx).2 hn
  all_goals ntm_outside_loop

/-- NTM / a final state outside the state set → `InvalidStateError` (the new name is not the
initial state, so the `InitialStateError` check before it passes). -/
theorem C19_ntm_corrupt_final (d : NTM σ γ) (wf : d.WF) (q : σ) (hq : q ∉ d.states) :
    ({ d with finals := q :: d.finals } : NTM σ γ).validate = .error (.lib .invalidStateError) := by
  have hno := (NTM.wf_iff d).mp wf
  refine NTM.rules_correct.corrupt_raises _ .badFinal ⟨q, by simp, hq⟩ ?_
  intro r' hv'
  cases r'
  case initialIsFinal =>
    exfalso
    rcases List.mem_cons.mp hv' with h | h
    · exact hq (h ▸ wf.tail.initOk)
    · exact wf.tail.initNotFinal h
  case inputNotProperSubset => exact absurd hv' (hno .inputNotProperSubset)
  case badBlank => exact absurd hv' (hno .badBlank)
  case unknownTransitionState => exact Or.inl rfl
  case badReadSymbol => exact absurd hv' (hno .badReadSymbol)
  case unknownResultState => exact Or.inl rfl
  case badWriteSymbol => exact absurd hv' (hno .badWriteSymbol)
  case badDirection => exact absurd hv' (hno .badDirection)
  case badInitial => exact Or.inl rfl
  case initialNoRow => exact absurd hv' (hno .initialNoRow)
  case badFinal => exact Or.inl rfl
  case finalHasTransitions => right; rw [NTM.rules_stage]; decide
  case badTapeCount => right; rw [NTM.rules_stage]; decide

/-- NTM / **final state with transitions**: in a valid NTM, `transitions[f] = row` for a final
state `f` and a row that is itself legal (tape symbols; results naming states, tape symbols and
direction letters — e.g. the empty row) → `FinalStateError`, the last check. -/
theorem C19_ntm_corrupt_final_row (d : NTM σ γ) (wf : d.WF) (f : σ) (hf : f ∈ d.finals)
    (row : List (γ × List (TMResult σ γ))) (hreads : ∀ s ∈ akeys row, s ∈ d.tapeSyms)
    (hres : ∀ rs ∈ avals row, ∀ r ∈ rs, TmResultOk d.states d.tapeSyms Gen.Validate.ntmDirections r) :
    (NTM.setRow d f row).validate = .error (.lib .finalStateError) := by
  have hno := (NTM.wf_iff d).mp wf
  have hrows : ∀ kv' ∈ (NTM.setRow d f row).trans, kv' = (f, row) ∨ kv' ∈ d.trans :=
    fun kv' h => mem_ainsert_row f row d.trans kv' h
  have hkeys : ∀ x, x ∈ akeys d.trans → x ∈ akeys (NTM.setRow d f row).trans :=
    fun x hx => akeys_ainsert_sup f row d.trans x hx
  have hv : NTM.rules.Violates (NTM.setRow d f row) .finalHasTransitions :=
    ⟨f, hf, va_akeys_ainsert_self f row d.trans⟩
  have hresults : ∀ kv' ∈ (NTM.setRow d f row).trans, ∀ x ∈ NTM.rowResults kv',
      TmResultOk d.states d.tapeSyms Gen.Validate.ntmDirections x := by
    intro kv' hkv' x hx
    obtain ⟨en, hen, hxe⟩ := NTM.mem_rowResults.mp hx
    rcases hrows kv' hkv' with rfl | h
    · exact hres en.2 (List.mem_map.mpr ⟨en, hen, rfl⟩) x hxe
    · exact wf.resultsOk kv' h en.2 (List.mem_map.mpr ⟨en, hen, rfl⟩) x hxe
  refine NTM.rules_correct.corrupt_raises _ .finalHasTransitions hv ?_
  intro r' hv'
  cases r'
  case inputNotProperSubset => exact absurd hv' (hno .inputNotProperSubset)
  case badBlank => exact absurd hv' (hno .badBlank)
  case unknownTransitionState =>
    exfalso
    obtain ⟨kv', hkv', hn⟩ := hv'
    rcases hrows kv' hkv' with rfl | h
    · exact hn (wf.tail.finalsOk f hf)
    · exact hn (wf.keysOk kv' h)
  case badReadSymbol =>
    exfalso
    obtain ⟨kv', hkv', x, hx, hn⟩ := hv'
    rcases hrows kv' hkv' with rfl | h
    · exact hn (hreads x hx)
    · exact hn (wf.readOk kv' h x hx)
  case unknownResultState =>
    exfalso
    obtain ⟨kv', hkv', x, hx, hn⟩ := hv'
    exact hn (hresults kv' hkv' x hx).1
  case badWriteSymbol =>
    exfalso
    obtain ⟨kv', hkv', x, hx, hn⟩ := hv'
    exact hn (hresults kv' hkv' x hx).2.1
  case badDirection =>
    exfalso
    obtain ⟨kv', hkv', x, hx, hn⟩ := hv'
    exact hn (hresults kv' hkv' x hx).2.2
  case badInitial => exact absurd hv' (hno .badInitial)
  case initialNoRow =>
    exfalso
    obtain ⟨h1, h2⟩ := hv'
    rcases wf.tail.initRow with h | h
    · exact h1 (hkeys _ h)
    · exact absurd h2 (by show ¬ 1 < d.states.length; omega)
  case initialIsFinal => exact absurd hv' (hno .initialIsFinal)
  case badFinal => exact absurd hv' (hno .badFinal)
  case finalHasTransitions => exact Or.inl rfl
  case badTapeCount => exact absurd hv' (by simp [NTM.rules])

/-! ## MNTM: `transitions[q][(s₁,…,s_n)] = [(state, ((w₁,d₁),…,(w_n,d_n))), …]`

The tape-count rule (`_validate_tapes_consistency`) is checked after everything else, so the
theorems need no hypothesis on the lengths of the read tuple and of the move tuples.  A result
without moves is not looked at by `_validate_transition_results` (its state is never tested), so
the defect must sit in a result that has a move. -/

private theorem mntm_setEntry_loop (d : MNTM σ γ) (wf : d.WF) (q : σ) (rd : List γ)
    (rs : List (σ × List (γ × String))) :
    (MNTM.rules.Violates (MNTM.setEntry d q rd rs) .unknownTransitionState → False) ∧
    (MNTM.rules.Violates (MNTM.setEntry d q rd rs) .badReadSymbol → ∃ s ∈ rd, s ∉ d.tapeSyms) ∧
    (MNTM.rules.Violates (MNTM.setEntry d q rd rs) .unknownResultState →
      ∃ r ∈ rs, ∃ mv ∈ r.2, r.1 ∉ d.states) ∧
    (MNTM.rules.Violates (MNTM.setEntry d q rd rs) .badWriteSymbol →
      ∃ r ∈ rs, ∃ mv ∈ r.2, mv.1 ∉ d.tapeSyms) ∧
    (MNTM.rules.Violates (MNTM.setEntry d q rd rs) .badDirection →
      ∃ r ∈ rs, ∃ mv ∈ r.2, mv.2 ∉ Gen.Validate.ntmDirections) := by
  have old : ∀ kv ∈ d.trans, ∀ en ∈ kv.2, ∀ r ∈ en.2, ∀ mv ∈ r.2,
      TmResultOk d.states d.tapeSyms Gen.Validate.ntmDirections (r.1, mv.1, mv.2) :=
    fun kv hkv en hen r hr mv hmv =>
      wf.resultsOk kv hkv en.2 (List.mem_map.mpr ⟨en, hen, rfl⟩) r hr mv hmv
  refine ⟨?_, ?_, ?_, ?_, ?_⟩
  · rintro ⟨kv', hkv', hn⟩
    obtain ⟨kv, hkv, h1, _⟩ := MNTM.setEntry_rows d q rd rs kv' hkv'
    exact hn (h1 ▸ wf.keysOk kv hkv)
  · rintro ⟨kv', hkv', x, hx, hnx⟩
    obtain ⟨kv, hkv, _, hent⟩ := MNTM.setEntry_rows d q rd rs kv' hkv'
    obtain ⟨en, hen, hxe⟩ := MNTM.mem_rowReads.mp hx
    rcases hent en hen with rfl | hen0
    · exact ⟨x, hxe, hnx⟩
    · exact absurd (wf.readOk kv hkv en.1 (List.mem_map.mpr ⟨en, hen0, rfl⟩) x hxe) hnx
  · rintro ⟨kv', hkv', x, hx, hnx⟩
    obtain ⟨kv, hkv, _, hent⟩ := MNTM.setEntry_rows d q rd rs kv' hkv'
    obtain ⟨en, hen, r, hr, mv, hmv, rfl⟩ := MNTM.mem_rowResults'.mp hx
    rcases hent en hen with rfl | hen0
    · exact ⟨r, hr, mv, hmv, hnx⟩
    · exact absurd (old kv hkv en hen0 r hr mv hmv).1 hnx
  · rintro ⟨kv', hkv', x, hx, hnx⟩
    obtain ⟨kv, hkv, _, hent⟩ := MNTM.setEntry_rows d q rd rs kv' hkv'
    obtain ⟨en, hen, r, hr, mv, hmv, rfl⟩ := MNTM.mem_rowResults'.mp hx
    rcases hent en hen with rfl | hen0
    · exact ⟨r, hr, mv, hmv, hnx⟩
    · exact absurd (old kv hkv en hen0 r hr mv hmv).2.1 hnx
  · rintro ⟨kv', hkv', x, hx, hnx⟩
    obtain ⟨kv, hkv, _, hent⟩ := MNTM.setEntry_rows d q rd rs kv' hkv'
    obtain ⟨en, hen, r, hr, mv, hmv, rfl⟩ := MNTM.mem_rowResults'.mp hx
    rcases hent en hen with rfl | hen0
    · exact ⟨r, hr, mv, hmv, hnx⟩
    · exact absurd (old kv hkv en hen0 r hr mv hmv).2.2 hnx

/-- The new entry is in the edited table. -/
private theorem mntm_setEntry_new (d : MNTM σ γ) (kv : σ × List (List γ × List (σ × List (γ × String))))
    (hkv : kv ∈ d.trans) (rd : List γ) (rs : List (σ × List (γ × String))) :
    ∃ kv' ∈ (MNTM.setEntry d kv.1 rd rs).trans, (∀ s ∈ rd, s ∈ MNTM.rowReads kv') ∧
      ∀ r ∈ rs, ∀ mv ∈ r.2, (r.1, mv.1, mv.2) ∈ MNTM.rowResults kv' :=
  ⟨(kv.1, ainsert rd rs kv.2), editRow_mem kv.1 (ainsert rd rs) d.trans kv hkv rfl,
    fun s hs => MNTM.mem_rowReads.mpr ⟨(rd, rs), ainsert_mem_self rd rs kv.2, hs⟩,
    fun r hr mv hmv => MNTM.mem_rowResults'.mpr ⟨(rd, rs), ainsert_mem_self rd rs kv.2, r, hr, mv, hmv, rfl⟩⟩

set_option hygiene false in
/-- the rules outside the row loop: head rules (earlier, untouched by the edit) and tail rules (later) -/
local macro "mntm_outside_loop" : tactic => `(tactic| first
  | exact Or.inl rfl
  | exact absurd hv' (hno .inputNotProperSubset)
  | exact absurd hv' (hno .badBlank)
  | (right; rw [MNTM.rules_stage]; decide))

/-- MNTM / **bad direction**: in a valid MNTM, `transitions[q][rd] = rs` with `rd` a tuple of tape
symbols, every move of every result of `rs` writing a tape symbol in a result that names a state,
and one move with a direction that is not a direction letter → `InvalidDirectionError` (whatever
the tuple lengths: the tape count is checked last). -/
theorem C19_mntm_corrupt_direction (d : MNTM σ γ) (wf : d.WF)
    (kv : σ × List (List γ × List (σ × List (γ × String)))) (hkv : kv ∈ d.trans)
    (rd : List γ) (hrd : ∀ s ∈ rd, s ∈ d.tapeSyms) (rs : List (σ × List (γ × String)))
    (hok : ∀ r ∈ rs, ∀ mv ∈ r.2, r.1 ∈ d.states ∧ mv.1 ∈ d.tapeSyms)
    (hbad : ∃ r ∈ rs, ∃ mv ∈ r.2, mv.2 ∉ Gen.Validate.ntmDirections) :
    (MNTM.setEntry d kv.1 rd rs).validate = .error (.lib .invalidDirectionError) := by
  have hno := (MNTM.wf_iff d).mp wf
  obtain ⟨l0, l1, l2, l3, _⟩ := mntm_setEntry_loop d wf kv.1 rd rs
  obtain ⟨kv', hkv', _, hres⟩ := mntm_setEntry_new d kv hkv rd rs
  obtain ⟨r, hr, mv, hmv, hdir⟩ := hbad
  refine MNTM.rules_correct.corrupt_raises _ .badDirection ⟨kv', hkv', _, hres r hr mv hmv, hdir⟩ ?_
  intro r' hv'
  cases r'
  case unknownTransitionState => exact (l0 hv').elim
  case badReadSymbol => obtain ⟨x, hx, hn⟩ := l1 hv'; exact absurd (hrd x hx) hn
  case unknownResultState => obtain ⟨x, hx, m, hm, hn⟩ := l2 hv'; exact absurd (hok x hx m hm).1 hn
  case badWriteSymbol => obtain ⟨x, hx, m, hm, hn⟩ := l3 hv'; exact absurd (hok x hx m hm).2 hn
  all_goals mntm_outside_loop

/-- MNTM / **bad tape symbol (read)**: `transitions[q][rd] = rs` with a component of `rd` that is not
a tape symbol (states and directions of the results legal) → `InvalidSymbolError`. -/
theorem C19_mntm_corrupt_read_symbol (d : MNTM σ γ) (wf : d.WF)
    (kv : σ × List (List γ × List (σ × List (γ × String)))) (hkv : kv ∈ d.trans)
    (rd : List γ) (hrd : ∃ s ∈ rd, s ∉ d.tapeSyms) (rs : List (σ × List (γ × String)))
    (hok : ∀ r ∈ rs, ∀ mv ∈ r.2, r.1 ∈ d.states ∧ mv.2 ∈ Gen.Validate.ntmDirections) :
    (MNTM.setEntry d kv.1 rd rs).validate = .error (.lib .invalidSymbolError) := by
  have hno := (MNTM.wf_iff d).mp wf
  obtain ⟨l0, _, l2, _, l4⟩ := mntm_setEntry_loop d wf kv.1 rd rs
  obtain ⟨kv', hkv', hreads, _⟩ := mntm_setEntry_new d kv hkv rd rs
  obtain ⟨s, hs, hns⟩ := hrd
  refine MNTM.rules_correct.corrupt_raises _ .badReadSymbol ⟨kv', hkv', s, hreads s hs, hns⟩ ?_
  intro r' hv'
  cases r'
  case unknownTransitionState => exact (l0 hv').elim
  case unknownResultState => obtain ⟨x, hx, m, hm, hn⟩ := l2 hv'; exact absurd (hok x hx m hm).1 hn
  case badDirection => obtain ⟨x, hx, m, hm, hn⟩ := l4 hv'; exact absurd (hok x hx m hm).2 hn
  all_goals mntm_outside_loop

/-- MNTM / **bad tape symbol (written)**: `transitions[q][rd] = rs` where a move of a result writes a
symbol that is not a tape symbol (states and directions legal) → `InvalidSymbolError`. -/
theorem C19_mntm_corrupt_write_symbol (d : MNTM σ γ) (wf : d.WF)
    (kv : σ × List (List γ × List (σ × List (γ × String)))) (hkv : kv ∈ d.trans)
    (rd : List γ) (rs : List (σ × List (γ × String)))
    (hok : ∀ r ∈ rs, ∀ mv ∈ r.2, r.1 ∈ d.states ∧ mv.2 ∈ Gen.Validate.ntmDirections)
    (hbad : ∃ r ∈ rs, ∃ mv ∈ r.2, mv.1 ∉ d.tapeSyms) :
    (MNTM.setEntry d kv.1 rd rs).validate = .error (.lib .invalidSymbolError) := by
  have hno := (MNTM.wf_iff d).mp wf
  obtain ⟨l0, _, l2, _, l4⟩ := mntm_setEntry_loop d wf kv.1 rd rs
  obtain ⟨kv', hkv', _, hres⟩ := mntm_setEntry_new d kv hkv rd rs
  obtain ⟨r, hr, mv, hmv, hw⟩ := hbad
  refine MNTM.rules_correct.corrupt_raises _ .badWriteSymbol ⟨kv', hkv', _, hres r hr mv hmv, hw⟩ ?_
  intro r' hv'
  cases r'
  case unknownTransitionState => exact (l0 hv').elim
  case unknownResultState => obtain ⟨x, hx, m, hm, hn⟩ := l2 hv'; exact absurd (hok x hx m hm).1 hn
  case badDirection => obtain ⟨x, hx, m, hm, hn⟩ := l4 hv'; exact absurd (hok x hx m hm).2 hn
  all_goals mntm_outside_loop

/-- MNTM / **unknown end state**: `transitions[q][rd] = rs` where a result *that has a move* names a
non-state (`rd` tape symbols, written symbols and directions legal) → `InvalidStateError`. -/
theorem C19_mntm_corrupt_end_state (d : MNTM σ γ) (wf : d.WF)
    (kv : σ × List (List γ × List (σ × List (γ × String)))) (hkv : kv ∈ d.trans)
    (rd : List γ) (hrd : ∀ s ∈ rd, s ∈ d.tapeSyms) (rs : List (σ × List (γ × String)))
    (hok : ∀ r ∈ rs, ∀ mv ∈ r.2, mv.1 ∈ d.tapeSyms ∧ mv.2 ∈ Gen.Validate.ntmDirections)
    (hbad : ∃ r ∈ rs, r.2 ≠ [] ∧ r.1 ∉ d.states) :
    (MNTM.setEntry d kv.1 rd rs).validate = .error (.lib .invalidStateError) := by
  have hno := (MNTM.wf_iff d).mp wf
  obtain ⟨_, l1, _, l3, l4⟩ := mntm_setEntry_loop d wf kv.1 rd rs
  obtain ⟨kv', hkv', _, hres⟩ := mntm_setEntry_new d kv hkv rd rs
  obtain ⟨r, hr, hne, ht⟩ := hbad
  obtain ⟨mv, hmv⟩ : ∃ mv, mv ∈ r.2 := by
    cases h2 : r.2 with
    | nil => exact absurd h2 hne
    | cons x t => exact ⟨x, by simp⟩
  refine MNTM.rules_correct.corrupt_raises _ .unknownResultState ⟨kv', hkv', _, hres r hr mv hmv, ht⟩ ?_
  intro r' hv'
  cases r'
  case badReadSymbol => obtain ⟨x, hx, hn⟩ := l1 hv'; exact absurd (hrd x hx) hn
  case badWriteSymbol => obtain ⟨x, hx, m, hm, hn⟩ := l3 hv'; exact absurd (hok x hx m hm).1 hn
  case badDirection => obtain ⟨x, hx, m, hm, hn⟩ := l4 hv'; exact absurd (hok x hx m hm).2 hn
  all_goals mntm_outside_loop

/-- MNTM / a final state outside the state set → `InvalidStateError`. -/
theorem C19_mntm_corrupt_final (d : MNTM σ γ) (wf : d.WF) (q : σ) (hq : q ∉ d.states) :
    ({ d with finals := q :: d.finals } : MNTM σ γ).validate = .error (.lib .invalidStateError) := by
  have hno := (MNTM.wf_iff d).mp wf
  refine MNTM.rules_correct.corrupt_raises _ .badFinal ⟨q, by simp, hq⟩ ?_
  intro r' hv'
  cases r'
  case initialIsFinal =>
    exfalso
    rcases List.mem_cons.mp hv' with h | h
    · exact hq (h ▸ wf.tail.initOk)
    · exact wf.tail.initNotFinal h
  case inputNotProperSubset => exact absurd hv' (hno .inputNotProperSubset)
  case badBlank => exact absurd hv' (hno .badBlank)
  case unknownTransitionState => exact Or.inl rfl
  case badReadSymbol => exact absurd hv' (hno .badReadSymbol)
  case unknownResultState => exact Or.inl rfl
  case badWriteSymbol => exact absurd hv' (hno .badWriteSymbol)
  case badDirection => exact absurd hv' (hno .badDirection)
  case badInitial => exact Or.inl rfl
  case initialNoRow => exact absurd hv' (hno .initialNoRow)
  case badFinal => exact Or.inl rfl
  case finalHasTransitions => right; rw [MNTM.rules_stage]; decide
  case badTapeCount => right; rw [MNTM.rules_stage]; decide

/-- MNTM / **final state with transitions**: in a valid MNTM, `transitions[f] = row` for a final
state `f` and a row whose symbols, states and directions are legal (tuple lengths arbitrary) →
`FinalStateError`. -/
theorem C19_mntm_corrupt_final_row (d : MNTM σ γ) (wf : d.WF) (f : σ) (hf : f ∈ d.finals)
    (row : List (List γ × List (σ × List (γ × String))))
    (hreads : ∀ rd ∈ akeys row, ∀ s ∈ rd, s ∈ d.tapeSyms)
    (hres : ∀ rs ∈ avals row, ∀ r ∈ rs, ∀ mv ∈ r.2,
      TmResultOk d.states d.tapeSyms Gen.Validate.ntmDirections (r.1, mv.1, mv.2)) :
    (MNTM.setRow d f row).validate = .error (.lib .finalStateError) := by
  have hno := (MNTM.wf_iff d).mp wf
  have hrows : ∀ kv' ∈ (MNTM.setRow d f row).trans, kv' = (f, row) ∨ kv' ∈ d.trans :=
    fun kv' h => mem_ainsert_row f row d.trans kv' h
  have hkeys : ∀ x, x ∈ akeys d.trans → x ∈ akeys (MNTM.setRow d f row).trans :=
    fun x hx => akeys_ainsert_sup f row d.trans x hx
  have hv : MNTM.rules.Violates (MNTM.setRow d f row) .finalHasTransitions :=
    ⟨f, hf, va_akeys_ainsert_self f row d.trans⟩
  have hresults : ∀ kv' ∈ (MNTM.setRow d f row).trans, ∀ x ∈ MNTM.rowResults kv',
      TmResultOk d.states d.tapeSyms Gen.Validate.ntmDirections x := by
    intro kv' hkv' x hx
    obtain ⟨en, hen, r, hr, mv, hmv, rfl⟩ := MNTM.mem_rowResults'.mp hx
    rcases hrows kv' hkv' with rfl | h
    · exact hres en.2 (List.mem_map.mpr ⟨en, hen, rfl⟩) r hr mv hmv
    · exact wf.resultsOk kv' h en.2 (List.mem_map.mpr ⟨en, hen, rfl⟩) r hr mv hmv
  refine MNTM.rules_correct.corrupt_raises _ .finalHasTransitions hv ?_
  intro r' hv'
  cases r'
  case inputNotProperSubset => exact absurd hv' (hno .inputNotProperSubset)
  case badBlank => exact absurd hv' (hno .badBlank)
  case unknownTransitionState =>
    exfalso
    obtain ⟨kv', hkv', hn⟩ := hv'
    rcases hrows kv' hkv' with rfl | h
    · exact hn (wf.tail.finalsOk f hf)
    · exact hn (wf.keysOk kv' h)
  case badReadSymbol =>
    exfalso
    obtain ⟨kv', hkv', x, hx, hn⟩ := hv'
    obtain ⟨en, hen, hxe⟩ := MNTM.mem_rowReads.mp hx
    rcases hrows kv' hkv' with rfl | h
    · exact hn (hreads en.1 (List.mem_map.mpr ⟨en, hen, rfl⟩) x hxe)
    · exact hn (wf.readOk kv' h en.1 (List.mem_map.mpr ⟨en, hen, rfl⟩) x hxe)
  case unknownResultState =>
    exfalso
    obtain ⟨kv', hkv', x, hx, hn⟩ := hv'
    exact hn (hresults kv' hkv' x hx).1
  case badWriteSymbol =>
    exfalso
    obtain ⟨kv', hkv', x, hx, hn⟩ := hv'
    exact hn (hresults kv' hkv' x hx).2.1
  case badDirection =>
    exfalso
    obtain ⟨kv', hkv', x, hx, hn⟩ := hv'
    exact hn (hresults kv' hkv' x hx).2.2
  case badInitial => exact absurd hv' (hno .badInitial)
  case initialNoRow =>
    exfalso
    obtain ⟨h1, h2⟩ := hv'
    rcases wf.tail.initRow with h | h
    · exact h1 (hkeys _ h)
    · exact absurd h2 (by show ¬ 1 < d.states.length; omega)
  case initialIsFinal => exact absurd hv' (hno .initialIsFinal)
  case badFinal => exact absurd hv' (hno .badFinal)
  case finalHasTransitions => exact Or.inl rfl
  case badTapeCount => right; rw [MNTM.rules_stage]; decide

/-! ## non-vacuity -/

/-- `exMNTM` (Props/C19.lean) has two tapes; the edits below are on the row of state 0. -/
example : (MNTM.setEntry exMNTM 0 [9, 0] [(1, [(0, "R"), (9, "X")])]).validate =
    .error (.lib .invalidDirectionError) := by decide
example : (MNTM.setEntry exMNTM 0 [9, 5] [(1, [(0, "R"), (9, "N")])]).validate =
    .error (.lib .invalidSymbolError) := by decide
example : (MNTM.setEntry exMNTM 0 [9, 0] [(1, [(0, "R"), (5, "N")])]).validate =
    .error (.lib .invalidSymbolError) := by decide
example : (MNTM.setEntry exMNTM 0 [9, 0] [(1, [(0, "R"), (9, "N")]), (7, [(0, "R"), (9, "N")])]).validate =
    .error (.lib .invalidStateError) := by decide
/-- a result without moves is not looked at by the row loop: only the tape count catches it -/
example : (MNTM.setEntry exMNTM 0 [9, 0] [(7, [])]).validate =
    .error (.lib .inconsistentTapesException) := by decide
/-- a bad direction in a move tuple of the wrong length: the direction wins -/
example : (MNTM.setEntry exMNTM 0 [9, 0] [(1, [(0, "X")])]).validate =
    .error (.lib .invalidDirectionError) := by decide
example : (MNTM.setRow exMNTM 1 []).validate = .error (.lib .finalStateError) := by decide
example : (MNTM.setRow exMNTM 1 [([0, 0], [(0, [(0, "R"), (9, "N")])])]).validate =
    .error (.lib .finalStateError) := by decide
example : ({ exMNTM with finals := [7, 1] } : MNTM Nat Nat).validate = .error (.lib .invalidStateError) := by
  decide

def exNTM : NTM Nat Nat :=
  { states := [0, 1, 2], syms := [0], tapeSyms := [0, 9],
    trans := [(0, [(0, [(1, 0, "R"), (0, 9, "L")]), (9, [(2, 9, "N")])]), (1, [(0, [(0, 9, "L")])])],
    init := 0, blank := 9, finals := [2] }

example : exNTM.validate = .ok () := by decide
example : (NTM.setEntry exNTM 1 9 [(0, 9, "L"), (1, 0, "X")]).validate = .error (.lib .invalidDirectionError) := by
  decide
example : (NTM.setEntry exNTM 1 5 [(0, 9, "L")]).validate = .error (.lib .invalidSymbolError) := by decide
example : (NTM.setEntry exNTM 1 9 [(0, 9, "L"), (0, 5, "L")]).validate = .error (.lib .invalidSymbolError) := by
  decide
example : (NTM.setEntry exNTM 1 9 [(0, 9, "L"), (7, 9, "L")]).validate = .error (.lib .invalidStateError) := by
  decide
example : (NTM.setRow exNTM 2 []).validate = .error (.lib .finalStateError) := by decide
example : (NTM.setRow exNTM 2 [(0, [(1, 9, "R")])]).validate = .error (.lib .finalStateError) := by decide
example : ({ exNTM with finals := [7, 2] } : NTM Nat Nat).validate = .error (.lib .invalidStateError) := by decide

/-! ## PDA: unknown input symbol -/

/-- DPDA / **unknown input symbol**: in a valid DPDA, `transitions[q][a][g] = r` with `a` neither an
input symbol nor `""` → `InvalidSymbolError`, *provided* `g` has no λ-move in the row of `q`:
otherwise the λ-entry, which comes earlier in the row, is found to have a sibling on `g` and
`NondeterminismError` is raised first (the determinism test of the code runs over the whole row,
foreign entries included).  `g` itself may be foreign (same class).  (`hg` speaks about every row
keyed `q`: in a Python dict there is one.) -/
theorem C19_dpda_corrupt_input_symbol (isEmptyStr : γ → Bool) (d : DPDA σ α γ)
    (wf : d.WFDef isEmptyStr) (kv : σ × List (Option α × List (γ × (σ × List γ)))) (hkv : kv ∈ d.trans)
    (a : α) (ha : a ∉ d.syms) (g : γ)
    (hg : ∀ kv0 ∈ d.trans, kv0.1 = kv.1 → g ∉ akeys (DPDA.lamRow kv0.2)) (r : σ × List γ) :
    (DPDA.setMove d kv.1 (some a) g r).validateDef isEmptyStr = .error (.lib .invalidSymbolError) := by
  show (pdaValidateReserved isEmptyStr d.stackSyms).andThen _ = _
  rw [wf.reservedOk, Res.ok_andThen]
  have hrow : (kv.1, rowSetMove (some a) g r kv.2) ∈ (DPDA.setMove d kv.1 (some a) g r).trans :=
    editRow_mem kv.1 (rowSetMove (some a) g r) d.trans kv hkv rfl
  have hv : DPDA.rules.Violates (DPDA.setMove d kv.1 (some a) g r) .unknownInputSymbol :=
    ⟨_, hrow, _, rowSetMove_mem_self (some a) g r kv.2, a, rfl, ha⟩
  refine DPDA.rules_correct.corrupt_raises _ .unknownInputSymbol hv ?_
  intro r' hv'
  cases r'
  case nondeterministic =>
    -- every row is still deterministic
    exfalso
    obtain ⟨kv', hkv', hnd⟩ := hv'
    apply hnd
    obtain ⟨kv0, hkv0, _, hshape⟩ := mem_editRow kv.1 (rowSetMove (some a) g r) d.trans kv' hkv'
    rcases hshape with rfl | ⟨hk, hshape⟩
    · exact wf.det kv' hkv0
    · rw [hshape]
      intro en hen b hb x hx
      rw [DPDA.lamRow_rowSetMove_some]
      intro hxl
      rcases mem_rowSetMove (some a) g r kv0.2 en hen with rfl | hen0
      · rcases rowSetMove_new_keys (some a) g r kv0.2 x hx with rfl | ⟨m, hm, hxm⟩
        · exact hg kv0 hkv0 hk hxl
        · exact wf.det kv0 hkv0 _ hm a rfl x hxm hxl
      · exact wf.det kv0 hkv0 en hen0 b hb x hx hxl
  all_goals first
    | exact Or.inl rfl
    | (right; rw [DPDA.rules_stage]; decide)

/-- NPDA / **unknown input symbol**: `transitions[q][a][g] = rs` with `a` neither an input symbol nor
`""` → `InvalidSymbolError` (no determinism test in this class; `g` may be foreign: same class). -/
theorem C19_npda_corrupt_input_symbol (isEmptyStr : γ → Bool) (d : NPDA σ α γ)
    (wf : d.WFDef isEmptyStr) (kv : σ × List (Option α × List (γ × List (σ × List γ)))) (hkv : kv ∈ d.trans)
    (a : α) (ha : a ∉ d.syms) (g : γ) (rs : List (σ × List γ)) :
    (NPDA.setMove d kv.1 (some a) g rs).validateDef isEmptyStr = .error (.lib .invalidSymbolError) := by
  show (pdaValidateReserved isEmptyStr d.stackSyms).andThen _ = _
  rw [wf.reservedOk, Res.ok_andThen]
  have hrow : (kv.1, rowSetMove (some a) g rs kv.2) ∈ (NPDA.setMove d kv.1 (some a) g rs).trans :=
    editRow_mem kv.1 (rowSetMove (some a) g rs) d.trans kv hkv rfl
  have hv : NPDA.rules.Violates (NPDA.setMove d kv.1 (some a) g rs) .unknownInputSymbol :=
    ⟨_, hrow, _, rowSetMove_mem_self (some a) g rs kv.2, a, rfl, ha⟩
  refine NPDA.rules_correct.corrupt_raises _ .unknownInputSymbol hv ?_
  intro r' hv'
  cases r' <;> first
    | exact Or.inl rfl
    | exact (hv' : False).elim
    | (right; rw [NPDA.rules_stage]; decide)

def exNPDA : NPDA Nat Nat Nat :=
  { states := [0, 1], syms := [0], stackSyms := [0, 1],
    trans := [(0, [(some 0, [(0, [(0, [1, 0]), (1, [])])]), (none, [(1, [(1, [])])])])],
    init := 0, initStack := 0, finals := [1], mode := "final_state" }

example : exNPDA.validateDef (· == 77) = .ok () := by decide
example : (NPDA.setMove exNPDA 0 (some 5) 1 [(1, [])]).validateDef (· == 77) =
    .error (.lib .invalidSymbolError) := by decide
/-- stack symbol 0 has no λ-move in the row of state 0 of `exDPDA` … -/
example : (DPDA.setMove exDPDA 0 (some 5) 0 (1, [])).validateDef (· == 77) =
    .error (.lib .invalidSymbolError) := by decide
/-- … stack symbol 1 has one: the hypothesis `hg` is needed (the determinism test wins). -/
example : (DPDA.setMove exDPDA 0 (some 5) 1 (1, [])).validateDef (· == 77) =
    .error (.lib .nondeterminismError) := by decide

/-! ## Turing machines: Σ ⊊ Γ, rows keyed by non-states, the row of the initial state -/

/-- DTM / **input symbols not a proper subset of the tape symbols** → `MissingSymbolError`, for every
definition, valid or not: `_read_input_symbol_subset` is the first check. -/
theorem C19_dtm_corrupt_input_symbols (d : DTM σ γ) (h : ¬ ProperSubset d.syms d.tapeSyms) :
    d.validate = .error (.lib .missingSymbolError) := by
  refine DTM.rules_correct.corrupt_raises _ .inputNotProperSubset h ?_
  intro r' _
  cases r' <;> first | exact Or.inl rfl | (right; rw [DTM.rules_stage]; decide)

theorem C19_ntm_corrupt_input_symbols (d : NTM σ γ) (h : ¬ ProperSubset d.syms d.tapeSyms) :
    d.validate = .error (.lib .missingSymbolError) := by
  refine NTM.rules_correct.corrupt_raises _ .inputNotProperSubset h ?_
  intro r' _
  cases r' <;> first | exact Or.inl rfl | (right; rw [NTM.rules_stage]; decide)

theorem C19_mntm_corrupt_input_symbols (d : MNTM σ γ) (h : ¬ ProperSubset d.syms d.tapeSyms) :
    d.validate = .error (.lib .missingSymbolError) := by
  refine MNTM.rules_correct.corrupt_raises _ .inputNotProperSubset h ?_
  intro r' _
  cases r' <;> first | exact Or.inl rfl | (right; rw [MNTM.rules_stage]; decide)

/-- an input symbol that is not a tape symbol breaks Σ ⊆ Γ -/
private theorem not_proper_of_foreign (syms tapeSyms : List γ) (a : γ) (ha : a ∉ tapeSyms) :
    ¬ ProperSubset (a :: syms) tapeSyms := fun h => ha (h.1 a (by simp))

/-- Σ = Γ is not a *proper* subset -/
private theorem not_proper_self (tapeSyms : List γ) : ¬ ProperSubset tapeSyms tapeSyms :=
  fun ⟨_, s, hs, hns⟩ => hns hs

/-- DTM / an input symbol added that is not a tape symbol → `MissingSymbolError`. -/
theorem C19_dtm_corrupt_input_symbol_foreign (d : DTM σ γ) (a : γ) (ha : a ∉ d.tapeSyms) :
    ({ d with syms := a :: d.syms } : DTM σ γ).validate = .error (.lib .missingSymbolError) :=
  C19_dtm_corrupt_input_symbols _ (not_proper_of_foreign d.syms d.tapeSyms a ha)

/-- DTM / every tape symbol (the blank included) made an input symbol, Σ = Γ → `MissingSymbolError`. -/
theorem C19_dtm_corrupt_input_symbols_all (d : DTM σ γ) :
    ({ d with syms := d.tapeSyms } : DTM σ γ).validate = .error (.lib .missingSymbolError) :=
  C19_dtm_corrupt_input_symbols _ (not_proper_self d.tapeSyms)

theorem C19_ntm_corrupt_input_symbol_foreign (d : NTM σ γ) (a : γ) (ha : a ∉ d.tapeSyms) :
    ({ d with syms := a :: d.syms } : NTM σ γ).validate = .error (.lib .missingSymbolError) :=
  C19_ntm_corrupt_input_symbols _ (not_proper_of_foreign d.syms d.tapeSyms a ha)

theorem C19_ntm_corrupt_input_symbols_all (d : NTM σ γ) :
    ({ d with syms := d.tapeSyms } : NTM σ γ).validate = .error (.lib .missingSymbolError) :=
  C19_ntm_corrupt_input_symbols _ (not_proper_self d.tapeSyms)

theorem C19_mntm_corrupt_input_symbol_foreign (d : MNTM σ γ) (a : γ) (ha : a ∉ d.tapeSyms) :
    ({ d with syms := a :: d.syms } : MNTM σ γ).validate = .error (.lib .missingSymbolError) :=
  C19_mntm_corrupt_input_symbols _ (not_proper_of_foreign d.syms d.tapeSyms a ha)

theorem C19_mntm_corrupt_input_symbols_all (d : MNTM σ γ) :
    ({ d with syms := d.tapeSyms } : MNTM σ γ).validate = .error (.lib .missingSymbolError) :=
  C19_mntm_corrupt_input_symbols _ (not_proper_self d.tapeSyms)

/-- DTM / **row keyed by a non-state**: in a valid DTM, `transitions[x] = row` with `x` not a state
→ `InvalidStateError`, *whatever the row contains*: the new key goes to the end of the dict, every
older row passes, and `_validate_transition_state` is the first test of a row.  (Proved on the
order of the checks directly, not through the rule system, which puts all row rules in one stage.) -/
theorem C19_dtm_corrupt_row_key (d : DTM σ γ) (wf : d.WF) (x : σ) (hx : x ∉ d.states)
    (row : List (γ × TMResult σ γ)) :
    (DTM.setRow d x row).validate = .error (.lib .invalidStateError) := by
  have hxk : x ∉ akeys d.trans := by
    intro h
    obtain ⟨kv, hkv, rfl⟩ := List.mem_map.mp h
    exact hx (wf.keysOk kv hkv)
  have hok := (DTM.validate_eq_ok d).mpr wf
  unfold DTM.validate at hok
  obtain ⟨h1, h2, _⟩ : tmValidateHead d.syms d.tapeSyms d.blank = .ok () ∧
      firstErr d.trans d.validateRow = .ok () ∧ _ := by
    simpa only [Res.andThen_eq_ok] using hok
  show (tmValidateHead d.syms d.tapeSyms d.blank).andThen
    ((firstErr (ainsert x row d.trans) d.validateRow).andThen _) = _
  rw [h1, Res.ok_andThen, ainsert_of_not_mem x row d.trans hxk, firstErr_append_singleton, h2,
    Res.ok_andThen]
  simp [DTM.validateRow, guardE, Res.andThen, hx]

theorem C19_ntm_corrupt_row_key (d : NTM σ γ) (wf : d.WF) (x : σ) (hx : x ∉ d.states)
    (row : List (γ × List (TMResult σ γ))) :
    (NTM.setRow d x row).validate = .error (.lib .invalidStateError) := by
  have hxk : x ∉ akeys d.trans := by
    intro h
    obtain ⟨kv, hkv, rfl⟩ := List.mem_map.mp h
    exact hx (wf.keysOk kv hkv)
  have hok := (NTM.validate_eq_ok d).mpr wf
  unfold NTM.validate at hok
  obtain ⟨h1, h2, _⟩ : tmValidateHead d.syms d.tapeSyms d.blank = .ok () ∧
      firstErr d.trans d.validateRow = .ok () ∧ _ := by
    simpa only [Res.andThen_eq_ok] using hok
  show (tmValidateHead d.syms d.tapeSyms d.blank).andThen
    ((firstErr (ainsert x row d.trans) d.validateRow).andThen _) = _
  rw [h1, Res.ok_andThen, ainsert_of_not_mem x row d.trans hxk, firstErr_append_singleton, h2,
    Res.ok_andThen]
  simp [NTM.validateRow, guardE, Res.andThen, hx]

theorem C19_mntm_corrupt_row_key (d : MNTM σ γ) (wf : d.WF) (x : σ) (hx : x ∉ d.states)
    (row : List (List γ × List (σ × List (γ × String)))) :
    (MNTM.setRow d x row).validate = .error (.lib .invalidStateError) := by
  have hxk : x ∉ akeys d.trans := by
    intro h
    obtain ⟨kv, hkv, rfl⟩ := List.mem_map.mp h
    exact hx (wf.keysOk kv hkv)
  have hok := (MNTM.validate_eq_ok d).mpr wf
  unfold MNTM.validate at hok
  obtain ⟨h1, h2, _⟩ : tmValidateHead d.syms d.tapeSyms d.blank = .ok () ∧
      firstErr d.trans d.validateRow = .ok () ∧ _ := by
    simpa only [Res.andThen_eq_ok] using hok
  show (tmValidateHead d.syms d.tapeSyms d.blank).andThen
    ((firstErr (ainsert x row d.trans) d.validateRow).andThen _) = _
  rw [h1, Res.ok_andThen, ainsert_of_not_mem x row d.trans hxk, firstErr_append_singleton, h2,
    Res.ok_andThen]
  simp [MNTM.validateRow, guardE, Res.andThen, hx]

/-- DTM / **initial state without a row**: in a valid DTM with more than one state,
`del transitions[initial_state]` → `MissingStateError` (`_validate_initial_state_transitions`; with
a single state the code does not ask for the row). -/
theorem C19_dtm_corrupt_initial_row (d : DTM σ γ) (wf : d.WF) (hlen : 1 < d.states.length) :
    (DTM.dropRow d d.init).validate = .error (.lib .missingStateError) := by
  have hno := (DTM.wf_iff d).mp wf
  have hsub : ∀ kv' ∈ (DTM.dropRow d d.init).trans, kv' ∈ d.trans :=
    fun kv' h => (mem_adelete d.init d.trans kv' h).1
  refine DTM.rules_correct.corrupt_raises _ .initialNoRow
    ⟨not_mem_akeys_adelete d.init d.trans, hlen⟩ ?_
  intro r' hv'
  cases r'
  case inputNotProperSubset => exact absurd hv' (hno .inputNotProperSubset)
  case badBlank => exact absurd hv' (hno .badBlank)
  case unknownTransitionState =>
    obtain ⟨kv', hkv', h⟩ := hv'; exact (hno .unknownTransitionState ⟨kv', hsub kv' hkv', h⟩).elim
  case badReadSymbol =>
    obtain ⟨kv', hkv', h⟩ := hv'; exact (hno .badReadSymbol ⟨kv', hsub kv' hkv', h⟩).elim
  case unknownResultState =>
    obtain ⟨kv', hkv', h⟩ := hv'; exact (hno .unknownResultState ⟨kv', hsub kv' hkv', h⟩).elim
  case badWriteSymbol =>
    obtain ⟨kv', hkv', h⟩ := hv'; exact (hno .badWriteSymbol ⟨kv', hsub kv' hkv', h⟩).elim
  case badDirection =>
    obtain ⟨kv', hkv', h⟩ := hv'; exact (hno .badDirection ⟨kv', hsub kv' hkv', h⟩).elim
  case badInitial => exact absurd hv' (hno .badInitial)
  all_goals first | exact Or.inl rfl | (right; rw [DTM.rules_stage]; decide)

theorem C19_ntm_corrupt_initial_row (d : NTM σ γ) (wf : d.WF) (hlen : 1 < d.states.length) :
    (NTM.dropRow d d.init).validate = .error (.lib .missingStateError) := by
  have hno := (NTM.wf_iff d).mp wf
  have hsub : ∀ kv' ∈ (NTM.dropRow d d.init).trans, kv' ∈ d.trans :=
    fun kv' h => (mem_adelete d.init d.trans kv' h).1
  refine NTM.rules_correct.corrupt_raises _ .initialNoRow
    ⟨not_mem_akeys_adelete d.init d.trans, hlen⟩ ?_
  intro r' hv'
  cases r'
  case inputNotProperSubset => exact absurd hv' (hno .inputNotProperSubset)
  case badBlank => exact absurd hv' (hno .badBlank)
  case unknownTransitionState =>
    obtain ⟨kv', hkv', h⟩ := hv'; exact (hno .unknownTransitionState ⟨kv', hsub kv' hkv', h⟩).elim
  case badReadSymbol =>
    obtain ⟨kv', hkv', h⟩ := hv'; exact (hno .badReadSymbol ⟨kv', hsub kv' hkv', h⟩).elim
  case unknownResultState =>
    obtain ⟨kv', hkv', h⟩ := hv'; exact (hno .unknownResultState ⟨kv', hsub kv' hkv', h⟩).elim
  case badWriteSymbol =>
    obtain ⟨kv', hkv', h⟩ := hv'; exact (hno .badWriteSymbol ⟨kv', hsub kv' hkv', h⟩).elim
  case badDirection =>
    obtain ⟨kv', hkv', h⟩ := hv'; exact (hno .badDirection ⟨kv', hsub kv' hkv', h⟩).elim
  case badInitial => exact absurd hv' (hno .badInitial)
  all_goals first | exact Or.inl rfl | (right; rw [NTM.rules_stage]; decide)

theorem C19_mntm_corrupt_initial_row (d : MNTM σ γ) (wf : d.WF) (hlen : 1 < d.states.length) :
    (MNTM.dropRow d d.init).validate = .error (.lib .missingStateError) := by
  have hno := (MNTM.wf_iff d).mp wf
  have hsub : ∀ kv' ∈ (MNTM.dropRow d d.init).trans, kv' ∈ d.trans :=
    fun kv' h => (mem_adelete d.init d.trans kv' h).1
  refine MNTM.rules_correct.corrupt_raises _ .initialNoRow
    ⟨not_mem_akeys_adelete d.init d.trans, hlen⟩ ?_
  intro r' hv'
  cases r'
  case inputNotProperSubset => exact absurd hv' (hno .inputNotProperSubset)
  case badBlank => exact absurd hv' (hno .badBlank)
  case unknownTransitionState =>
    obtain ⟨kv', hkv', h⟩ := hv'; exact (hno .unknownTransitionState ⟨kv', hsub kv' hkv', h⟩).elim
  case badReadSymbol =>
    obtain ⟨kv', hkv', h⟩ := hv'; exact (hno .badReadSymbol ⟨kv', hsub kv' hkv', h⟩).elim
  case unknownResultState =>
    obtain ⟨kv', hkv', h⟩ := hv'; exact (hno .unknownResultState ⟨kv', hsub kv' hkv', h⟩).elim
  case badWriteSymbol =>
    obtain ⟨kv', hkv', h⟩ := hv'; exact (hno .badWriteSymbol ⟨kv', hsub kv' hkv', h⟩).elim
  case badDirection =>
    obtain ⟨kv', hkv', h⟩ := hv'; exact (hno .badDirection ⟨kv', hsub kv' hkv', h⟩).elim
  case badInitial => exact absurd hv' (hno .badInitial)
  all_goals first | exact Or.inl rfl | (right; rw [MNTM.rules_stage]; decide)

example : ({ exDTM with syms := [0, 5] } : DTM Nat Nat).validate = .error (.lib .missingSymbolError) := by decide
example : ({ exDTM with syms := exDTM.tapeSyms } : DTM Nat Nat).validate = .error (.lib .missingSymbolError) := by
  decide
example : ({ exNTM with syms := exNTM.tapeSyms } : NTM Nat Nat).validate = .error (.lib .missingSymbolError) := by
  decide
example : ({ exMNTM with syms := [5, 0] } : MNTM Nat Nat).validate = .error (.lib .missingSymbolError) := by decide
/-- a row keyed by the non-state 7, itself full of defects: the key is reported -/
example : (DTM.setRow exDTM 7 [(5, (8, 5, "X"))]).validate = .error (.lib .invalidStateError) := by decide
example : (NTM.setRow exNTM 7 [(5, [(8, 5, "X")])]).validate = .error (.lib .invalidStateError) := by decide
example : (MNTM.setRow exMNTM 7 [([5], [(8, [(5, "X")])])]).validate = .error (.lib .invalidStateError) := by
  decide
example : (DTM.dropRow exDTM 0).validate = .error (.lib .missingStateError) := by decide
example : (NTM.dropRow exNTM 0).validate = .error (.lib .missingStateError) := by decide
example : (MNTM.dropRow exMNTM 0).validate = .error (.lib .missingStateError) := by decide
/-- with one state the row of the initial state is not asked for -/
def exDTM1 : DTM Nat Nat :=
  { states := [0], syms := [0], tapeSyms := [0, 9], trans := [], init := 0, blank := 9, finals := [] }

example : exDTM1.validate = .ok () := by decide

/-! ### field-level TM operators that existed for the DTM only -/

/-- NTM / the initial state made final → `InitialStateError` (the `FinalStateError` its row would
cause is checked later). -/
theorem C19_ntm_corrupt_initial_is_final (d : NTM σ γ) (wf : d.WF) :
    ({ d with finals := d.init :: d.finals } : NTM σ γ).validate = .error (.lib .initialStateError) := by
  have hno := (NTM.wf_iff d).mp wf
  refine NTM.rules_correct.corrupt_raises _ .initialIsFinal (by simp [NTM.rules]) ?_
  intro r' hv'
  cases r' <;> first
    | exact Or.inl rfl
    | exact absurd hv' (hno .inputNotProperSubset)
    | exact absurd hv' (hno .badBlank)
    | exact absurd hv' (hno .unknownTransitionState)
    | exact absurd hv' (hno .badReadSymbol)
    | exact absurd hv' (hno .unknownResultState)
    | exact absurd hv' (hno .badWriteSymbol)
    | exact absurd hv' (hno .badDirection)
    | exact absurd hv' (hno .badInitial)
    | exact absurd hv' (hno .initialNoRow)
    | (right; rw [NTM.rules_stage]; decide)

/-- MNTM / the initial state made final → `InitialStateError`. -/
theorem C19_mntm_corrupt_initial_is_final (d : MNTM σ γ) (wf : d.WF) :
    ({ d with finals := d.init :: d.finals } : MNTM σ γ).validate = .error (.lib .initialStateError) := by
  have hno := (MNTM.wf_iff d).mp wf
  refine MNTM.rules_correct.corrupt_raises _ .initialIsFinal (by simp [MNTM.rules]) ?_
  intro r' hv'
  cases r' <;> first
    | exact Or.inl rfl
    | exact absurd hv' (hno .inputNotProperSubset)
    | exact absurd hv' (hno .badBlank)
    | exact absurd hv' (hno .unknownTransitionState)
    | exact absurd hv' (hno .badReadSymbol)
    | exact absurd hv' (hno .unknownResultState)
    | exact absurd hv' (hno .badWriteSymbol)
    | exact absurd hv' (hno .badDirection)
    | exact absurd hv' (hno .badInitial)
    | exact absurd hv' (hno .initialNoRow)
    | (right; rw [MNTM.rules_stage]; decide)

/-- MNTM / blank symbol outside the tape alphabet → `InvalidSymbolError`. -/
theorem C19_mntm_corrupt_blank (d : MNTM σ γ) (wf : d.WF) (b : γ) (hb : b ∉ d.tapeSyms) :
    ({ d with blank := b } : MNTM σ γ).validate = .error (.lib .invalidSymbolError) := by
  have hno := (MNTM.wf_iff d).mp wf
  refine MNTM.rules_correct.corrupt_raises _ .badBlank hb ?_
  intro r' hv'
  cases r' <;> first
    | exact Or.inl rfl
    | exact absurd hv' (hno .inputNotProperSubset)
    | (right; rw [MNTM.rules_stage]; decide)

/-- MNTM / **bad tape count inside one entry**: in a valid MNTM, `transitions[q][rd] = rs` with legal
symbols, states and directions, but a read tuple or a move tuple whose length is not `n_tapes` →
`InconsistentTapesException` (the last check: nothing else may be wrong). -/
theorem C19_mntm_corrupt_entry_tape_count (d : MNTM σ γ) (wf : d.WF)
    (kv : σ × List (List γ × List (σ × List (γ × String)))) (hkv : kv ∈ d.trans)
    (rd : List γ) (hrd : ∀ s ∈ rd, s ∈ d.tapeSyms) (rs : List (σ × List (γ × String)))
    (hok : ∀ r ∈ rs, ∀ mv ∈ r.2,
      TmResultOk d.states d.tapeSyms Gen.Validate.ntmDirections (r.1, mv.1, mv.2))
    (hbad : (rd.length : Int) ≠ d.nTapes ∨ ∃ r ∈ rs, (r.2.length : Int) ≠ d.nTapes) :
    (MNTM.setEntry d kv.1 rd rs).validate = .error (.lib .inconsistentTapesException) := by
  have hno := (MNTM.wf_iff d).mp wf
  obtain ⟨l0, l1, l2, l3, l4⟩ := mntm_setEntry_loop d wf kv.1 rd rs
  have hkeys : akeys (MNTM.setEntry d kv.1 rd rs).trans = akeys d.trans := editRow_keys _ _ _
  have hmem : (kv.1, ainsert rd rs kv.2) ∈ (MNTM.setEntry d kv.1 rd rs).trans :=
    editRow_mem kv.1 (ainsert rd rs) d.trans kv hkv rfl
  have hv : MNTM.rules.Violates (MNTM.setEntry d kv.1 rd rs) .badTapeCount := by
    rcases hbad with h | ⟨r, hr, h⟩
    · exact Or.inl ⟨_, hmem, (rd, rs), ainsert_mem_self rd rs kv.2, h⟩
    · exact Or.inr ⟨_, hmem, (rd, rs), ainsert_mem_self rd rs kv.2, r, hr, h⟩
  refine MNTM.rules_correct.corrupt_raises _ .badTapeCount hv ?_
  intro r' hv'
  cases r'
  case inputNotProperSubset => exact absurd hv' (hno .inputNotProperSubset)
  case badBlank => exact absurd hv' (hno .badBlank)
  case unknownTransitionState => exact (l0 hv').elim
  case badReadSymbol => obtain ⟨x, hx, hn⟩ := l1 hv'; exact absurd (hrd x hx) hn
  case unknownResultState => obtain ⟨x, hx, m, hm, hn⟩ := l2 hv'; exact absurd (hok x hx m hm).1 hn
  case badWriteSymbol => obtain ⟨x, hx, m, hm, hn⟩ := l3 hv'; exact absurd (hok x hx m hm).2.1 hn
  case badDirection => obtain ⟨x, hx, m, hm, hn⟩ := l4 hv'; exact absurd (hok x hx m hm).2.2 hn
  case badInitial => exact absurd hv' (hno .badInitial)
  case initialNoRow =>
    obtain ⟨h1, h2⟩ := hv'
    rw [hkeys] at h1
    exact (hno .initialNoRow ⟨h1, h2⟩).elim
  case initialIsFinal => exact absurd hv' (hno .initialIsFinal)
  case badFinal => exact absurd hv' (hno .badFinal)
  case finalHasTransitions =>
    obtain ⟨f, hf, hk⟩ := hv'
    rw [hkeys] at hk
    exact (hno .finalHasTransitions ⟨f, hf, hk⟩).elim
  case badTapeCount => exact Or.inl rfl

example : (MNTM.setEntry exMNTM 0 [9, 0, 0] [(1, [(0, "R"), (9, "N")])]).validate =
    .error (.lib .inconsistentTapesException) := by decide
example : (MNTM.setEntry exMNTM 0 [9, 0] [(1, [(0, "R"), (9, "N")]), (0, [(0, "R")])]).validate =
    .error (.lib .inconsistentTapesException) := by decide
example : ({ exNTM with finals := [0, 2] } : NTM Nat Nat).validate = .error (.lib .initialStateError) := by decide
example : ({ exMNTM with blank := 5 } : MNTM Nat Nat).validate = .error (.lib .invalidSymbolError) := by decide

/-! ## GNFA: the shape rules -/

/-- GNFA / **initial = final** (the final state set to the initial one) → `InvalidStateError`, for
every definition: only the two membership tests, of the same class, come before it. -/
theorem C19_gnfa_corrupt_initial_equals_final (g : GNFA σ α) :
    ({ g with final := g.init } : GNFA σ α).validate = .error (.lib .invalidStateError) := by
  refine GNFA.rules_correct.corrupt_raises _ .initialEqualsFinal rfl ?_
  intro r' _
  cases r' <;> first | exact Or.inl rfl | (right; rw [GNFA.rules_stage]; decide)

/-- GNFA / initial = final (the initial state set to the final one) → `InvalidStateError`. -/
theorem C19_gnfa_corrupt_initial_equals_final' (g : GNFA σ α) :
    ({ g with init := g.final } : GNFA σ α).validate = .error (.lib .invalidStateError) := by
  refine GNFA.rules_correct.corrupt_raises _ .initialEqualsFinal rfl ?_
  intro r' _
  cases r' <;> first | exact Or.inl rfl | (right; rw [GNFA.rules_stage]; decide)

/-- GNFA / **missing row**: in a valid GNFA, `del transitions[q]` for a non-final state `q` →
`MissingStateError` (the row test comes before the rows are looked at). -/
theorem C19_gnfa_corrupt_missing_row (g : GNFA σ α) (wf : g.WF) (q : σ) (hq : q ∈ g.states)
    (hqf : q ≠ g.final) :
    (GNFA.dropRow g q).validate = .error (.lib .missingStateError) := by
  have hno := (GNFA.wf_iff g).mp wf
  refine GNFA.rules_correct.corrupt_raises _ .missingRow
    ⟨q, hq, hqf, not_mem_akeys_adelete q g.trans⟩ ?_
  intro r' hv'
  cases r'
  case badInitial => exact absurd hv' (hno .badInitial)
  case badFinal => exact absurd hv' (hno .badFinal)
  case initialEqualsFinal => exact absurd hv' (hno .initialEqualsFinal)
  all_goals first | exact Or.inl rfl | (right; rw [GNFA.rules_stage]; decide)

/-- `paths.get(init)` after `del paths[t]`, `t ≠ init`. -/
private theorem gnfa_entersInit_adelete (g : GNFA σ α) (t : σ) (paths : List (σ × Option (GLabel α)))
    (ht : t ≠ g.init) : g.entersInit (adelete t paths) = g.entersInit paths := by
  unfold GNFA.entersInit
  rw [alookup_adelete_ne t g.init paths (fun h => ht h.symm)]

/-- GNFA / **missing entry**: in a valid GNFA, `del transitions[q][t]` (`q` a non-final state with a
row, `t` a state other than the initial one) → `MissingStateError`. -/
theorem C19_gnfa_corrupt_missing_entry (g : GNFA σ α) (wf : g.WF) (kv : σ × List (σ × Option (GLabel α)))
    (hkv : kv ∈ g.trans) (hq : kv.1 ≠ g.final) (t : σ) (ht : t ∈ g.states) (hti : t ≠ g.init) :
    (GNFA.dropEntry g kv.1 t).validate = .error (.lib .missingStateError) := by
  have hno := (GNFA.wf_iff g).mp wf
  have hshape : ∀ kv' ∈ (GNFA.dropEntry g kv.1 t).trans, ∃ kv0 ∈ g.trans, kv'.1 = kv0.1 ∧
      (∀ e ∈ kv'.2, e ∈ kv0.2) ∧ (kv' = kv0 ∨ (kv0.1 = kv.1 ∧ kv'.2 = adelete t kv0.2)) := by
    intro kv' hkv'
    obtain ⟨kv0, hkv0, h1, h2⟩ := GNFA.dropEntry_rows g kv.1 t kv' hkv'
    refine ⟨kv0, hkv0, h1, ?_, h2⟩
    rcases h2 with rfl | ⟨_, h2⟩
    · exact fun e he => he
    · rw [h2]; exact fun e he => (mem_adelete t kv0.2 e he).1
  have hv : GNFA.rules.Violates (GNFA.dropEntry g kv.1 t) .missingEntry :=
    ⟨(kv.1, adelete t kv.2), editRow_mem kv.1 (adelete t) g.trans kv hkv rfl, hq, t, ht,
      not_mem_akeys_adelete t kv.2, hti⟩
  refine GNFA.rules_correct.corrupt_raises _ .missingEntry hv ?_
  intro r' hv'
  cases r'
  case badInitial => exact absurd hv' (hno .badInitial)
  case badFinal => exact absurd hv' (hno .badFinal)
  case initialEqualsFinal => exact absurd hv' (hno .initialEqualsFinal)
  case missingRow =>
    exfalso
    obtain ⟨x, hx, hxf, hxk⟩ := hv'
    rw [show akeys (GNFA.dropEntry g kv.1 t).trans = akeys g.trans from editRow_keys _ _ _] at hxk
    rcases wf.rows x hx with h | h
    · exact hxf h
    · exact hxk h
  case malformedLabel =>
    exfalso
    obtain ⟨kv', hkv', l, hl, hm⟩ := hv'
    obtain ⟨kv0, hkv0, _, hsub, _⟩ := hshape kv' hkv'
    obtain ⟨en, hen, hl2⟩ := List.mem_map.mp hl
    exact hno .malformedLabel ⟨kv0, hkv0, l, List.mem_map.mpr ⟨en, hsub en hen, hl2⟩, hm⟩
  case labelLexerError =>
    exfalso
    obtain ⟨kv', hkv', l, hl, hm⟩ := hv'
    obtain ⟨kv0, hkv0, _, hsub, _⟩ := hshape kv' hkv'
    obtain ⟨en, hen, hl2⟩ := List.mem_map.mp hl
    exact hno .labelLexerError ⟨kv0, hkv0, l, List.mem_map.mpr ⟨en, hsub en hen, hl2⟩, hm⟩
  case finalHasTransitions =>
    exfalso
    obtain ⟨kv', hkv', hfin, hne⟩ := hv'
    obtain ⟨kv0, hkv0, h1, _, h2⟩ := hshape kv' hkv'
    rcases h2 with rfl | ⟨hk, _⟩
    · exact hne (wf.finalRowEmpty _ hkv0 hfin)
    · exact hq (by rw [← hk, ← h1]; exact hfin)
  case unknownEndState =>
    exfalso
    obtain ⟨kv', hkv', x, hx, hnx⟩ := hv'
    obtain ⟨kv0, hkv0, _, hsub, _⟩ := hshape kv' hkv'
    obtain ⟨en, hen, rfl⟩ := List.mem_map.mp hx
    exact hnx (wf.tgtOk kv0 hkv0 en.1 (List.mem_map.mpr ⟨en, hsub en hen, rfl⟩))
  case transitionIntoInitial =>
    exfalso
    obtain ⟨kv', hkv', hen⟩ := hv'
    obtain ⟨kv0, hkv0, _, _, h2⟩ := hshape kv' hkv'
    have hen : g.entersInit kv'.2 = true := hen
    rcases h2 with rfl | ⟨_, h2⟩
    · rw [wf.noEnter _ hkv0] at hen; cases hen
    · rw [h2, gnfa_entersInit_adelete g t kv0.2 hti, wf.noEnter kv0 hkv0] at hen; cases hen
  all_goals first | exact Or.inl rfl | (right; rw [GNFA.rules_stage]; decide)

/-- GNFA / **final-state row present**: in a valid GNFA, `transitions[final_state] = row` with a
non-empty row whose labels are well formed (`None`, or accepted regular expressions over the input
symbols — a malformed label in it would be reported first, as `InvalidRegexError`) →
`InvalidStateError`. -/
theorem C19_gnfa_corrupt_final_row (g : GNFA σ α) (wf : g.WF) (row : List (σ × Option (GLabel α)))
    (hne : row ≠ []) (hlab : ∀ l ∈ avals row, g.LabelOk l) :
    (GNFA.setRow g g.final row).validate = .error (.lib .invalidStateError) := by
  have hno := (GNFA.wf_iff g).mp wf
  have hrows : ∀ kv' ∈ (GNFA.setRow g g.final row).trans, kv' = (g.final, row) ∨ kv' ∈ g.trans :=
    fun kv' h => mem_ainsert_row g.final row g.trans kv' h
  have hv : GNFA.rules.Violates (GNFA.setRow g g.final row) .finalHasTransitions :=
    ⟨(g.final, row), ainsert_mem_self g.final row g.trans, rfl, hne⟩
  refine GNFA.rules_correct.corrupt_raises _ .finalHasTransitions hv ?_
  intro r' hv'
  cases r'
  case missingRow =>
    exfalso
    obtain ⟨x, hx, hxf, hxk⟩ := hv'
    rcases wf.rows x hx with h | h
    · exact hxf h
    · exact hxk (akeys_ainsert_sup g.final row g.trans x h)
  case malformedLabel =>
    exfalso
    obtain ⟨kv', hkv', l, hl, hm⟩ := hv'
    rcases hrows kv' hkv' with rfl | h
    · exact ((GNFA.labelOk_iff g l).mp (hlab (some l) hl)).1 hm
    · exact hno .malformedLabel ⟨kv', h, l, hl, hm⟩
  case labelLexerError =>
    exfalso
    obtain ⟨kv', hkv', l, hl, hm⟩ := hv'
    rcases hrows kv' hkv' with rfl | h
    · exact ((GNFA.labelOk_iff g l).mp (hlab (some l) hl)).2 hm
    · exact hno .labelLexerError ⟨kv', h, l, hl, hm⟩
  case missingEntry =>
    exfalso
    obtain ⟨kv', hkv', hnf, rest⟩ := hv'
    rcases hrows kv' hkv' with rfl | h
    · exact hnf rfl
    · exact hno .missingEntry ⟨kv', h, hnf, rest⟩
  all_goals first | exact Or.inl rfl | (right; rw [GNFA.rules_stage]; decide)

/-- GNFA / **transition into the initial state**: in a valid GNFA, `transitions[q][initial_state] =
label` with a well-formed label (a malformed one is reported first, as `InvalidRegexError`), `q` any
state with a row → `InvalidStateError`. -/
theorem C19_gnfa_corrupt_into_initial (g : GNFA σ α) (wf : g.WF) (kv : σ × List (σ × Option (GLabel α)))
    (hkv : kv ∈ g.trans) (l : GLabel α) (hl : g.LabelOk (some l)) :
    (GNFA.setEntry g kv.1 g.init (some l)).validate = .error (.lib .invalidStateError) := by
  have hno := (GNFA.wf_iff g).mp wf
  have hshape : ∀ kv' ∈ (GNFA.setEntry g kv.1 g.init (some l)).trans, ∃ kv0 ∈ g.trans, kv'.1 = kv0.1 ∧
      (∀ e ∈ kv'.2, e = (g.init, some l) ∨ e ∈ kv0.2) ∧ (∀ x ∈ akeys kv0.2, x ∈ akeys kv'.2) := by
    intro kv' hkv'
    obtain ⟨kv0, hkv0, h1, h2⟩ := GNFA.setEntry_rows g kv.1 g.init (some l) kv' hkv'
    refine ⟨kv0, hkv0, h1, ?_, ?_⟩
    · rcases h2 with rfl | ⟨_, h2⟩
      · exact fun e he => Or.inr he
      · rw [h2]; exact fun e he => mem_ainsert g.init (some l) kv0.2 e he
    · rcases h2 with rfl | ⟨_, h2⟩
      · exact fun x hx => hx
      · rw [h2]; exact fun x hx => akeys_ainsert_sup g.init (some l) kv0.2 x hx
  have hv : GNFA.rules.Violates (GNFA.setEntry g kv.1 g.init (some l)) .transitionIntoInitial := by
    refine ⟨(kv.1, ainsert g.init (some l) kv.2),
      editRow_mem kv.1 (ainsert g.init (some l)) g.trans kv hkv rfl, ?_⟩
    show g.entersInit (ainsert g.init (some l) kv.2) = true
    unfold GNFA.entersInit
    rw [va_alookup_ainsert_self]
  refine GNFA.rules_correct.corrupt_raises _ .transitionIntoInitial hv ?_
  intro r' hv'
  cases r'
  case missingRow =>
    exfalso
    obtain ⟨x, hx, hxf, hxk⟩ := hv'
    rw [show akeys (GNFA.setEntry g kv.1 g.init (some l)).trans = akeys g.trans from
      editRow_keys _ _ _] at hxk
    rcases wf.rows x hx with h | h
    · exact hxf h
    · exact hxk h
  case malformedLabel =>
    exfalso
    obtain ⟨kv', hkv', l', hl', hm⟩ := hv'
    obtain ⟨kv0, hkv0, _, hent, _⟩ := hshape kv' hkv'
    obtain ⟨en, hen, hl2⟩ := List.mem_map.mp hl'
    rcases hent en hen with rfl | hen0
    · cases hl2; exact ((GNFA.labelOk_iff g l).mp hl).1 hm
    · exact hno .malformedLabel ⟨kv0, hkv0, l', List.mem_map.mpr ⟨en, hen0, hl2⟩, hm⟩
  case labelLexerError =>
    exfalso
    obtain ⟨kv', hkv', l', hl', hm⟩ := hv'
    obtain ⟨kv0, hkv0, _, hent, _⟩ := hshape kv' hkv'
    obtain ⟨en, hen, hl2⟩ := List.mem_map.mp hl'
    rcases hent en hen with rfl | hen0
    · cases hl2; exact ((GNFA.labelOk_iff g l).mp hl).2 hm
    · exact hno .labelLexerError ⟨kv0, hkv0, l', List.mem_map.mpr ⟨en, hen0, hl2⟩, hm⟩
  case missingEntry =>
    exfalso
    obtain ⟨kv', hkv', hnf, x, hx, hnx, hxi⟩ := hv'
    obtain ⟨kv0, hkv0, h1, _, hsup⟩ := hshape kv' hkv'
    rcases wf.complete kv0 hkv0 (h1 ▸ hnf) x hx with h | h
    · exact hnx (hsup x h)
    · exact hxi h
  all_goals first | exact Or.inl rfl | (right; rw [GNFA.rules_stage]; decide)

example : ({ exGNFA with final := exGNFA.init } : GNFA Nat Nat).validate = .error (.lib .invalidStateError) := by
  decide
example : ({ exGNFA with init := exGNFA.final } : GNFA Nat Nat).validate = .error (.lib .invalidStateError) := by
  decide
example : (GNFA.dropRow exGNFA 1).validate = .error (.lib .missingStateError) := by decide
example : (GNFA.dropEntry exGNFA 1 2).validate = .error (.lib .missingStateError) := by decide
example : (GNFA.dropEntry exGNFA 0 1).validate = .error (.lib .missingStateError) := by decide
example : (GNFA.setRow exGNFA 2 [(1, none)]).validate = .error (.lib .invalidStateError) := by decide
example : (GNFA.setRow exGNFA 2 [(1, some ⟨[.sym 0], .valid⟩), (7, none)]).validate =
    .error (.lib .invalidStateError) := by decide
/-- an empty row for the final state is accepted: `row ≠ []` is needed -/
example : (GNFA.setRow exGNFA 2 []).validate = .ok () := by decide
example : (GNFA.setEntry exGNFA 1 0 (some ⟨[.sym 0], .valid⟩)).validate = .error (.lib .invalidStateError) := by
  decide
/-- a `None` entry into the initial state is accepted: the label must be a string -/
example : (GNFA.setEntry exGNFA 1 0 none).validate = .ok () := by decide

end AV.Props.C19
