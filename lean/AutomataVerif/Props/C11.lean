/-
Props/C11.lean — C11 (work in progress: placeholder).
-/
import AutomataVerif.Model.RxCompile

namespace AV.Props.C11
open AV AV.Rx

theorem C11_error_classes :
    Gen.Err.isSubclass .invalidRegexError .regexException = true ∧
    Gen.Err.isSubclass .lexerError .regexException = true := by decide

end AV.Props.C11
