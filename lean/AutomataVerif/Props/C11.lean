/-
Props/C11.lean — C11: regex validation and comparison helpers agree with compilation and are
exact.

English statement (properties.jsonl): any sequence of the documented regex tokens (symbols,
operators, parentheses, well-formed repetition tokens, blanks) passes regex validation exactly
when it belongs to the regex grammar, which is exactly when it can be compiled to an NFA, and an
invalid sequence is reported with the library's regex error types, not an arbitrary exception.
For valid expressions compared over a common alphabet, isequal, issubset and issuperset return
exactly whether the denoted languages are equal or included.

Here: "sequence of documented tokens" is a token list all of whose members satisfy `LexTok`
(everything the lexer can emit) respectively a string `s` with `Renders ts s` (it spells such a
list, blanks anywhere); "the regex grammar" is `InGrammar` (Proofs/RxGrammar.lean);
"can be compiled" is `fromRegex … = .ok N` — the model of `NFA.from_regex` including the NFA
constructor's validation.  The comparison helpers call `NFA.__eq__` and `NFA.union`, which belong
to C09 / C08: they are parameters here, constrained by exactly the contracts those properties
state (`Props/C11b.lean` instantiates them with the library's own models).

Strings that are NOT spellings of documented tokens are covered too (section "every string"):
whatever the characters, `regex.validate` and `NFA.from_regex` agree — both succeed, or both
raise the same exception, which is `InvalidRegexError` or `LexerError` unless some brace group
`{g1,g2}` of the string has a non-empty bound text that `int()` rejects (then `ValueError`; the
property puts non-numeric bounds outside its domain).  In particular numeric but negative or
ill-ordered bounds (`a{2,1}`, `a{-1,2}`) are reported with `InvalidRegexError`.
-/
import AutomataVerif.Props.C10
import AutomataVerif.Proofs.RxLexTotal

namespace AV.Props.C11
open AV AV.Rx

/-! ## validation = grammar -/

/-- `validate_tokens` accepts a sequence of lexer tokens exactly when it is empty (a blank-only
string) or an expression of the grammar. -/
theorem C11_validate_iff_grammar {α : Type} {ts : List (Tok α)} (hl : ∀ t ∈ ts, LexTok t) :
    validateTokens ts = .ok () ↔ ts = [] ∨ InGrammar ts :=
  validate_iff_grammar hl

/-- An invalid token sequence is reported with `InvalidRegexError` — never `IndexError` or any
other exception … -/
theorem C11_validate_error_kind {α : Type} (ts : List (Tok α)) :
    validateTokens ts = .ok () ∨ validateTokens ts = .error (.lib .invalidRegexError) :=
  validate_error_kind ts

/-- … and `InvalidRegexError`, `LexerError` are regex error types in the class hierarchy
regenerated from the source. -/
theorem C11_error_classes :
    Gen.Err.isSubclass .invalidRegexError .regexException = true ∧
    Gen.Err.isSubclass .lexerError .regexException = true := by decide

/-! ## validation = compilation -/

section tokens
variable {α : Type} [DecidableEq α]

/-- What `NFA.from_regex` does after lexing: `parse_regex`'s token pipeline, then the NFA
constructor with its validation. -/
def compileTokens (syms : List α) (ts : List (Tok α)) : Res (NFA Nat α) :=
  match parseTokens syms ts with
  | .error e => .error e
  | .ok b =>
      match (b.toNFA syms).validate with
      | .error e => .error e
      | .ok _ => .ok (b.toNFA syms)

/-- **Validator and compiler agree** on every sequence of lexer tokens whose symbols belong to the
alphabet: `validate_tokens` accepts it exactly when the compilation pipeline produces an NFA; and
when it is rejected, compilation fails with the same `InvalidRegexError` (no crash further down
the pipeline: the validator is at least as strict as shunting-yard / postfix evaluation need). -/
theorem C11_validate_iff_compiles (syms : List α) {ts : List (Tok α)}
    (hl : ∀ t ∈ ts, LexTok t) (hsym : ∀ a, Tok.str [a] ∈ ts → a ∈ syms) :
    (validateTokens ts = .ok () ↔ ∃ N, compileTokens syms ts = .ok N) ∧
    (validateTokens ts ≠ .ok () → compileTokens syms ts = .error (.lib .invalidRegexError)) := by
  by_cases hne : ts = []
  · subst hne
    have hN : ∃ N, compileTokens syms ([] : List (Tok α)) = .ok N := by
      obtain ⟨i, _⟩ := Builder.eps_spec (α := α) 0
      have hv := Builder.toNFA_valid (syms := syms) i (Builder.rows_eps 0)
        (Builder.syms_eps (fun x => x ∈ syms) 0)
      refine ⟨(Builder.fromStringLiteral ([] : List α) 0).1.toNFA syms, ?_⟩
      unfold compileTokens parseTokens
      simp only [List.isEmpty_nil, if_true, hv]
    exact ⟨⟨fun _ => hN, fun _ => rfl⟩, fun h => absurd rfl h⟩
  · have hemp : ts.isEmpty = false := by
      cases ts with
      | nil => exact absurd rfl hne
      | cons _ _ => rfl
    constructor
    · constructor
      · intro hv
        obtain ⟨e, hg⟩ := grammar_of_validate hl hne hv
        obtain ⟨b, c', hb, hp⟩ := parseTokens_of_grammar syms hg hv
        obtain ⟨b', c'', hb', _, _, hvalid, _⟩ := C10.C10_builder syms e 0
        rw [hb] at hb'
        cases hb'
        have hv' := hvalid (fun a ha => hsym a (lits_mem_tokens hg a ha))
        refine ⟨b.toNFA syms, ?_⟩
        unfold compileTokens
        simp only [hp, hv']
      · rintro ⟨N, hN⟩
        unfold compileTokens parseTokens at hN
        simp only [hemp, Bool.false_eq_true, if_false] at hN
        cases hv : validateTokens ts with
        | ok u => rfl
        | error x => simp [hv] at hN
    · intro hbad
      rcases validate_error_kind ts with h | h
      · exact absurd h hbad
      · unfold compileTokens parseTokens
        simp only [hemp, Bool.false_eq_true, if_false, h]

end tokens

/-- After a successful lexer run `NFA.from_regex` = reserved-character check (explicit alphabet
only), the token pipeline of `parse_regex`, the NFA constructor. -/
theorem fromRegex_some_eq {s : List Char} {ts : List (Tok Char)} (hlex : lex s = .ok ts)
    (syms : List Char) (hres : ∀ c ∈ syms, isReserved c = false) :
    fromRegex s (some syms) = compileTokens syms ts := by
  have hany : syms.any isReserved = false := by
    rw [List.any_eq_false]
    intro c hc
    simp [hres c hc]
  unfold fromRegex parseRegex compileTokens
  by_cases hs : s.isEmpty = true
  · have : s = [] := by cases s with
      | nil => rfl
      | cons _ _ => cases hs
    subst this
    have : lex ([] : List Char) = .ok [] := rfl
    rw [this] at hlex
    cases hlex
    simp only [hany, Bool.false_eq_true, if_false, List.isEmpty_nil, if_true, parseTokens]
    rfl
  · simp only [hany, hs, Bool.false_eq_true, if_false, hlex]
    cases parseTokens syms ts with
    | error x => rfl
    | ok b =>
      simp only
      cases (b.toNFA syms).validate <;> rfl

theorem fromRegex_none_eq {s : List Char} {ts : List (Tok Char)} (hlex : lex s = .ok ts) :
    fromRegex s none = compileTokens (defaultSyms s) ts := by
  unfold fromRegex parseRegex compileTokens
  by_cases hs : s.isEmpty = true
  · have : s = [] := by cases s with
      | nil => rfl
      | cons _ _ => cases hs
    subst this
    have : lex ([] : List Char) = .ok [] := rfl
    rw [this] at hlex
    cases hlex
    simp only [List.isEmpty_nil, if_true, parseTokens]
    rfl
  · simp only [hs, Bool.false_eq_true, if_false, hlex]
    cases parseTokens (defaultSyms s) ts with
    | error x => rfl
    | ok b =>
      simp only
      cases (b.toNFA (defaultSyms s)).validate <;> rfl

/-- **String level**, default alphabet: for a string that spells a sequence of documented tokens
(blanks anywhere), `regex.validate(s)` succeeds exactly when `NFA.from_regex(s)` succeeds; when
it fails both fail with `InvalidRegexError`. -/
theorem C11_validate_iff_from_regex {s : List Char} {ts : List (Tok Char)} (hr : Renders ts s) :
    (Rx.validate s = .ok () ↔ ∃ N, fromRegex s none = .ok N) ∧
    (Rx.validate s ≠ .ok () →
      Rx.validate s = .error (.lib .invalidRegexError) ∧
      fromRegex s none = .error (.lib .invalidRegexError)) := by
  have hlex := lex_renders hr
  have hval : Rx.validate s = validateTokens ts := by
    unfold Rx.validate; rw [hlex]
  have hsym : ∀ a, Tok.str [a] ∈ ts → a ∈ defaultSyms s := fun a ha =>
    mem_defaultSyms (renders_str_mem hr a ha).1 (renders_str_mem hr a ha).2
  obtain ⟨h1, h2⟩ := C11_validate_iff_compiles (defaultSyms s) (renders_lexTok hr) hsym
  rw [hval, fromRegex_none_eq hlex]
  refine ⟨h1, fun hbad => ⟨?_, h2 hbad⟩⟩
  rcases validate_error_kind ts with h | h
  · exact absurd h hbad
  · exact h

/-- **String level, explicit alphabet** `input_symbols=Σ` (no reserved character, containing the
symbols of the string): for a string that spells a sequence of documented tokens,
`regex.validate(s)` succeeds exactly when `NFA.from_regex(s, input_symbols=Σ)` succeeds; when it
fails both fail with `InvalidRegexError`. -/
theorem C11_validate_iff_from_regex_explicit {s : List Char} {ts : List (Tok Char)}
    (hr : Renders ts s) (syms : List Char) (hres : ∀ c ∈ syms, isReserved c = false)
    (hsym : ∀ a, Tok.str [a] ∈ ts → a ∈ syms) :
    (Rx.validate s = .ok () ↔ ∃ N, fromRegex s (some syms) = .ok N) ∧
    (Rx.validate s ≠ .ok () →
      Rx.validate s = .error (.lib .invalidRegexError) ∧
      fromRegex s (some syms) = .error (.lib .invalidRegexError)) := by
  have hlex := lex_renders hr
  have hval : Rx.validate s = validateTokens ts := by
    unfold Rx.validate; rw [hlex]
  obtain ⟨h1, h2⟩ := C11_validate_iff_compiles syms (renders_lexTok hr) hsym
  rw [hval, fromRegex_some_eq hlex syms hres]
  refine ⟨h1, fun hbad => ⟨?_, h2 hbad⟩⟩
  rcases validate_error_kind ts with h | h
  · exact absurd h hbad
  · exact h

/-! ## every string (also those that do not lex, or are not spellings of documented tokens) -/

open LexTotal in
/-- **Lexing failures are shared**: when `lexer.lex(s)` raises, `regex.validate(s)` and
`NFA.from_regex(s, …)` (default alphabet, or any explicit alphabet that passes the
reserved-character check) raise the same exception. -/
theorem C11_lex_error_agree {s : List Char} {e : Exn} (h : lex s = .error e) :
    Rx.validate s = .error e ∧ fromRegex s none = .error e ∧
    ∀ syms : List Char, (∀ c ∈ syms, isReserved c = false) →
      fromRegex s (some syms) = .error e := by
  have hs : s.isEmpty = false := by
    cases s with
    | nil => have : lex ([] : List Char) = .ok [] := rfl
             rw [this] at h; cases h
    | cons _ _ => rfl
  refine ⟨?_, ?_, ?_⟩
  · unfold Rx.validate; rw [h]
  · unfold fromRegex parseRegex
    simp only [hs, Bool.false_eq_true, if_false, h]
  · intro syms hres
    have hany : syms.any isReserved = false := by
      rw [List.any_eq_false]
      intro c hc
      simp [hres c hc]
    unfold fromRegex parseRegex
    simp only [hany, hs, Bool.false_eq_true, if_false, h]

open LexTotal in
/-- **Kinds of lexing failures**, for every string: `lexer.lex(s)` returns lexer tokens, or
raises `LexerError` (a white-space character other than a blank), or `InvalidRegexError`
(a brace group with numeric bounds that are negative or ill-ordered: `a{-1,2}`, `a{2,1}`), or
`ValueError` — the last one only if some brace group `{g1,g2}` of `s` has a non-empty bound text
that `int()` rejects (`HasBadBound`: non-numeric bounds, outside the property's domain). -/
theorem C11_lex_error_kind (s : List Char) :
    (∃ ts, lex s = .ok ts ∧ ∀ t ∈ ts, LexTok t) ∨
    lex s = .error (.lib .lexerError) ∨
    lex s = .error (.lib .invalidRegexError) ∨
    (lex s = .error (.py .valueError) ∧ HasBadBound s) := by
  rcases lex_error_kind s with ⟨ts, h⟩ | h | h | h
  · exact Or.inl ⟨ts, h, lex_ok_lexTok h⟩
  · exact Or.inr (Or.inl h)
  · exact Or.inr (Or.inr (Or.inl h))
  · exact Or.inr (Or.inr (Or.inr h))

open LexTotal in
/-- **Validator and compiler agree on EVERY string** (explicit alphabet `Σ` without reserved
characters that contains the symbol tokens the lexer produces, if it produces any): whatever the
characters of `s` — lone braces, odd bounds, white space included —
`regex.validate(s)` succeeds exactly when `NFA.from_regex(s, input_symbols=Σ)` succeeds, and
otherwise both raise the SAME exception, which is `InvalidRegexError` or `LexerError` (regex error
types, `C11_error_classes`) — or `ValueError`, but only if some brace group has a non-numeric
bound (`HasBadBound s`). -/
theorem C11_validate_from_regex_any (s : List Char) (syms : List Char)
    (hres : ∀ c ∈ syms, isReserved c = false)
    (hsym : ∀ ts, lex s = .ok ts → ∀ a, Tok.str [a] ∈ ts → a ∈ syms) :
    (Rx.validate s = .ok () ↔ ∃ N, fromRegex s (some syms) = .ok N) ∧
    (Rx.validate s ≠ .ok () → ∃ e, Rx.validate s = .error e ∧ fromRegex s (some syms) = .error e ∧
      (e = .lib .invalidRegexError ∨ e = .lib .lexerError ∨
        (e = .py .valueError ∧ HasBadBound s))) := by
  cases hlex : lex s with
  | error e =>
    obtain ⟨hv, _, hf⟩ := C11_lex_error_agree hlex
    rw [hv, hf syms hres]
    refine ⟨⟨fun h => (by cases h), fun ⟨N, h⟩ => (by cases h)⟩, fun _ => ⟨e, rfl, rfl, ?_⟩⟩
    rcases lexAux_error_kind _ _ e hlex with h | h | h
    · exact Or.inr (Or.inl h)
    · exact Or.inl h
    · exact Or.inr (Or.inr h)
  | ok ts =>
    have hval : Rx.validate s = validateTokens ts := by
      unfold Rx.validate; rw [hlex]
    obtain ⟨h1, h2⟩ := C11_validate_iff_compiles syms (lex_ok_lexTok hlex) (hsym ts hlex)
    rw [hval, fromRegex_some_eq hlex syms hres]
    refine ⟨h1, fun hbad => ⟨_, ?_, h2 hbad, Or.inl rfl⟩⟩
    rcases validate_error_kind ts with h | h
    · exact absurd h hbad
    · exact h

open LexTotal in
/-- The same with the default alphabet (`input_symbols=None`), for every string whose lexer run
yields no lone-brace symbol (`{` / `}` are reserved, hence never in the default alphabet: for
`a{` the validator answers ok and `from_regex` raises `InvalidSymbolError`; outside the documented
syntax). -/
theorem C11_validate_from_regex_any_default (s : List Char)
    (hbr : ∀ ts, lex s = .ok ts → Tok.str ['{'] ∉ ts ∧ Tok.str ['}'] ∉ ts) :
    (Rx.validate s = .ok () ↔ ∃ N, fromRegex s none = .ok N) ∧
    (Rx.validate s ≠ .ok () → ∃ e, Rx.validate s = .error e ∧ fromRegex s none = .error e ∧
      (e = .lib .invalidRegexError ∨ e = .lib .lexerError ∨
        (e = .py .valueError ∧ HasBadBound s))) := by
  cases hlex : lex s with
  | error e =>
    obtain ⟨hv, hf, _⟩ := C11_lex_error_agree hlex
    rw [hv, hf]
    refine ⟨⟨fun h => (by cases h), fun ⟨N, h⟩ => (by cases h)⟩, fun _ => ⟨e, rfl, rfl, ?_⟩⟩
    rcases lexAux_error_kind _ _ e hlex with h | h | h
    · exact Or.inr (Or.inl h)
    · exact Or.inl h
    · exact Or.inr (Or.inr h)
  | ok ts =>
    have hval : Rx.validate s = validateTokens ts := by
      unfold Rx.validate; rw [hlex]
    have hsym : ∀ a, Tok.str [a] ∈ ts → a ∈ defaultSyms s := by
      intro a ha
      obtain ⟨hm, _, hr⟩ := lex_ok_str hlex a ha
      rcases hr with hr | rfl | rfl
      · exact mem_defaultSyms hm hr
      · exact absurd ha (hbr ts hlex).1
      · exact absurd ha (hbr ts hlex).2
    obtain ⟨h1, h2⟩ := C11_validate_iff_compiles (defaultSyms s) (lex_ok_lexTok hlex) hsym
    rw [hval, fromRegex_none_eq hlex]
    refine ⟨h1, fun hbad => ⟨_, ?_, h2 hbad, Or.inl rfl⟩⟩
    rcases validate_error_kind ts with h | h
    · exact absurd h hbad
    · exact h

/-! ## comparison helpers -/

section compare
variable (eq : NFA Nat Char → NFA Nat Char → Bool)
variable (uni : NFA Nat Char → NFA Nat Char → NFA Nat Char)

/-- Contract of `NFA.__eq__` (C09): on valid NFAs over the same alphabet it decides language
equality. -/
def EqContract (syms : List Char) : Prop :=
  ∀ A B : NFA Nat Char, A.validate = .ok () → B.validate = .ok () → A.syms = syms → B.syms = syms →
    (eq A B = true ↔ ∀ w, A.accepts w = B.accepts w)

/-- Contract of `NFA.union` (C08): on valid NFAs over the same alphabet it returns a valid NFA
over that alphabet accepting the union. -/
def UnionContract (syms : List Char) : Prop :=
  ∀ A B : NFA Nat Char, A.validate = .ok () → B.validate = .ok () → A.syms = syms → B.syms = syms →
    (uni A B).validate = .ok () ∧ (uni A B).syms = syms ∧
    ∀ w, (uni A B).accepts w = (A.accepts w || B.accepts w)

theorem fromRegex_syms {s : List Char} {syms : List Char} {N : NFA Nat Char}
    (h : fromRegex s (some syms) = .ok N) : N.syms = syms := by
  unfold fromRegex at h
  by_cases hany : syms.any isReserved = true
  · simp [hany] at h
  · simp only [hany, Bool.false_eq_true, if_false] at h
    cases hp : parseRegex s syms with
    | error x => simp [hp] at h
    | ok b =>
      simp only [hp] at h
      cases hv : (b.toNFA syms).validate with
      | error x => simp [hv] at h
      | ok u =>
        simp only [hv] at h
        cases h
        rfl

/-- **`isequal`, `issubset`, `issuperset` are exact** for valid expressions over a common
explicit alphabet: they return `True` exactly when the denoted languages are equal / included
(given the contracts of `NFA.__eq__` and `NFA.union`). -/
theorem C11_comparisons {s1 s2 : List Char} {ts1 ts2 : List (Tok Char)} {e1 e2 : Rx Char}
    (hr1 : Renders ts1 s1) (hg1 : G .E e1 ts1) (hr2 : Renders ts2 s2) (hg2 : G .E e2 ts2)
    (syms : List Char) (hres : ∀ c ∈ syms, isReserved c = false)
    (hl1 : ∀ a ∈ e1.lits, a ∈ syms) (hl2 : ∀ a ∈ e2.lits, a ∈ syms)
    (heq : EqContract eq syms) (huni : UnionContract uni syms) :
    (∃ b, isequal eq s1 s2 (some syms) = .ok b ∧ (b = true ↔ den syms e1 = den syms e2)) ∧
    (∃ b, issubset eq uni s1 s2 (some syms) = .ok b ∧ (b = true ↔ den syms e1 ≤ den syms e2)) ∧
    (∃ b, issuperset eq uni s1 s2 (some syms) = .ok b ∧ (b = true ↔ den syms e2 ≤ den syms e1)) := by
  obtain ⟨N1, h1, v1, a1⟩ := C10.C10_compile hr1 hg1 syms hres hl1
  obtain ⟨N2, h2, v2, a2⟩ := C10.C10_compile hr2 hg2 syms hres hl2
  have sy1 := fromRegex_syms h1
  have sy2 := fromRegex_syms h2
  obtain ⟨vu, syu, au⟩ := huni N1 N2 v1 v2 sy1 sy2
  -- acceptance as Booleans ↔ membership
  have b1 : ∀ w, N1.accepts w = true ↔ w ∈ den syms e1 := a1
  have b2 : ∀ w, N2.accepts w = true ↔ w ∈ den syms e2 := a2
  have sameAcc : ∀ (A B : NFA Nat Char) (LA LB : Language Char),
      (∀ w, A.accepts w = true ↔ w ∈ LA) → (∀ w, B.accepts w = true ↔ w ∈ LB) →
      ((∀ w, A.accepts w = B.accepts w) ↔ LA = LB) := by
    intro A B LA LB hA hB
    constructor
    · intro h
      ext w
      rw [← hA, ← hB, h]
    · intro h w
      have : (A.accepts w = true) ↔ (B.accepts w = true) := by rw [hA, hB, h]
      cases hx : A.accepts w <;> cases hy : B.accepts w <;> simp_all
  have bu : ∀ w, (uni N1 N2).accepts w = true ↔ w ∈ den syms e1 + den syms e2 := by
    intro w
    rw [au, Bool.or_eq_true, b1, b2, Language.mem_add]
  refine ⟨⟨eq N1 N2, ?_, ?_⟩, ⟨eq (uni N1 N2) N2, ?_, ?_⟩, ⟨eq (uni N1 N2) N1, ?_, ?_⟩⟩
  · unfold isequal; simp only [h1, h2]
  · rw [heq N1 N2 v1 v2 sy1 sy2]
    exact sameAcc N1 N2 _ _ b1 b2
  · unfold issubset; simp only [h1, h2]
  · rw [heq _ N2 vu v2 syu sy2, sameAcc _ N2 _ _ bu b2]
    exact sup_eq_right
  · unfold issuperset; simp only [h1, h2]
  · rw [heq _ N1 vu v1 syu sy1, sameAcc _ N1 _ _ bu b1]
    exact sup_eq_left

end compare

/-! ## non-vacuity -/

/-- Concrete sequences: `(a|b)*` validates and is in the grammar; `(a|)` does not validate
(mutant m24 would let it through); a blank-only string validates and compiles (F5). -/
example : validateTokens ([.lparen, .str ['a'], .union, .str ['b'], .rparen, .star] : List (Tok Char))
    = .ok () := by decide
example : validateTokens ([.lparen, .str ['a'], .union, .rparen] : List (Tok Char))
    = .error (.lib .invalidRegexError) := by decide
example : Rx.validate " ".toList = .ok () ∧ (fromRegex " ".toList none).toOption.isSome = true := by
  decide
example : Renders [.str ['a'], .quant 1 (some 2)] "a {1,2} ".toList :=
  .tok (.sym 'a' ⟨by decide, by decide⟩) (.blank ' ' (by decide)
    (.tok (.quant ['1'] ['2'] 1 (some 2)
      (Or.inr ⟨['1'], .of_digits ⟨by simp, by decide⟩, by decide⟩)
      (Or.inr ⟨['2'], .of_digits ⟨by simp, by decide⟩, by decide, by decide⟩))
      (.blank ' ' (by decide) .nil)))

/-- Strings that do not lex: numeric but ill-ordered / negative bounds are `InvalidRegexError`
(validator and compiler alike), a non-numeric bound is `ValueError`, a newline is `LexerError`. -/
example : (lex "a{2,1}".toList, Rx.validate "a{-1,2}".toList,
    (fromRegex "a{2,1}".toList (some ['a'])).toOption.isSome) =
    (.error (.lib .invalidRegexError), .error (.lib .invalidRegexError), false) := by decide
example : (lex "a{x,1}".toList, lex "a\nb".toList) =
    (.error (.py .valueError), .error (.lib .lexerError)) := by decide
example : LexTotal.HasBadBound "a{x,1}".toList :=
  ⟨['a'], "{x,1}".toList, ['x'], ['1'], rfl, by decide, Or.inl ⟨by simp, by decide⟩⟩

/-- The hypotheses of `C11_validate_from_regex_any` are met by a string outside the grammar:
`(a|b` over `Σ = {a, b}` — validator and compiler both fail with `InvalidRegexError`.  (For a
string that does not lex, such as `a{2,1}` above, the hypothesis on symbol tokens is void.) -/
example : (∀ c ∈ ['a', 'b'], isReserved c = false) ∧
    (∀ ts, lex "(a|b".toList = .ok ts → ∀ a, Tok.str [a] ∈ ts → a ∈ ['a', 'b']) ∧
    Rx.validate "(a|b".toList = .error (.lib .invalidRegexError) ∧
    (fromRegex "(a|b".toList (some ['a', 'b'])).toOption.isSome = false := by
  refine ⟨by decide, ?_, by decide, by decide⟩
  intro ts h
  have : lex "(a|b".toList = .ok [.lparen, .str ['a'], .union, .str ['b']] := by decide
  rw [this] at h
  cases h
  intro a ha
  simp at ha
  rcases ha with rfl | rfl <;> simp

/-- … and the side condition of the default-alphabet version: `a|b*` yields no lone-brace
symbol, `a{` does (then validate is ok while `from_regex` raises `InvalidSymbolError`). -/
example : lex "a{".toList = .ok [.str ['a'], .str ['{']] ∧ Rx.validate "a{".toList = .ok () ∧
    (fromRegex "a{".toList none).map (fun _ => ()) = .error (.lib .invalidSymbolError) := by decide

end AV.Props.C11
