/-
Props/C03.lean — C03: Turing-machine simulation is faithful step by step (DTM, NTM, multitape).

English statement (properties.jsonl): for every valid deterministic or nondeterministic
Turing machine and every input, the k-th configuration (set of configurations for a
nondeterministic machine) produced by step-by-step reading is exactly what k applications of
the transition function to the initial configuration give on a tape that is blank-extended
in both directions, and a multitape machine visits exactly the reachable configurations in
breadth-first order; a run accepts as soon as a final state is reached and rejects when every
branch is stuck.  A deterministic table, the same table given as a nondeterministic machine,
and the same table given as a one-tape multitape machine return the same verdict on every
input.  Quantifier: all valid tables (moves L/R/N, writing blanks, running off either tape
end), all inputs, all step counts up to the budget; halting is not assumed.

How it is stated here.
* The model (`Model/TM*.lean`) mirrors the code: `TMTape` as tuple + index with the padding
  of `__init__`/`move`, and the three `read_input_stepwise` generators, observed through `n`
  calls of `next()` (`readStepwise w n` = yields so far + `returned` / `raised e` / `running`).
* The reference (`Spec/TM.lean`) knows nothing of stored cells: a tape is a function
  `Int → Γ` relative to the head, blank outside the input; `vstep` / `VStep` are the textbook
  transition function / relation; `viewCfg`, `viewM` say what a stored configuration stands for.
* Theorems below hold for every machine, input, budget `n` and index `k`.  Validity
  (`validate = .ok ()`) is needed only where the code relies on it (final states carry no
  rows: MNTM acceptance test, agreement of the three classes).
-/
import AutomataVerif.Proofs.TMAgree
import AutomataVerif.Proofs.TMLift
import Batteries.Lean.Except

namespace AV.Props.C03
open AV AV.TM

set_option linter.unusedSectionVars false
variable {σ Γ : Type} [DecidableEq σ] [DecidableEq Γ]

/-! ## Tape: `TMTape` is a window on a two-way infinite blank tape -/

/-- Class invariant: the constructor, `write_symbol` and `move` always leave a cell under the
cursor (so `read_symbol`/`write_symbol` never raise `IndexError`). -/
theorem C03_tape_invariant (cells : List Γ) (b : Γ) (p : Nat) (t : Tape Γ) (s : Γ) (d : Dir) :
    (Tape.init cells b p).WF ∧ (t.write s).WF ∧ (t.move d).WF :=
  ⟨Tape.init_wf _ _ _, Tape.write_wf _ _, Tape.move_wf _ _⟩

/-- `TMTape(w, blank)` stands for: `w` from the head rightwards, blank everywhere else — also
for the empty input, and to the left of the head. -/
theorem C03_tape_init (w : List Γ) (b : Γ) : (Tape.init w b).view = blankTape b w :=
  initTape_view w b

/-- `read_symbol` returns the scanned cell. -/
theorem C03_tape_read (t : Tape Γ) : t.read = t.view 0 := Tape.read_eq_view t

/-- **Write + move** on the stored tape is: overwrite the scanned cell, then shift the
two-way infinite tape — at both ends of the stored cells (a blank is inserted at index 0 on a
left move from index 0, appended on a right move past the end), for `L`, `R`, `N`, and when
the written symbol is the blank.  The blank symbol of the tape never changes. -/
theorem C03_tape_write_move (t : Tape Γ) (h : t.WF) (s : Γ) (d : Dir) :
    ((t.write s).move d).view = shift d (Function.update t.view 0 s) ∧
    ((t.write s).move d).blank = t.blank :=
  ⟨Tape.write_move_view h s d, rfl⟩

/-! ## DTM -/

/-- The `k`-th configuration yielded by `DTM.read_input_stepwise` stands for `k` applications
of the transition function to the initial configuration (input on a tape that is blank in
both directions).  No validity assumption, any budget `n`. -/
theorem C03_dtm_kth (M : DTM σ Γ) (w : List Γ) (n k : Nat) (c : Cfg σ Γ)
    (h : (M.readStepwise w n).1[k]? = some c) : M.vrun w k = some (viewCfg c) := by
  unfold DTM.readStepwise at h
  cases n with
  | zero => simp [genStart] at h
  | succ n =>
    simp only [genStart] at h
    cases k with
    | zero =>
      simp only [List.getElem?_cons_zero, Option.some.injEq] at h
      subst h
      simp [DTM.vrun, DTM.vrunFrom_zero, DTM.viewCfg_initCfg]
    | succ j =>
      simp only [List.getElem?_cons_succ] at h
      have := M.genRun_kth n _ (M.initCfg_wf w) j c h
      rwa [DTM.viewCfg_initCfg] at this

/-- The sequence of yields stops exactly at the first final state or the first stuck
configuration: a `k`-th configuration is yielded iff the budget allows it, `k` applications
of the transition function are defined, and none of the configurations before is final. -/
theorem C03_dtm_yield_exists_iff (M : DTM σ Γ) (w : List Γ) (n k : Nat) :
    (∃ c, (M.readStepwise w n).1[k]? = some c) ↔
      k < n ∧ (∃ v, M.vrun w k = some v) ∧
        ∀ j, j < k → ∀ v, M.vrun w j = some v → v.state ∉ M.finals := by
  unfold DTM.readStepwise
  cases n with
  | zero => simp [genStart]
  | succ n =>
    simp only [genStart]
    cases k with
    | zero =>
      simp only [List.getElem?_cons_zero, Option.some.injEq, exists_eq', true_iff]
      exact ⟨by omega, ⟨_, rfl⟩, fun j hj => by omega⟩
    | succ j =>
      simp only [List.getElem?_cons_succ]
      rw [M.genRun_exists_iff n _ (M.initCfg_wf w) j, DTM.viewCfg_initCfg]
      constructor
      · rintro ⟨h1, h2, h3⟩; exact ⟨by omega, h2, h3⟩
      · rintro ⟨h1, h2, h3⟩; exact ⟨by omega, h2, h3⟩

/-- **Accept as soon as a final state is reached**: the generator returns (⇒ `accepts_input`
is `True`) within `n` calls iff the run reaches its first final state after some `k` steps
with `k + 2 ≤ n` (`k + 1` calls yield configurations `0 … k`, the next one returns). -/
theorem C03_dtm_accept_iff (M : DTM σ Γ) (w : List Γ) (n : Nat) :
    (M.readStepwise w n).2 = .returned ↔ ∃ k, k + 2 ≤ n ∧ M.AcceptsAt w k := by
  unfold DTM.readStepwise DTM.AcceptsAt
  cases n with
  | zero => simp [genStart]
  | succ n =>
    simp only [genStart]
    rw [M.genRun_returned_iff n _ (M.initCfg_wf w), DTM.viewCfg_initCfg]
    constructor
    · rintro ⟨k, hk, h⟩; exact ⟨k, by omega, h⟩
    · rintro ⟨k, hk, h⟩; exact ⟨k, by omega, h⟩

/-- **Reject when stuck**: the generator raises within `n` calls iff the run reaches, after
some `k` steps with `k + 2 ≤ n`, a non-final configuration without applicable row, no final
state before — and the exception is `RejectionException`, nothing else. -/
theorem C03_dtm_reject_iff (M : DTM σ Γ) (w : List Γ) (n : Nat) (e : Exn) :
    (M.readStepwise w n).2 = .raised e ↔
      e = .lib .rejectionException ∧ ∃ k, k + 2 ≤ n ∧ M.StuckAt w k := by
  unfold DTM.readStepwise DTM.StuckAt
  cases n with
  | zero => simp [genStart]
  | succ n =>
    simp only [genStart]
    rw [M.genRun_raised_iff n _ (M.initCfg_wf w), DTM.viewCfg_initCfg]
    constructor
    · rintro ⟨he, k, hk, h⟩; exact ⟨he, k, by omega, h⟩
    · rintro ⟨he, k, hk, h⟩; exact ⟨he, k, by omega, h⟩

/-- While the generator is still running, every call so far yielded a configuration. -/
theorem C03_dtm_running (M : DTM σ Γ) (w : List Γ) (n : Nat)
    (h : (M.readStepwise w n).2 = .running) : (M.readStepwise w n).1.length = n := by
  unfold DTM.readStepwise at h ⊢
  cases n with
  | zero => rfl
  | succ n =>
    simp only [genStart] at h ⊢
    simp [genRun_running_length _ n _ h]

/-! ## NTM -/

/-- The `k`-th set yielded by `NTM.read_input_stepwise` is, as a set of configurations on
blank-extended tapes, exactly the set of `k`-step successors of the initial configuration. -/
theorem C03_ntm_kth (M : NTM σ Γ) (w : List Γ) (n k : Nat) (L : List (Cfg σ Γ))
    (h : (M.readStepwise w n).1[k]? = some L) (v : VCfg σ Γ) :
    (∃ c ∈ L, viewCfg c = v) ↔ M.vlevel w k v := by
  have hw0 : AllWF [M.initCfg w] := by
    intro c hc; simp only [List.mem_singleton] at hc; subst hc; exact Tape.init_wf _ _ _
  have hv0 : ∀ u, VS [M.initCfg w] u ↔ u = M.vstart w := by
    intro u
    simp only [VS, List.mem_singleton, exists_eq_left]
    have : viewCfg (M.initCfg w) = M.vstart w := by
      simp [viewCfg, NTM.initCfg, NTM.vstart, initTape_view]
    rw [this]; exact eq_comm
  have hlev : ∀ j u, M.lev [M.initCfg w] j u ↔ M.vlevel w j u := by
    intro j u
    unfold NTM.lev NTM.vlevel
    constructor
    · rintro ⟨x, hx, hr⟩; rw [(hv0 x).mp hx] at hr; exact hr
    · intro hr; exact ⟨_, (hv0 _).mpr rfl, hr⟩
  unfold NTM.readStepwise at h
  cases n with
  | zero => simp [genStart] at h
  | succ n =>
    simp only [genStart] at h
    cases k with
    | zero =>
      simp only [List.getElem?_cons_zero, Option.some.injEq] at h
      subst h
      rw [← hlev, NTM.lev_zero]; rfl
    | succ j =>
      simp only [List.getElem?_cons_succ] at h
      have := (M.genRun_kth n _ hw0 j L h).2 v
      rw [← hlev]; exact this

/-- A `k`-th set is yielded iff the budget allows it and all earlier levels are non-empty and
contain no final state (the `k`-th set itself may be empty: it is yielded, then the next call
rejects). -/
theorem C03_ntm_yield_exists_iff (M : NTM σ Γ) (w : List Γ) (n k : Nat) :
    (∃ L, (M.readStepwise w n).1[k]? = some L) ↔
      k < n ∧ (k = 0 ∨ ∃ v, M.vlevel w (k - 1) v) ∧
        ∀ j, j < k → ∀ v, M.vlevel w j v → v.state ∉ M.finals := by
  have hw0 : AllWF [M.initCfg w] := by
    intro c hc; simp only [List.mem_singleton] at hc; subst hc; exact Tape.init_wf _ _ _
  have hlev : ∀ j u, M.lev [M.initCfg w] j u ↔ M.vlevel w j u := by
    intro j u
    have : viewCfg (M.initCfg w) = M.vstart w := by
      simp [viewCfg, NTM.initCfg, NTM.vstart, initTape_view]
    unfold NTM.lev NTM.vlevel VS
    constructor
    · rintro ⟨x, ⟨c, hc, rfl⟩, hr⟩
      simp only [List.mem_singleton] at hc; subst hc; rw [this] at hr; exact hr
    · intro hr; exact ⟨_, ⟨_, by simp, this⟩, hr⟩
  unfold NTM.readStepwise
  cases n with
  | zero => simp [genStart]
  | succ n =>
    simp only [genStart]
    cases k with
    | zero =>
      simp only [List.getElem?_cons_zero, Option.some.injEq, exists_eq', true_iff]
      exact ⟨by omega, Or.inl trivial, fun j hj => by omega⟩
    | succ j =>
      simp only [List.getElem?_cons_succ]
      rw [M.genRun_exists_iff n _ hw0 j]
      unfold NTM.NoFinalBefore
      simp only [hlev, Nat.add_sub_cancel]
      constructor
      · rintro ⟨h1, h2, h3⟩; exact ⟨by omega, Or.inr h2, h3⟩
      · rintro ⟨h1, h2 | h2, h3⟩
        · omega
        · exact ⟨by omega, h2, h3⟩

/-- **Accept as soon as a level contains a final state**. -/
theorem C03_ntm_accept_iff (M : NTM σ Γ) (w : List Γ) (n : Nat) :
    (M.readStepwise w n).2 = .returned ↔ ∃ k, k + 2 ≤ n ∧ M.AcceptsAt w k := by
  have hw0 : AllWF [M.initCfg w] := by
    intro c hc; simp only [List.mem_singleton] at hc; subst hc; exact Tape.init_wf _ _ _
  have hlev : ∀ j u, M.lev [M.initCfg w] j u ↔ M.vlevel w j u := by
    intro j u
    have : viewCfg (M.initCfg w) = M.vstart w := by
      simp [viewCfg, NTM.initCfg, NTM.vstart, initTape_view]
    unfold NTM.lev NTM.vlevel VS
    constructor
    · rintro ⟨x, ⟨c, hc, rfl⟩, hr⟩
      simp only [List.mem_singleton] at hc; subst hc; rw [this] at hr; exact hr
    · intro hr; exact ⟨_, ⟨_, by simp, this⟩, hr⟩
  unfold NTM.readStepwise NTM.AcceptsAt
  cases n with
  | zero => simp [genStart]
  | succ n =>
    simp only [genStart]
    rw [M.genRun_returned_iff n _ hw0]
    unfold NTM.NoFinalBefore
    simp only [hlev]
    constructor
    · rintro ⟨k, hk, h⟩; exact ⟨k, by omega, h⟩
    · rintro ⟨k, hk, h⟩; exact ⟨k, by omega, h⟩

/-- **Reject when every branch is stuck** (some level is empty, no final state before), by
`RejectionException` and nothing else. -/
theorem C03_ntm_reject_iff (M : NTM σ Γ) (w : List Γ) (n : Nat) (e : Exn) :
    (M.readStepwise w n).2 = .raised e ↔
      e = .lib .rejectionException ∧ ∃ k, k + 2 ≤ n ∧ M.StuckAt w k := by
  have hw0 : AllWF [M.initCfg w] := by
    intro c hc; simp only [List.mem_singleton] at hc; subst hc; exact Tape.init_wf _ _ _
  have hlev : ∀ j u, M.lev [M.initCfg w] j u ↔ M.vlevel w j u := by
    intro j u
    have : viewCfg (M.initCfg w) = M.vstart w := by
      simp [viewCfg, NTM.initCfg, NTM.vstart, initTape_view]
    unfold NTM.lev NTM.vlevel VS
    constructor
    · rintro ⟨x, ⟨c, hc, rfl⟩, hr⟩
      simp only [List.mem_singleton] at hc; subst hc; rw [this] at hr; exact hr
    · intro hr; exact ⟨_, ⟨_, by simp, this⟩, hr⟩
  unfold NTM.readStepwise NTM.StuckAt
  cases n with
  | zero => simp [genStart]
  | succ n =>
    simp only [genStart]
    rw [M.genRun_raised_iff n _ hw0]
    unfold NTM.NoFinalBefore
    simp only [hlev]
    constructor
    · rintro ⟨he, k, hk, h⟩; exact ⟨he, k, by omega, h⟩
    · rintro ⟨he, k, hk, h⟩; exact ⟨he, k, by omega, h⟩

/-! ## MNTM -/

/-- Validation gives what the run relies on: final states carry no transitions and the
initial state is not final (used below, not assumed). -/
theorem C03_valid_final_no_rows (M : MNTM σ Γ) (hv : M.validate = .ok ()) :
    (∀ q ∈ M.finals, alookup q M.trans = none) ∧ M.init ∉ M.finals :=
  M.validate_final_no_rows hv

/-- **Breadth-first visit.**  For a valid multitape machine, the configurations yielded within
`n` calls stand for the first `n` elements of `level 0 ++ level 1 ++ level 2 ++ …` — level
`d + 1` being the successors, in the order the library enqueues them, of level `d` (path
multiplicity kept, no visited set) — cut right after the first configuration in a final state;
the generator then returns (one more call), raises `RejectionException` when all levels are
exhausted without a final state, and is otherwise still running. -/
theorem C03_mntm_bfs (M : MNTM σ Γ) (hv : M.validate = .ok ()) (w : List Γ) (n : Nat) :
    (M.readStepwise w n).1.map viewM = Q.cutThrough M.isFinal ((M.vlevelsUpTo w n).take n) ∧
    (M.readStepwise w n).2 = Q.endOf M.isFinal n ((M.vlevelsUpTo w n).take n) :=
  M.readStepwise_view (M.validate_final_no_rows hv).1 w n

/-- Level `d` consists exactly of the configurations reachable in `d` steps: the visit is over
exactly the reachable configurations. -/
theorem C03_mntm_level_reach (M : MNTM σ Γ) (w : List Γ) (d : Nat) (v : VMCfg σ Γ) :
    v ∈ M.vlevel w d ↔ ReachN M.VStep d (M.vstart w) v :=
  M.mem_vlevel w d v

theorem mntm_end_eq_qobs (M : MNTM σ Γ) (hv : M.validate = .ok ()) (w : List Γ) (n : Nat) :
    (M.readStepwise w n).2 = (Q.qobs M.vchildren M.isFinal n [M.vstart w]).2 := by
  rw [(C03_mntm_bfs M hv w n).2, Q.qobs_end, Q.bfsSeq_eq_levels, MNTM.vlevelsUpTo_eq]

/-- A valid MNTM accepts (some budget makes the generator return) iff a configuration in a
final state is reachable. -/
theorem C03_mntm_accepts_iff (M : MNTM σ Γ) (hv : M.validate = .ok ()) (w : List Γ) :
    (∃ n, (M.readStepwise w n).2 = .returned) ↔
      ∃ d v, ReachN M.VStep d (M.vstart w) v ∧ v.state ∈ M.finals := by
  simp only [mntm_end_eq_qobs M hv w]
  rw [Q.qobs_accept_iff]
  simp only [← MNTM.vlevel_eq_lvl, MNTM.mem_vlevel, MNTM.isFinal, decide_eq_true_eq]

/-- A valid MNTM rejects iff every branch is stuck (no configuration is reachable in `D`
steps, for some `D`) and no reachable configuration is in a final state; the exception is
`RejectionException`; the generator raises nothing else. -/
theorem C03_mntm_rejects_iff (M : MNTM σ Γ) (hv : M.validate = .ok ()) (w : List Γ) (e : Exn) :
    (∃ n, (M.readStepwise w n).2 = .raised e) ↔
      e = .lib .rejectionException ∧ (∃ D, ∀ v, ¬ ReachN M.VStep D (M.vstart w) v) ∧
        ∀ d v, ReachN M.VStep d (M.vstart w) v → v.state ∉ M.finals := by
  simp only [mntm_end_eq_qobs M hv w]
  have hcases := fun n => Q.qobs_end_cases M.vchildren M.isFinal n [M.vstart w]
  have hiff := Q.qobs_reject_iff M.vchildren M.isFinal [M.vstart w]
  simp only [← MNTM.vlevel_eq_lvl, MNTM.mem_vlevel, MNTM.isFinal, decide_eq_false_iff_not] at hiff
  have hnil : ∀ D, M.vlevel w D = [] ↔ ∀ v, ¬ ReachN M.VStep D (M.vstart w) v := by
    intro D
    rw [List.eq_nil_iff_forall_not_mem]
    exact forall_congr' fun v => not_congr (M.mem_vlevel w D v)
  simp only [hnil] at hiff
  constructor
  · rintro ⟨n, hn⟩
    have he : e = Q.rej := by
      rcases hcases n with h | h | h <;> rw [h] at hn <;> cases hn
      rfl
    subst he
    exact ⟨rfl, hiff.mp ⟨n, hn⟩⟩
  · rintro ⟨rfl, h⟩
    exact hiff.mpr h

/-! ## one table, three classes -/

/-- "The same table given as a nondeterministic machine, and the same table given as a one-tape
multitape machine" exist whenever the deterministic machine does: a table the DTM constructor
accepts is accepted by the NTM constructor (results as singleton sets) and by the MNTM
constructor (`n_tapes = 1`, keys as 1-tuples, results as one-element lists of one move). -/
theorem C03_lift_valid (M : DTM σ Γ) (hv : M.validate = .ok ()) :
    M.asNTM.validate = .ok () ∧ M.asMNTM.validate = .ok () :=
  ⟨M.asNTM_validate hv, M.asMNTM_validate hv⟩

/-- The same deterministic table as DTM and as one-tape MNTM: the generators end the same way
at every budget (so `accepts_input` agrees whenever it is decided), and the MNTM yields the
same configurations. -/
theorem C03_agree_mntm (M : DTM σ Γ) (hv : M.validate = .ok ()) (w : List Γ) (n : Nat) :
    M.asMNTM.readStepwise w n =
      ((M.readStepwise w n).1.map DTM.toM, (M.readStepwise w n).2) ∧
    M.asMNTM.verdict w n = M.verdict w n := by
  have h := M.asMNTM_readStepwise (M.validate_final_no_rows hv).1 w n
  exact ⟨h, by unfold MNTM.verdict DTM.verdict; rw [h]⟩

/-- The same deterministic table as DTM and as NTM: whenever one of them is decided within a
budget, the other one is decided the same way (the NTM needs one more call to notice that
the only branch is stuck). -/
theorem C03_agree_ntm (M : DTM σ Γ) (w : List Γ) (n : Nat) :
    ((M.readStepwise w n).2 ≠ .running →
      (M.asNTM.readStepwise w (n + 1)).2 = (M.readStepwise w n).2) ∧
    ((M.asNTM.readStepwise w n).2 ≠ .running →
      (M.readStepwise w n).2 = (M.asNTM.readStepwise w n).2) := by
  have h0 : M.asNTM.initCfg w = M.initCfg w := rfl
  unfold NTM.readStepwise DTM.readStepwise
  rw [h0]
  constructor
  · intro h
    cases n with
    | zero => simp [genStart] at h
    | succ n =>
      simp only [genStart] at h ⊢
      exact M.asNTM_of_dtm n _ _ h rfl
  · intro h
    cases n with
    | zero => simp [genStart] at h
    | succ n =>
      simp only [genStart] at h ⊢
      exact M.dtm_of_asNTM n _ _ h rfl

/-- **Same verdict, three ways**: for a valid deterministic table and any input, a verdict
(accept / reject) decided by the DTM within `n` calls is the verdict of the same table run as
NTM and as one-tape MNTM (within `n + 1` calls), and no run raises anything but the
rejection exception. -/
theorem C03_agree (M : DTM σ Γ) (hv : M.validate = .ok ()) (w : List Γ) (n : Nat) (v : Verdict)
    (hd : M.verdict w n = .ok v) (hv' : v ≠ .outOfFuel) :
    M.asNTM.verdict w (n + 1) = .ok v ∧ M.asMNTM.verdict w n = .ok v := by
  refine ⟨?_, by rw [(C03_agree_mntm M hv w n).2, hd]⟩
  unfold DTM.verdict at hd
  unfold NTM.verdict
  have hne : (M.readStepwise w n).2 ≠ .running := by
    intro h; rw [h] at hd; simp only [verdictOf, Except.ok.injEq] at hd; exact hv' hd.symm
  rw [(C03_agree_ntm M w n).1 hne, hd]

/-! ## Non-vacuity: concrete machines satisfy the hypotheses and exercise the edge cases -/

/-- `q0 -0/#,L→ q0`, `q0 -#/0,L→ q1`, `q1 -#/#,R→ q2 (final)`: erases the input cell, runs off
the left end twice (blank inserted at index 0), comes back. States 0,1,2; symbols 0 ('0'),
9 (blank). -/
def exD : DTM Nat Nat :=
  { states := [0, 1, 2], inputSyms := [0], tapeSyms := [0, 9],
    trans := [(0, [(0, (0, 9, .L)), (9, (1, 0, .L))]), (1, [(9, (2, 9, .R))])],
    init := 0, blank := 9, finals := [2] }

example : exD.validate = .ok () := by decide
example : exD.asNTM.validate = .ok () ∧ exD.asMNTM.validate = .ok () := C03_lift_valid exD (by decide)
example : (exD.readStepwise [0] 6).2 = .returned := by decide
example : ((exD.readStepwise [0] 6).1.map fun c => (c.state, c.tape.cells, c.tape.pos)) =
    [(0, [0], 0), (0, [9, 9], 0), (1, [9, 0, 9], 0), (2, [9, 0, 9], 1)] := by decide
example : exD.verdict [0] 6 = .ok .accept ∧ exD.asNTM.verdict [0] 7 = .ok .accept ∧
    exD.asMNTM.verdict [0] 6 = .ok .accept := by decide
/-- a stuck run (`q0` reading a symbol without row, after one step): rejected by all three -/
example : exD.verdict [0, 5] 9 = .ok .accept ∧ exD.verdict [5] 9 = .ok .reject ∧
    exD.asNTM.verdict [5] 10 = .ok .reject ∧ exD.asMNTM.verdict [5] 9 = .ok .reject := by decide
example : (Tape.init [0] 9).WF := Tape.init_wf _ _ _

/-- A nondeterministic two-tape machine with two successors (queue order: second first). -/
def exM : MNTM Nat Nat :=
  { states := [0, 1], inputSyms := [0], tapeSyms := [0, 9], nTapes := 2,
    trans := [(0, [([0, 9], [(0, [(0, .R), (0, .L)]), (1, [(9, .N), (0, .R)])])])],
    init := 0, blank := 9, finals := [1] }

example : exM.validate = .ok () := by decide
example : (exM.readStepwise [0, 0] 4).2 = .returned ∧
    (exM.readStepwise [0, 0] 4).1.map (·.state) = [0, 1] := by decide

end AV.Props.C03
