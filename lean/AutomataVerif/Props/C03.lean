import AutomataVerif.Model.TM
